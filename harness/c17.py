"""C17 — release positions are uniformly distributed over the release area.

Statistical layer on the implementation (the property prescribes it): per-polygon counts and counts on
each side of random half-plane cuts against exact two-sided binomial tail bounds, total false-alarm
budget 1e-9 per run (Bonferroni over all tests); two-element range attributes on 10 bins.
Correspondence: the bit-exact draw-replay of the sampling map is shared with C03 (re-run here).

Second family of experiments (own false-alarm budget ALPHA_NEW, Bonferroni over MAX_TESTS_NEW, counted):
polygons spread over both hemispheres in every container form of `latlon_from_poly`; the GeoJSON, nested-list
and metric-offset forms of `get_location`; direct calls of `get_polygon_sample_triangles` (mixed orientation)
and of `get_polygon_sample{,_convex,_nonconvex}`; shares of a 16-cell barycentric grid pooled over the
triangles; per-particle oracles on the recorded draws (cumulative-area interval, affine map); range
attributes in every container / through `make_release`, with a DKW bound and an atom bound.

Third family (`_exp_reuse`, budget of the second family): one input object -- a location, a configuration, the arrays of
the sampling functions, in every container form including single ndarrays -- used several times (groups of one release,
repeated calls, YAML alias), unchanged or changed by the caller between the calls (array moved in place, file name
rewritten); every use is judged on its own against a pristine copy of the release area as it was at that use.

Fourth family (`_exp_range_values`, `_exp_zero_coords`, budget of the second family): the values of the numbers -- bounds of a
two-element range that are zero, negative zero, negative, tiny, huge, equal, descending, int / float / numpy scalars, on every
route into get_attr (get_attr, get_attrs, make_release flat / attrs / groups / YAML / release file, with and without seed, large
and small num != 2); release areas whose coordinates are 0, negative or whole numbers.  Implementation-side oracles only (the
Lean driver has no operation for these routes; the bit-exact sampling map stays with C03)."""
import importlib, math, io, json, copy
from fractions import Fraction as Fr
import numpy as np
from .common import RngRecorder
from . import geom, c03

RULE = ("1..4 disjoint simple polygons (star / comb / triangles, both orientations) with area ratios up to ~1:50 (35% of the shapes "
        "1e-4..1e-3 degrees across), N samples per shape through the real latlon_from_poly, per-polygon counts + 6 random half-plane "
        "cuts per shape, exact binomial bounds; range attributes [lo,hi] on 10 bins. "
        "Added family: 1..5 polygons (also strictly convex, 60..400-vertex stars, rectangles with collinear mid-edge vertices) with centres "
        "at latitudes -75..75 and longitudes -170..170, radii mixed 1:10 inside a shape, passed as list of arrays / nested lists / single "
        "polygon / equal vertex counts (also as one 2-D array), N up to 1e5 (quick) / 5e5; a cut on every polygon; GeoJSON layers "
        "(1..4 features, Polygon / MultiPolygon, dict or list of layers, and farms of 12..50 cages) , nested-list and metric-offset "
        "locations through get_location; get_polygon_sample_triangles on valid triangulations with randomly flipped / permuted "
        "triangles; get_polygon_sample / _convex / _nonconvex on (n,2) arrays; 16-cell barycentric grid + centre triangle pooled over "
        "triangles; per-particle pick-interval and affine-map oracles from the recorded draws; ranges with float / int bounds as list, "
        "tuple, ndarray, explicit uniform dict, through get_attrs and make_release (implicit key and attrs), DKW + atom bounds. "
        "Third family (one input object, 2..4 uses, every use judged on its own against a pristine copy): a location -- metric offsets of "
        "1..3 polygons around a centre (centre as list / tuple / ndarray), lon/lat polygons, a GeoJSON file name -- or the arrays of "
        "latlon_from_poly / get_polygon_sample{,_convex,_nonconvex} / get_polygon_sample_triangles, held as nested lists, tuples, list of "
        "arrays, one array per coordinate, or ONE (2,n) / (2,k,n) ndarray (C order, Fortran order, transposed view, float32, integer, "
        "read-only); used by 2..4 groups of one make_release (dict or list configuration, optionally with another group in between, or the "
        "same group dict listed several times), by a YAML configuration with an alias, by repeated make_release calls with one "
        "configuration (with / without a config seed), by repeated get_location calls, by repeated direct calls; between two calls the "
        "object is left alone, or the caller moves the float64 array of corners in place, or the next area (1..3 new polygons) is written to "
        "the same GeoJSON file name (two of three GeoJSON areas of a run also share one file name); kinds in shuffled blocks of 12 and offset "
        "containers from a shuffled deck, so every run holds every kind and container; a two-element range "
        "(list / tuple / ndarray / uniform dict) shared the same way; per use: count, every position inside the release area, polygon "
        "shares, a half-plane cut on every polygon + 2, range on 10 bins. "
        "Fourth family (the VALUES of the numbers; statistical budget of the second family). Two-element ranges [lo, hi] from 13 classes "
        "dealt from a shuffled deck (every run holds every class, about 4 times in the quick tier): upper bound exactly 0 with int / float / negative-zero "
        "bounds ([-10, 0], [-2.5, 0.0], [-7.5, -0.0], [-1e6, 0], random), lower bound 0, ranges straddling 0, both bounds negative, both "
        "positive, tiny (1e-30..1e-9) and huge (1e9..1e100) magnitudes, mixed int / float bounds, degenerate [a, a] (also [0, 0], [-0.0, -0.0]), "
        "descending [hi, lo], numpy scalar bounds (float64 / float32 / int64 / int32); on 16 routes from a shuffled deck: get_attr with list / "
        "tuple / ndarray / explicit uniform dict, get_attrs (depth / user key, with a constant and a second range, either key order), "
        "make_release with the range as implicit depth / implicit user key / attrs user key / attrs depth, 2..3 groups with a range each "
        "(dict and list configuration), a YAML text, the written release file read back, `columns` option, config seed absent / 0 / 1 / random, "
        "date or date span, point locations (also [0, 0], negative, -0.0) or small areas; num 2001..2e4 (2e5 thorough) and small groups of "
        "num = 1, 3, 4, 5, 7, 10, 33 (never 2: then the list is the vector of values) pooled over 120..6000 calls; per array: count, every "
        "value inside [min(lo,hi), max(lo,hi)] (4 ulp of the larger bound; exactly the point for [a, a]), ten tenths + seven lower quantiles "
        "(exact binomial), DKW, atoms. Release areas with coordinates 0 / -0.0 / negative / whole numbers (int or float): whole-number shapes "
        "(square, triangle, L, U, diamond; mirrored, scaled, with a vertex at the origin, an edge on an axis, across it or on the negative "
        "side) and translated general polygons (a vertex exactly on x = 0 / y = 0, touching an axis from either side, across, negative side), "
        "1..3 polygons, through latlon_from_poly (lists / arrays), get_location, GeoJSON (Polygon / MultiPolygon), metric offsets (centre "
        "[0, 0], lon 0, lat 0, -0.0, negative; offsets with vertices at 0 m; lists / arrays) and make_release (with depth [-10, 0]): count, "
        "polygon shares, half-plane cuts, every position inside, share of the area on either side of x = 0 and of y = 0. "
        "Non-trivial: every statistical experiment.")
ASSUMPTIONS = ["np.random.rand is uniform on [0,1) (numpy legacy generator, trusted; this layer validates it)",
               "'a.e.-bijection with constant Jacobian maps uniform to uniform' is cited, not formalised",
               "metric-offset experiment: the harness converts degrees back to metres with its own copy of the WGS84 formulas of C03 "
               "(a positive diagonal linear map, so area shares are those of the offset polygon)",
               "points within double rounding of a cut line / cell border may be counted on the other side (probability ~1e-10 per point; "
               "cannot move a 7.5-sigma bound)"]
ALPHA_TOTAL = 1e-9
MAX_TESTS = 3000
SITE = "ladim_plugins/release/makrel.py::get_polygon_sample_triangles"


def binom_ok(k, n, p):
    from scipy.stats import binom
    a = ALPHA_TOTAL / MAX_TESTS / 2
    if p <= 0:
        return k == 0
    if p >= 1:
        return k == n
    return not (binom.cdf(k, n, p) < a or binom.sf(k - 1, n, p) < a)


# ============================================================================= second family of experiments
# Own false-alarm budget: the first family keeps its per-test level unchanged.  Every statistical test of the
# second family goes through `_count_test()`; `run` checks the count against MAX_TESTS_NEW (Bonferroni).
ALPHA_NEW = 1e-9
MAX_TESTS_NEW = 20000
_new_tests = [0]
MK = "ladim_plugins/release/makrel.py::"


def _level():
    return ALPHA_NEW / MAX_TESTS_NEW / 2


def _count_test():
    _new_tests[0] += 1


def binom_ok2(k, n, p):
    """exact two-sided binomial tail bound at the per-test level of the second family"""
    from scipy.stats import binom
    _count_test()
    a = _level()
    if p <= 0:
        return k == 0
    if p >= 1:
        return k == n
    return not (binom.cdf(k, n, p) < a or binom.sf(k - 1, n, p) < a)


# ----------------------------------------------------------------------------- polygon generators (all simple)
def _finish(rng, p):
    """random orientation and random start vertex"""
    j = rng.randrange(len(p))
    p = p[j:] + p[:j]
    if rng.random() < 0.5:
        p = p[::-1]
    return p


def _convex_polygon(rng, cx, cy, r, n):
    """strictly convex: n points of an ellipse at strictly increasing angles (gaps >= 0.2 * 2 pi / n)"""
    base = rng.uniform(0, 2 * math.pi)
    ang = [base + 2 * math.pi * (i + rng.uniform(0.1, 0.9)) / n for i in range(n)]
    return _finish(rng, [(cx + r * math.cos(a), cy + 0.6 * r * math.sin(a)) for a in ang])


def _radial_star(rng, cx, cy, r, n):
    """star-shaped about its centre: strictly increasing polar angles with gaps < pi and positive radii, hence simple
    by construction (the y-squash is linear and keeps that); used for many-vertex polygons, where the exact O(n^2)
    simplicity test of geom would be too slow, and for polygons with a prescribed vertex count"""
    out = []
    for i in range(n):
        a = 2 * math.pi * (i + rng.uniform(0.1, 0.9)) / n
        rr = r * rng.uniform(0.4, 1.0)
        out.append((cx + rr * math.cos(a), cy + 0.6 * rr * math.sin(a)))
    return _finish(rng, out)


def _collinear_rect(rng, cx, cy, r):
    """a rectangle (cage, basin) with extra vertices on its edges: consecutive collinear vertices, still a simple polygon"""
    while True:
        w = r * rng.uniform(0.5, 1.0); h = 0.6 * r * rng.uniform(0.3, 1.0)
        x0, x1, y0, y1 = cx - w, cx + w, cy - h, cy + h
        mid = lambda a, b: sorted(a + (b - a) * rng.uniform(0.05, 0.95) for _ in range(rng.randrange(0, 4)))
        p = [(x0, y0)] + [(x, y0) for x in mid(x0, x1)] + [(x1, y0)] + [(x1, y) for y in mid(y0, y1)] + \
            [(x1, y1)] + [(x, y1) for x in mid(x0, x1)[::-1]] + [(x0, y1)] + [(x0, y) for y in mid(y0, y1)[::-1]]
        if len(set(p)) == len(p) and x0 < x1 and y0 < y1:
            return _finish(rng, p)


def _any_polygon(rng, cx, cy, r, many=(60, 140)):
    kind = rng.choice(["geom", "geom", "geom", "convex", "collinear", "many"])
    if kind == "geom":
        return kind, geom.random_polygon(rng, cx, cy, r)
    if kind == "convex":
        return kind, _convex_polygon(rng, cx, cy, r, rng.randrange(3, 13))
    if kind == "collinear":
        return kind, _collinear_rect(rng, cx, cy, r)
    return kind, _radial_star(rng, cx, cy, r, rng.randrange(*many))


def _box(cx, cy, r):
    # every generator above stays inside [cx-r, cx+r] x [cy-0.6r, cy+0.6r]; the comb of geom reaches cy+0.57r
    return (cx - 1.02 * r, cx + 1.02 * r, cy - 0.62 * r, cy + 0.62 * r)


def _disjoint(b, boxes, gap):
    return all(b[1] + gap < o[0] or o[1] + gap < b[0] or b[3] + gap < o[2] or o[3] + gap < b[2] for o in boxes)


def _layout(rng, k, small):
    """k centres and radii with pairwise disjoint boxes: large areas spread over both hemispheres (a weight that
    depends on the position of a polygon, not only on its planar area, changes the shares visibly), small areas
    (cages of tens of metres) next to each other anywhere on the globe"""
    out = []; boxes = []
    if small:
        base = rng.choice([1e-4, 3e-4, 1e-3]); lon0 = rng.uniform(-170, 170); lat0 = rng.uniform(-75, 75)
    else:
        base = rng.choice([0.1, 0.3, 0.5])
    while len(out) < k:
        r = base * rng.choice([1, 1, 2, 3, 6])
        if small:
            cx = lon0 + base * rng.uniform(-40, 40); cy = lat0 + base * rng.uniform(-25, 25)
        else:
            cx = rng.uniform(-170, 170); cy = rng.choice([-75.0, -40.0, -5.0, 0.0, 30.0, 60.0, 75.0]) + rng.uniform(-4, 4)
        b = _box(cx, cy, r)
        if _disjoint(b, boxes, 0.05 * base):
            out.append((cx, cy, r)); boxes.append(b)
    return out


def _bbox_labels(polys, x, y):
    """label of the polygon whose (padded, pairwise disjoint) bounding box holds the point; -1: none"""
    lab = np.full(len(x), -1)
    for i, p in enumerate(polys):
        xs = [q[0] for q in p]; ys = [q[1] for q in p]
        # rounding of the convex combination (and of a conversion to metres): a few ulps of the coordinates
        px = 1e-9 * (max(xs) - min(xs)) + 16 * float(np.spacing(max(abs(v) for v in xs)))
        py = 1e-9 * (max(ys) - min(ys)) + 16 * float(np.spacing(max(abs(v) for v in ys)))
        m = (x >= min(xs) - px) & (x <= max(xs) + px) & (y >= min(ys) - py) & (y <= max(ys) + py)
        lab[m] = i
    return lab


def _is_convex_exact(p):
    sg = set()
    n = len(p)
    for i in range(n):
        (ax, ay), (bx, by), (cx, cy) = p[i - 1], p[i], p[(i + 1) % n]
        v = (Fr(bx) - Fr(ax)) * (Fr(cy) - Fr(ay)) - (Fr(by) - Fr(ay)) * (Fr(cx) - Fr(ax))
        if v != 0:
            sg.add(v > 0)
    return len(sg) == 1


# ----------------------------------------------------------------------------- shared oracles
def _share_tests(ctx, tag, site, polys, lab, x, y, N, cs, cut_on=None, extra_cuts=2):
    """polys: [(x, y)] in the coordinates of the points x, y; lab: polygon index of every particle (or -1).
    Per-polygon counts, the pooled count of all polygons but the largest, no particle outside, and half-plane
    cuts: one on every polygon of `cut_on` (default: all) plus `extra_cuts` random ones."""
    k = len(polys)
    areas = [abs(geom.shoelace(p)) for p in polys]
    A = sum(areas)
    cs = dict(cs, areas=areas)
    none = int(np.sum((lab < 0) | (lab >= k)))
    ctx.oracle(none == 0, "C17.%s.outside" % tag, site, "%d of %d particles in none of the polygons (area share 0)" % (none, N), cs)
    counts = np.bincount(lab[(lab >= 0) & (lab < k)], minlength=k)
    for i in range(k):
        cnt = int(counts[i]); sh = areas[i] / A
        ctx.oracle(binom_ok2(cnt, N, sh), "C17.%s.polygon_share" % tag, site,
                   "polygon %d (area share %.6f) received %d of %d particles (expected %.0f +- %.0f)" %
                   (i, sh, cnt, N, N * sh, math.sqrt(N * sh * (1 - sh))), dict(cs, polygon=i, count=cnt))
    if k > 1:
        big = max(range(k), key=lambda i: areas[i])
        cnt = int(counts.sum() - counts[big]); sh = 1 - areas[big] / A
        ctx.oracle(binom_ok2(cnt, N, sh), "C17.%s.polygon_share_pooled" % tag, site,
                   "all polygons but the largest (area share %.6f) received %d of %d (expected %.0f)" % (sh, cnt, N, N * sh),
                   dict(cs, largest=big, count=cnt))
    which = list(range(k)) if cut_on is None else list(cut_on)
    which += [ctx.rng.randrange(k) for _ in range(extra_cuts)]
    for i in which:
        p = polys[i]
        th = ctx.rng.uniform(0, 2 * math.pi); a, b = math.cos(th), math.sin(th)
        vals = [a * px + b * py for px, py in p]
        cc = ctx.rng.uniform(min(vals), max(vals))
        part = geom.clip_halfplane(p, a, b, cc)
        share = min(max((abs(geom.shoelace(part)) if len(part) >= 3 else 0.0) / A, 0.0), 1.0)
        cnt = int(np.sum((lab == i) & (a * x + b * y <= cc)))
        ctx.case(key=(tag + ".cut", repr(p[:4]), th, cc), nontrivial=True); ctx.branch(tag + ".halfplane_cut")
        ctx.oracle(binom_ok2(cnt, N, share), "C17.%s.halfplane_share" % tag, site,
                   "half-plane cut of polygon %d: area share %.6f, received %d of %d (expected %.0f)" % (i, share, cnt, N, N * share),
                   dict(cs, polygon=i, cut=[a, b, cc], count=cnt, share=share))


def _locate(tris, x, y, eps=1e-6):
    """triangle of a valid triangulation that holds each point, with its coordinates (s, t) in that triangle:
    point = v1 + s (v2 - v1) + t (v3 - v1).  eps (barycentric units) absorbs the rounding of the implementation's
    convex combination and of this solve (about 1e-9 for a 10 m triangle at 60 N); points on a shared edge go to the
    first triangle, which moves an expected count by at most ~N * 1e-6."""
    n = len(x)
    tn = np.full(n, -1); S = np.zeros(n); T = np.zeros(n)
    for j, tri in enumerate(np.asarray(tris, dtype=float)):
        (x1, y1), (x2, y2), (x3, y3) = tri
        d = (x2 - x1) * (y3 - y1) - (x3 - x1) * (y2 - y1)
        if d == 0:
            continue
        idx = np.nonzero(tn < 0)[0]
        if len(idx) == 0:
            break
        s = ((x[idx] - x1) * (y3 - y1) - (x3 - x1) * (y[idx] - y1)) / d
        t = ((x2 - x1) * (y[idx] - y1) - (x[idx] - x1) * (y2 - y1)) / d
        ok = (s >= -eps) & (t >= -eps) & (s + t <= 1 + eps)
        tn[idx[ok]] = j; S[idx[ok]] = s[ok]; T[idx[ok]] = t[ok]
    return tn, S, T


def _sub_triangle_tests(ctx, tag, site, s, t, cs):
    """Positions are uniform within each triangle of a valid triangulation, so -- pooled over the triangles, whatever
    their areas -- each of the 16 congruent cells of the 4 x 4 barycentric grid holds 1/16 of the particles and the
    centre triangle (the triangle scaled by 1/2 about its centroid: all barycentric coordinates >= 1/6) holds 1/4."""
    n = len(s)
    if n == 0:
        return
    s = np.clip(s, 0.0, 1.0); t = np.clip(t, 0.0, 1.0)
    e = np.maximum(s + t - 1.0, 0.0)
    s = (s - e / 2) * (1 - 1e-12); t = (t - e / 2) * (1 - 1e-12)       # rounding only: keeps s + t < 1
    s = np.maximum(s, 0.0); t = np.maximum(t, 0.0)
    fs = 4 * s; ft = 4 * t
    i = np.minimum(np.floor(fs), 3).astype(int); j = np.minimum(np.floor(ft), 3).astype(int)
    up = ((fs - i) + (ft - j) < 1).astype(int)
    code = i * 8 + j * 2 + up
    cnt = np.bincount(code, minlength=64)
    valid = [a * 8 + b * 2 + 1 for a in range(4) for b in range(4) if a + b <= 3] + \
            [a * 8 + b * 2 for a in range(4) for b in range(4) if a + b <= 2]
    assert len(valid) == 16 and int(cnt[valid].sum()) == n, "barycentric grid bookkeeping"
    for c in valid:
        ctx.oracle(binom_ok2(int(cnt[c]), n, 1.0 / 16), "C17.%s.sub_triangle_share" % tag, site,
                   "barycentric cell (i=%d, j=%d, %s) pooled over the triangles holds %d of %d particles (expected %.0f)" %
                   (c // 8, (c // 2) % 4, "up" if c % 2 else "down", cnt[c], n, n / 16.0), dict(cs, cell=c, counts=cnt[valid].tolist()))
    centre = int(np.sum(np.minimum(np.minimum(s, t), 1 - s - t) >= 1.0 / 6))
    ctx.oracle(binom_ok2(centre, n, 0.25), "C17.%s.centre_triangle_share" % tag, site,
               "the half-size triangles about the centroids hold %d of %d particles (expected %.0f)" % (centre, n, n / 4.0), dict(cs, count=centre))
    ctx.branch(tag + ".sub_triangles")


def _exact_cum_shares(tris):
    ar = []
    for tri in np.asarray(tris, dtype=float):
        (x1, y1), (x2, y2), (x3, y3) = [(Fr(float(v[0])), Fr(float(v[1]))) for v in tri]
        ar.append(abs((x2 - x1) * (y3 - y1) - (x3 - x1) * (y2 - y1)) / 2)
    tot = sum(ar)
    cum = []; acc = Fr(0)
    for a in ar:
        acc += a; cum.append(float(acc / tot))
    return np.array(cum), [float(a / tot) for a in ar]


def _draw_oracles(ctx, tag, site, tris, rec, N, outx, outy, cs, tnum=None, polynum=None, pidx=None):
    """Per-particle oracles from the recorded draws (the mechanism behind the shares, anchors of C17): the particle
    with first draw u lies in the triangle k with cum_{k-1}/A < u <= cum_k/A (cumulative exact areas), and its position
    is v1 + s (v2 - v1) + t (v3 - v1) for the folded pair (s, t) of its two other draws.  Only evaluated when the
    implementation asked for the draws of that scheme (another scheme may be uniform as well; C03's correspondence
    reports a changed schedule).  tris in the coordinate order of outx, outy."""
    if rec.schedule() != [("rand", (N,)), ("rand", (2 * N,))]:
        ctx.branch(tag + ".other_draw_schedule"); return
    tris = np.asarray(tris, dtype=float)
    u = np.asarray(rec.log[0][3]); st = np.asarray(rec.log[1][3]).reshape((2, -1))
    cum, _ = _exact_cum_shares(tris)
    k = np.minimum(np.searchsorted(cum, u, side="left"), len(cum) - 1)
    # the implementation's float cumulative sum differs from the exact one by at most ~T * 2^-53 <= 1e-13:
    # particles whose draw is that close to an interval end are not judged
    below = np.where(k > 0, cum[np.maximum(k - 1, 0)], -1.0)
    far = (np.abs(u - cum[k]) > 1e-12) & (np.abs(u - below) > 1e-12)
    if tnum is not None:
        bad = np.nonzero(far & (np.asarray(tnum) != k))[0]
        got = lambda i: "triangle %d" % int(tnum[i]); want = lambda i: "triangle %d" % int(k[i])
    else:
        bad = np.nonzero(far & (np.asarray(polynum) != np.asarray(pidx)[k]))[0]
        got = lambda i: "polygon %d" % int(polynum[i]); want = lambda i: "polygon %d (triangle %d)" % (int(pidx[k[i]]), int(k[i]))
    ctx.oracle(len(bad) == 0, "C17.%s.pick_interval" % tag, site,
               "%d particles are not in the triangle whose cumulative-area interval holds their draw; first: particle %d, u=%r -> %s, expected %s"
               % ((len(bad),) + ((int(bad[0]), float(u[bad[0]]), got(bad[0]), want(bad[0])) if len(bad) else (0, 0.0, "", ""))),
               dict(cs, particle=int(bad[0]) if len(bad) else None))
    kk = np.asarray(tnum) if tnum is not None else k
    s, t = st[0].copy(), st[1].copy()
    fold = s + t > 1
    s[fold] = 1 - s[fold]; t[fold] = 1 - t[fold]
    v = tris[kk]
    ex = (v[:, 1, 0] - v[:, 0, 0]) * s + (v[:, 2, 0] - v[:, 0, 0]) * t + v[:, 0, 0]
    ey = (v[:, 1, 1] - v[:, 0, 1]) * s + (v[:, 2, 1] - v[:, 0, 1]) * t + v[:, 0, 1]
    # a few roundings of numbers of the size of the coordinates (any algebraically equal evaluation order passes)
    tol = 1e-12 * (1.0 + float(np.max(np.abs(tris))))
    judged = far if tnum is None else np.ones(N, dtype=bool)
    bad = np.nonzero(judged & ((np.abs(np.asarray(outx) - ex) > tol) | (np.abs(np.asarray(outy) - ey) > tol)))[0]
    ctx.oracle(len(bad) == 0, "C17.%s.affine_map" % tag, site,
               "%d particles are not at v1 + s (v2 - v1) + t (v3 - v1) of their triangle; first: particle %d at (%r, %r), expected (%r, %r)"
               % ((len(bad),) + ((int(bad[0]), float(outx[bad[0]]), float(outy[bad[0]]), float(ex[bad[0]]), float(ey[bad[0]])) if len(bad) else (0, 0.0, 0.0, 0.0, 0.0))),
               dict(cs, particle=int(bad[0]) if len(bad) else None))
    ctx.branch(tag + ".draw_oracles")


# ----------------------------------------------------------------------------- experiments of the second family
def _exp_spread(ctx, mk):
    """latlon_from_poly: polygons anywhere on the globe, every container form, larger N, all oracles"""
    site = MK + "latlon_from_poly"
    N = ctx.n(100000, 500000)
    for c in range(ctx.n(14, 40)):
        form = ctx.rng.choice(["arrays", "arrays", "lists", "single", "equal_nvert", "equal_nvert_2d"])
        small = ctx.rng.random() < 0.3
        k = 1 if form == "single" else (ctx.rng.randrange(2, 5) if form.startswith("equal") else ctx.rng.randrange(1, 6))
        lay = _layout(ctx.rng, k, small)
        if form.startswith("equal"):
            nv = ctx.rng.randrange(3, 10)
            kinds = ["equal"] * k
            polys = [_radial_star(ctx.rng, cx, cy, r, nv) if nv > 3 else _convex_polygon(ctx.rng, cx, cy, r, 3) for cx, cy, r in lay]
        else:
            kp = [_any_polygon(ctx.rng, cx, cy, r, many=(60, 400)) for cx, cy, r in lay]
            kinds = [a for a, _ in kp]; polys = [b for _, b in kp]
        if form == "lists":
            plat = [[float(q[1]) for q in p] for p in polys]; plon = [[float(q[0]) for q in p] for p in polys]
        elif form == "equal_nvert_2d":
            plat = np.array([[q[1] for q in p] for p in polys]); plon = np.array([[q[0] for q in p] for p in polys])
        else:
            plat = [np.array([q[1] for q in p]) for p in polys]; plon = [np.array([q[0] for q in p]) for p in polys]
        cs = dict(polys=polys, N=N, form=form, kinds=kinds)
        ctx.case(key=("spread", form, repr([p[:3] for p in polys])), nontrivial=True,
                 sample=dict(experiment="spread", form=form, kinds=kinds, nvert=[len(p) for p in polys], N=N) if c < 2 else None)
        ctx.branch("spread.form=" + form); ctx.branch("spread.npoly=%d" % k); ctx.branch("spread.small" if small else "spread.large")
        for kd in set(kinds):
            ctx.branch("spread.kind=" + kd)
        with RngRecorder(ctx.sub_seed()) as rec:
            if form == "single":
                lat, lon, polynum = mk.latlon_from_poly(plat[0], plon[0], N)
            else:
                lat, lon, polynum = mk.latlon_from_poly(plat, plon, N)
        lat = np.asarray(lat); lon = np.asarray(lon); polynum = np.asarray(polynum)
        _share_tests(ctx, "spread", site, polys, polynum, lon, lat, N, cs)
        # the label returned with a position is the polygon that holds the position (counts above are per label,
        # cuts per label and position; this ties the two for all N particles through the disjoint bounding boxes)
        lab = _bbox_labels(polys, lon, lat)
        nb = int(np.sum(lab != polynum))
        ctx.oracle(nb == 0, "C17.spread.label_vs_position", site, "%d of %d particles carry the index of a polygon whose bounding box does not hold them" % (nb, N), cs)
        # the triangulation the code uses (coordinates (lat, lon)), as in C03
        coords = [np.stack((np.asarray(la, dtype=float), np.asarray(lo, dtype=float))).T for la, lo in zip(plat, plon)]
        tris, pidx = mk.triangulate_nonconvex_multi(coords)
        valid = True
        for i, p in enumerate(polys):
            ok, msg = geom.valid_triangulation([(q[1], q[0]) for q in p], [t for t, j in zip(tris, pidx) if j == i])
            valid = valid and ok
            ctx.oracle(ok, "C17.spread.triangulation_invalid", MK + "triangulate_nonconvex", msg, dict(cs, polygon=i))
        if not valid:
            continue
        _draw_oracles(ctx, "spread", site, tris, rec, N, lat, lon, cs, polynum=polynum, pidx=pidx)
        # uniform within every triangle: locate (per polygon; at most 20000 particles of a many-vertex polygon)
        S = []; T = []; lost = 0
        for i in range(k):
            idx = np.nonzero(polynum == i)[0]
            if len(polys[i]) > 40:
                idx = idx[:20000]
            tn, s, t = _locate([tr for tr, j in zip(tris, pidx) if j == i], lat[idx], lon[idx])
            lost += int(np.sum(tn < 0)); S.append(s[tn >= 0]); T.append(t[tn >= 0])
        ctx.oracle(lost == 0, "C17.spread.outside_triangulation", site, "%d particles lie in no triangle of their polygon" % lost, cs)
        _sub_triangle_tests(ctx, "spread", site, np.concatenate(S), np.concatenate(T), cs)


def _deg_to_m(dlon, dlat, lat0):
    a = 6378137.0; b = 6356752.314245
    ph = lat0 * math.pi / 180
    return a * math.cos(ph) * dlon * math.pi / 180, math.sqrt((a * math.sin(ph)) ** 2 + (b * math.cos(ph)) ** 2) * dlat * math.pi / 180


def _exp_locations(ctx, mk):
    """the location forms of get_location at statistical N: GeoJSON layers, nested lists, metric offsets"""
    N = ctx.n(50000, 300000)
    ring = lambda p: [[x, y] for x, y in p] + [[p[0][0], p[0][1]]]
    for c in range(ctx.n(16, 40)):
        form = ctx.rng.choice(["geojson", "geojson", "geojson_farm", "lists", "offset"])
        ctx.branch("location.form=" + form)
        if form in ("geojson", "geojson_farm"):
            site = MK + "get_location_file"
            feats = []; polys = []; owner = []
            if form == "geojson":
                nfeat = ctx.rng.randrange(1, 5)
                npol = [ctx.rng.randrange(1, 4) for _ in range(nfeat)]
                if sum(npol) == 1:
                    npol[0] = 2
                lay = _layout(ctx.rng, sum(npol), ctx.rng.random() < 0.3)
                ps = [_any_polygon(ctx.rng, cx, cy, r)[1] for cx, cy, r in lay]
            else:
                # a fish farm: 12..50 cages of 10..30 m in rows, a feature per row or one feature for the farm
                nx = ctx.rng.randrange(4, 11); ny = ctx.rng.randrange(3, 6)
                r0 = ctx.rng.choice([1e-4, 2e-4]); lon0 = ctx.rng.uniform(-170, 170); lat0 = ctx.rng.uniform(-75, 75)
                ps = []
                for j in range(ny):
                    for i in range(nx):
                        r = r0 * ctx.rng.choice([1.0, 1.0, 1.5])
                        cx = lon0 + 4 * r0 * i; cy = lat0 + 3 * r0 * j
                        ps.append(_collinear_rect(ctx.rng, cx, cy, r) if ctx.rng.random() < 0.5 else _convex_polygon(ctx.rng, cx, cy, r, ctx.rng.randrange(4, 9)))
                npol = [nx] * ny if ctx.rng.random() < 0.5 else [nx * ny]
                nfeat = len(npol)
            q = 0
            for f in range(nfeat):
                mine = ps[q:q + npol[f]]; q += npol[f]
                if npol[f] == 1 and ctx.rng.random() < 0.6:
                    g = dict(type="Polygon", coordinates=[ring(mine[0])])
                else:
                    g = dict(type="MultiPolygon", coordinates=[[ring(p)] for p in mine])
                feats.append(dict(type="Feature", geometry=g, properties=dict(fid=f + 1, w=10.5 * (f + 1))))
                for p in mine:
                    polys.append(p); owner.append(f)
            doc = dict(type="FeatureCollection", features=feats)
            as_list = ctx.rng.random() < 0.3
            if as_list:
                # a file with several layers: the first one is the release area; the decoy must not receive anything
                decoy = dict(type="FeatureCollection", features=[dict(type="Feature", properties=dict(fid=99),
                             geometry=dict(type="Polygon", coordinates=[ring(_convex_polygon(ctx.rng, 0.0, 85.0, 1.0, 5))]))])
                payload = [doc, decoy]
            else:
                payload = doc
            ctx.branch("location.geojson.layer_list" if as_list else "location.geojson.single_layer")
            ctx.branch("location.geojson.npoly>=12" if len(polys) >= 12 else "location.geojson.npoly<12")
            cs = dict(form=form, geojson=payload, N=N)
            ctx.case(key=("location", form, c, repr(polys[0][:3])), nontrivial=True,
                     sample=dict(experiment=form, nfeat=nfeat, npoly=len(polys), N=N) if c < 2 else None)
            with RngRecorder(ctx.sub_seed()):
                out = mk.get_location(io.StringIO(json.dumps(payload)), N)
            lon = np.array(out["longitude"], dtype=float); lat = np.array(out["latitude"], dtype=float)
            ctx.oracle(len(lon) == N and len(lat) == N, "C17.geojson.count", site, "%d positions for num=%d" % (len(lon), N), cs)
            if len(lon) != N:
                continue
            lab = _bbox_labels(polys, lon, lat)
            cut_on = None if len(polys) < 12 else [ctx.rng.randrange(len(polys)) for _ in range(6)]
            _share_tests(ctx, "geojson", site, polys, lab, lon, lat, N, cs, cut_on=cut_on)
            # the same shares seen through the attribute the particles carry: feature f owns area_f / A of them
            areas = [abs(geom.shoelace(p)) for p in polys]; A = sum(areas)
            fid = np.array(out.get("fid", [0] * N))
            for f in range(nfeat):
                sh = sum(a for a, o in zip(areas, owner) if o == f) / A
                cnt = int(np.sum(fid == f + 1))
                ctx.oracle(binom_ok2(cnt, N, min(sh, 1.0)), "C17.geojson.feature_share", site,
                           "feature %d (area share %.6f) is carried by %d of %d particles (expected %.0f)" % (f, sh, cnt, N, N * sh), dict(cs, feature=f, count=cnt))
            continue
        if form == "lists":
            site = MK + "get_location"
            k = ctx.rng.randrange(1, 5)
            lay = _layout(ctx.rng, k, ctx.rng.random() < 0.3)
            polys = [_any_polygon(ctx.rng, cx, cy, r)[1] for cx, cy, r in lay]
            if k == 1 and ctx.rng.random() < 0.7:
                spec = [[q[0] for q in polys[0]], [q[1] for q in polys[0]]]; ctx.branch("location.lists.single")
            else:
                spec = [[[q[0] for q in p] for p in polys], [[q[1] for q in p] for p in polys]]; ctx.branch("location.lists.multi")
            cs = dict(form=form, location=spec, N=N)
            ctx.case(key=("location", form, c, repr(polys[0][:3])), nontrivial=True)
            with RngRecorder(ctx.sub_seed()):
                out = mk.get_location(spec, N)
            lon = np.array(out["longitude"], dtype=float); lat = np.array(out["latitude"], dtype=float)
            ctx.oracle(len(lon) == N and len(lat) == N, "C17.lists.count", site, "%d positions for num=%d" % (len(lon), N), cs)
            if len(lon) != N:
                continue
            _share_tests(ctx, "lists", site, polys, _bbox_labels(polys, lon, lat), lon, lat, N, cs)
            continue
        # metric offsets (metres) around a centre; away from the poles and the antimeridian (those are C03's)
        site = MK + "get_location_offset"
        clon = ctx.rng.uniform(-170, 170); clat = ctx.rng.choice([-75.0, -40.0, 0.0, 45.0, 60.0, 78.0, ctx.rng.uniform(-80, 80)])
        off = _any_polygon(ctx.rng, ctx.rng.uniform(-200, 200), ctx.rng.uniform(-200, 200), ctx.rng.choice([15.0, 50.0, 500.0, 5000.0]))[1]
        spec = dict(center=[clon, clat], offset=[[q[0] for q in off], [q[1] for q in off]])
        cs = dict(form=form, location=spec, N=N)
        ctx.case(key=("location", form, c, repr(off[:3])), nontrivial=True)
        with RngRecorder(ctx.sub_seed()):
            out = mk.get_location(spec, N)
        lon = np.array(out["longitude"], dtype=float); lat = np.array(out["latitude"], dtype=float)
        ctx.oracle(len(lon) == N and len(lat) == N, "C17.offset.count", site, "%d positions for num=%d" % (len(lon), N), cs)
        if len(lon) != N:
            continue
        mx, my = _deg_to_m(lon - clon, lat - clat, clat)
        _share_tests(ctx, "offset", site, [off], _bbox_labels([off], mx, my), mx, my, N, cs, extra_cuts=4)


def _exp_direct(ctx, mk):
    """the sampling functions called directly: get_polygon_sample_triangles on valid triangulations whose triangles
    have arbitrary orientation and order; get_polygon_sample and its convex / non-convex halves on (n, 2) arrays"""
    N = ctx.n(50000, 300000)
    for c in range(ctx.n(21, 60)):
        which = ctx.rng.choice(["triangles", "triangles", "triangles_fan", "dispatch", "dispatch", "convex", "nonconvex"])
        cx = ctx.rng.uniform(-170, 170); cy = ctx.rng.uniform(-75, 75); r = ctx.rng.choice([1e-4, 1e-3, 0.3, 2.0])
        if which in ("triangles_fan", "convex") or (which == "dispatch" and ctx.rng.random() < 0.5):
            kind, p = ("collinear", _collinear_rect(ctx.rng, cx, cy, r)) if ctx.rng.random() < 0.25 else ("convex", _convex_polygon(ctx.rng, cx, cy, r, ctx.rng.randrange(3, 13)))
        else:
            kind, p = _any_polygon(ctx.rng, cx, cy, r)
        coords = np.array(p, dtype=float)
        convex = _is_convex_exact(p)
        ctx.branch("direct." + which); ctx.branch("direct.kind=" + kind); ctx.branch("direct.polygon_convex" if convex else "direct.polygon_nonconvex")
        ctx.case(key=("direct", which, repr(p[:4])), nontrivial=True, sample=dict(experiment="direct." + which, kind=kind, nvert=len(p), N=N) if c < 2 else None)
        cs = dict(call=which, polygon=p, N=N)
        if which.startswith("triangles"):
            site = MK + "get_polygon_sample_triangles"
            tris = np.array(mk.triangulate(coords) if which == "triangles_fan" else mk.triangulate_nonconvex(coords), dtype=float)
            if which == "triangles_fan":
                # the fan of a rectangle with mid-edge vertices contains flat triangles: they carry no area and are left out
                cr = (tris[:, 1, 0] - tris[:, 0, 0]) * (tris[:, 2, 1] - tris[:, 0, 1]) - (tris[:, 2, 0] - tris[:, 0, 0]) * (tris[:, 1, 1] - tris[:, 0, 1])
                tris = tris[cr != 0]
            ok, msg = geom.valid_triangulation(p, [t for t in tris])
            ctx.oracle(ok, "C17.direct.triangulation_invalid", MK + ("triangulate" if which == "triangles_fan" else "triangulate_nonconvex"), msg, cs)
            if not ok:
                continue
            # orientation and order of the triangles are not part of "a valid triangulation"
            order = list(range(len(tris))); ctx.rng.shuffle(order)
            tris = tris[order]
            flips = [ctx.rng.random() < 0.5 for _ in order]
            for j, f in enumerate(flips):
                if f:
                    tris[j] = tris[j][[0, 2, 1]]
            signed = [(t[1][0] - t[0][0]) * (t[2][1] - t[0][1]) - (t[1][1] - t[0][1]) * (t[2][0] - t[0][0]) for t in tris]
            ctx.branch("direct.mixed_orientation" if (min(signed) < 0 < max(signed)) else "direct.one_orientation")
            cs = dict(cs, triangles=tris.tolist())
            with RngRecorder(ctx.sub_seed()) as rec:
                x, y, tnum = mk.get_polygon_sample_triangles(tris, N)
            x = np.asarray(x); y = np.asarray(y); tnum = np.asarray(tnum)
            _, shares = _exact_cum_shares(tris)
            nt = len(tris)
            ctx.oracle(bool(np.all((tnum >= 0) & (tnum < nt))), "C17.direct.triangle_index_range", site, "triangle index out of range", cs)
            counts = np.bincount(tnum[(tnum >= 0) & (tnum < nt)], minlength=nt)
            # per-triangle counts; for many triangles, 16 groups of consecutive triangles
            groups = [[j] for j in range(nt)] if nt <= 16 else [list(range(g * nt // 16, (g + 1) * nt // 16)) for g in range(16)]
            for g in groups:
                sh = min(sum(shares[j] for j in g), 1.0); cnt = int(sum(counts[j] for j in g))
                ctx.oracle(binom_ok2(cnt, N, sh), "C17.direct.triangle_share", site,
                           "triangles %d..%d (area share %.6f) received %d of %d particles (expected %.0f)" % (g[0], g[-1], sh, cnt, N, N * sh),
                           dict(cs, triangles_tested=[g[0], g[-1]], count=cnt))
            _draw_oracles(ctx, "direct", site, tris, rec, N, x, y, cs, tnum=tnum)
            # coordinates within the triangle the implementation names
            v = tris[np.clip(tnum, 0, nt - 1)]
            d = (v[:, 1, 0] - v[:, 0, 0]) * (v[:, 2, 1] - v[:, 0, 1]) - (v[:, 2, 0] - v[:, 0, 0]) * (v[:, 1, 1] - v[:, 0, 1])
            s = ((x - v[:, 0, 0]) * (v[:, 2, 1] - v[:, 0, 1]) - (v[:, 2, 0] - v[:, 0, 0]) * (y - v[:, 0, 1])) / d
            t = ((v[:, 1, 0] - v[:, 0, 0]) * (y - v[:, 0, 1]) - (x - v[:, 0, 0]) * (v[:, 1, 1] - v[:, 0, 1])) / d
            out = int(np.sum((s < -1e-6) | (t < -1e-6) | (s + t > 1 + 1e-6)))
            ctx.oracle(out == 0, "C17.direct.outside_triangle", site, "%d particles lie outside the triangle whose index is returned with them" % out, cs)
            _sub_triangle_tests(ctx, "direct", site, s, t, cs)
            _share_tests(ctx, "direct", site, [p], np.zeros(N, dtype=int), x, y, N, cs, extra_cuts=3)
            continue
        fn = dict(dispatch="get_polygon_sample", convex="get_polygon_sample_convex", nonconvex="get_polygon_sample_nonconvex")[which]
        site = MK + fn
        with RngRecorder(ctx.sub_seed()):
            x, y = getattr(mk, fn)(coords, N)
        x = np.asarray(x); y = np.asarray(y)
        ctx.oracle(len(x) == N and len(y) == N, "C17.direct.count", site, "%d positions for num=%d" % (len(x), N), cs)
        if len(x) != N:
            continue
        _share_tests(ctx, "direct", site, [p], _bbox_labels([p], x, y), x, y, N, cs, extra_cuts=3)
        # any valid triangulation of the polygon will do for "uniform within each triangle"
        tris = np.array(mk.triangulate_nonconvex(coords), dtype=float)
        ok, msg = geom.valid_triangulation(p, [t for t in tris])
        ctx.oracle(ok, "C17.direct.triangulation_invalid", MK + "triangulate_nonconvex", msg, cs)
        if not ok:
            continue
        sel = slice(0, 20000) if len(p) > 40 else slice(None)
        tn, s, t = _locate(tris, x[sel], y[sel])
        lost = int(np.sum(tn < 0))
        ctx.oracle(lost == 0, "C17.direct.outside_triangulation", site, "%d particles lie in no triangle of the polygon" % lost, cs)
        _sub_triangle_tests(ctx, "direct", site, s[tn >= 0], t[tn >= 0], cs)


def _exp_ranges(ctx, mk):
    """two-element ranges in every container and on the way through get_attrs / make_release; distribution function
    within the DKW bound; no atoms"""
    from scipy.stats import binom
    site = MK + "get_attr"
    N = ctx.n(20000, 500000)
    for c in range(ctx.n(21, 60)):
        if ctx.rng.random() < 0.4:
            lo, hi = ctx.rng.choice([(0, 10), (-5, 5), (100, 350), (0, 1), (-20, -10), (0, 1000)]); ctx.branch("range2.int_bounds")
        else:
            lo = ctx.rng.choice([0.0, -5.0, 100.0, -250.5, 1e-3, 7.25]); hi = lo + ctx.rng.choice([1.0, 10.0, 250.0, 1e-3, 1e4, 0.5]); ctx.branch("range2.float_bounds")
        via = ctx.rng.choice(["list", "tuple", "ndarray", "uniform_dict", "get_attrs", "make_release", "make_release_attrs"])
        ctx.branch("range2.via=" + via)
        n = N if not via.startswith("make_release") else min(N, 50000)
        cs = dict(lo=lo, hi=hi, via=via, N=n)
        ctx.case(key=("range2", lo, hi, via, c), nontrivial=True)
        with RngRecorder(ctx.sub_seed()):
            if via == "list":
                v = mk.get_attr([lo, hi], n)
            elif via == "tuple":
                v = mk.get_attr((lo, hi), n)
            elif via == "ndarray":
                v = mk.get_attr(np.array([lo, hi]), n)
            elif via == "uniform_dict":
                v = mk.get_attr(dict(distribution="uniform", min=lo, max=hi), n)
            elif via == "get_attrs":
                v = mk.get_attrs(dict(region=3, depth=[lo, hi]), n)["depth"]
            elif via == "make_release":
                v = mk.make_release(dict(num=n, date="2000-01-01 01:00", location=[5.0, 60.0], depth=[lo, hi]))["depth"]
            else:
                v = mk.make_release(dict(num=n, date=["2000-01-01", "2000-01-03"], location=[5.0, 60.0], attrs=dict(age=[lo, hi])))["age"]
        v = np.array(v, dtype=float)
        ctx.oracle(len(v) == n, "C17.range2.count", site, "%d values for num=%d" % (len(v), n), cs)
        if len(v) != n:
            continue
        ctx.oracle(bool(np.all((v >= lo) & (v <= hi))), "C17.range2.outside", site,
                   "values outside [%r, %r]: min %r max %r" % (lo, hi, float(v.min()), float(v.max())), cs)
        cnt = np.histogram(v, bins=np.linspace(lo, hi, 11))[0]
        for b in range(10):
            ctx.oracle(binom_ok2(int(cnt[b]), n, 0.1), "C17.range2.uniform", site, "[%r,%r]: bin %d holds %d of %d" % (lo, hi, b, cnt[b], n), dict(cs, counts=cnt.tolist()))
        # distribution function: Dvoretzky-Kiefer-Wolfowitz with Massart's constant, valid for every n:
        # P(sup |F_n - F| > eps) <= 2 exp(-2 n eps^2)
        _count_test()
        eps = math.sqrt(math.log(2.0 / (2 * _level())) / (2 * n))
        F = (np.sort(v) - lo) / float(hi - lo)
        i = np.arange(1, n + 1)
        D = float(max(np.max(i / n - F), np.max(F - (i - 1) / n)))
        ctx.oracle(D <= eps, "C17.range2.distribution_function", site,
                   "[%r,%r]: sup |F_n(x) - (x-lo)/(hi-lo)| = %.5f exceeds the DKW bound %.5f (n=%d)" % (lo, hi, D, eps, n), cs)
        # no atoms: a value repeats an earlier one with probability <= (i-1) * pmax, where pmax bounds the mass of one
        # double: one draw of 2^-53, or the doubles of the draw grid that round to one double of the range, plus one
        # -> repeats are dominated by Binomial(n, n * pmax)
        _count_test()
        ulp = float(np.spacing(max(abs(lo), abs(hi))))
        pmax = 2 * max(2.0 ** -53, ulp / float(hi - lo)) + 2.0 ** -52      # factor 2: rounding of the product before the sum
        q = min(1.0, n * pmax)
        allowed = int(n * q)
        while q < 1.0 and binom.sf(allowed, n, q) >= 2 * _level():        # P(repeats > allowed) < level
            allowed += 1 + allowed // 8
        allowed = n if q >= 1.0 else allowed
        rep = n - len(np.unique(v))
        ctx.oracle(rep <= allowed, "C17.range2.atoms", site,
                   "[%r,%r]: %d of %d values repeat an earlier value (rounding explains at most %d)" % (lo, hi, rep, n, allowed), cs)


# ----------------------------------------------------------------------------- third family: one input object, many uses
# "all seeds", "over many draws", "configurations": a release area is rarely used once.  The same location object
# serves several release groups (same area, several dates), the same configuration serves several make_release
# calls, the same arrays serve several calls of the sampling functions -- and scripts compute polygons with numpy,
# so the object is a list, a tuple, a list of arrays, or one 2-D / 3-D ndarray (C / Fortran order, a view, float64 /
# float32 / integer, writeable or not).  Every use is judged on its own against a pristine Python copy of the
# polygons that the implementation never sees.  Statistical tests go through binom_ok2 (second-family budget).
def _inside_any(polys, x, y, tol):
    """even-odd ray casting, vectorised over the points, in coordinates relative to the first vertex of each polygon
    (small polygons far from the origin); a point within `tol` of an edge counts as inside"""
    res = np.zeros(len(x), dtype=bool)
    for p in polys:
        x0, y0 = p[0]
        xs = x - x0; ys = y - y0
        ins = np.zeros(len(x), dtype=bool); near = np.zeros(len(x), dtype=bool)
        n = len(p)
        for i in range(n):
            x1 = p[i][0] - x0; y1 = p[i][1] - y0; x2 = p[(i + 1) % n][0] - x0; y2 = p[(i + 1) % n][1] - y0
            if y1 != y2:
                cond = (y1 > ys) != (y2 > ys)
                ins ^= cond & (xs < (x2 - x1) * (ys - y1) / (y2 - y1) + x1)
            dx, dy = x2 - x1, y2 - y1
            t = np.clip(((xs - x1) * dx + (ys - y1) * dy) / (dx * dx + dy * dy), 0.0, 1.0)
            near |= np.hypot(xs - (x1 + t * dx), ys - (y1 + t * dy)) <= tol
        res |= ins | near
    return res


def _judge_use(ctx, site, polys, x, y, n, tol, cs, what):
    """one use of a shared input: n positions (coordinates of `polys`), all inside the release area, shares of the
    polygons and of half-plane cuts through every polygon"""
    ctx.oracle(len(x) == n and len(y) == n, "C17.reuse.count", site, "%s: %d positions for num=%d" % (what, len(x), n), cs)
    if len(x) != n or n == 0:
        return
    _share_tests(ctx, "reuse", site, polys, _bbox_labels(polys, x, y), x, y, n, cs, extra_cuts=2)
    # a sub-region outside every polygon has area share 0 (exchangeable particles: the first 30000 stand for all)
    m = min(n, 30000)
    out = np.nonzero(~_inside_any(polys, x[:m], y[:m], tol))[0]
    ctx.oracle(len(out) == 0, "C17.reuse.outside_polygon", site,
               "%s: %d of %d particles lie outside the release area (more than %.3g away from every polygon); first: (%r, %r); positions span x %r..%r, y %r..%r"
               % ((what, len(out), m, tol) + ((float(x[out[0]]), float(y[out[0]])) if len(out) else (0.0, 0.0)) +
                  (float(x.min()), float(x.max()), float(y.min()), float(y.max()))), cs)


def _pack(form, polys):
    """the two coordinate sequences (first, second coordinate) of one or more polygons in the container form `form`;
    returns (form, first, second, whole) -- `whole` is a single object holding both when the form is one array"""
    k = len(polys)
    X = [[float(q[0]) for q in p] for p in polys]; Y = [[float(q[1]) for q in p] for p in polys]
    if k == 1:
        X, Y = X[0], Y[0]
    if form == "nested_lists":
        return form, X, Y, None
    if form == "tuples":
        tup = lambda a: tuple(tup(b) for b in a) if isinstance(a, list) else a
        return form, tup(X), tup(Y), None
    if form == "list_of_arrays":
        if k == 1:
            return form, np.array(X), np.array(Y), None
        return form, [np.array(a) for a in X], [np.array(a) for a in Y], None
    if form == "two_arrays":           # equal vertex counts (or one polygon): one array per coordinate
        return form, np.array(X), np.array(Y), None
    # one array for everything: shape (2, n) or (2, k, n)
    a = np.array([X, Y], dtype=float)
    if form == "array_view":           # a view of an array with the coordinate axis last, as np.array(corners).T gives it
        a = np.ascontiguousarray(np.moveaxis(a, 0, -1))
        a = np.moveaxis(a, -1, 0)
        assert a.base is not None
    elif form == "array_fortran":
        a = np.asfortranarray(a)
    elif form == "array_float32":
        a = a.astype(np.float32)
    elif form == "array_int":
        a = a.astype(np.int64)
    elif form == "array_readonly":
        a.setflags(write=False)
    else:
        assert form == "array"
    return form, a[0], a[1], a


def _metric_polygons(rng, k, equal_nvert):
    """k polygons in metres around (0, 0) with pairwise disjoint boxes, next to each other from west to east"""
    base = rng.choice([15.0, 50.0, 500.0, 5000.0])
    x = rng.uniform(-200, 200); y0 = rng.uniform(-200, 200)
    nv = rng.randrange(4, 10)
    out = []
    for i in range(k):
        r = base * rng.choice([1, 1, 2, 3])
        x += 1.05 * r
        cy = y0 + base * rng.uniform(-1, 1)
        out.append(_radial_star(rng, x, cy, r, nv) if equal_nvert else _any_polygon(rng, x, cy, r)[1])
        x += 1.05 * r
    return out


def _snap(polys, dtype):
    """the polygons as the container's number type holds them (None if they are not simple any more)"""
    if dtype == "int":
        q = [[(float(round(a)), float(round(b))) for a, b in p] for p in polys]
    else:
        q = [[(float(np.float32(a)), float(np.float32(b))) for a, b in p] for p in polys]
    if any(len(p) > 40 or not geom.is_simple(p) for p in q):
        return None
    return q


def _exp_reuse(ctx, mk):
    import os, tempfile, yaml
    N = ctx.n(20000, 100000)
    ring = lambda p: [[x, y] for x, y in p] + [[p[0][0], p[0][1]]]
    # the kinds come in shuffled blocks and the container forms of the metric offsets from a shuffled deck, so that every
    # run (36 cases = 3 blocks = 12 offset locations >= one deck) holds every kind and every container form
    BLOCK = ["offset", "offset", "offset", "offset_multi", "lists", "lists", "geojson_path", "direct_latlon", "direct_sample",
             "direct_triangles", "yaml:offset", "yaml:lists"]
    DECK = ["nested_lists", "list_of_arrays", "two_arrays", "array", "array_view", "array_fortran", "array_float32", "array_int",
            "array_readonly", "tuples"]
    deck = []
    tmpfiles = []
    tmpdir = tempfile.mkdtemp(prefix="verif_c17_")
    shared_name = os.path.join(tmpdir, "area.geojson")      # the script's one file name, rewritten for every area
    geo_cases = [0]

    def write_geojson(path, polys):
        if ctx.rng.random() < 0.5:
            feats = [dict(type="Feature", properties=dict(fid=1), geometry=dict(type="MultiPolygon", coordinates=[[ring(p)] for p in polys]))]
        else:
            feats = [dict(type="Feature", properties=dict(fid=i + 1), geometry=dict(type="Polygon", coordinates=[ring(p)])) for i, p in enumerate(polys)]
        with open(path, "w") as f:
            json.dump(dict(type="FeatureCollection", features=feats), f)

    def degree_polygons(k, equal):
        lay = _layout(ctx.rng, k, ctx.rng.random() < 0.4)
        nv = ctx.rng.randrange(4, 10)
        return [_radial_star(ctx.rng, cx, cy, r, nv) if equal else _any_polygon(ctx.rng, cx, cy, r)[1] for cx, cy, r in lay]

    def degree_tol(polys):
        # rounding of the convex combination: a few ulps of the coordinates
        return max(1e-9 * (max(q[0] for q in p) - min(q[0] for q in p)) for p in polys) + \
            64 * float(np.spacing(max(max(abs(a), abs(b)) for p in polys for a, b in p)))

    def draw_form(k):
        while True:
            if not deck:
                deck.extend(DECK); ctx.rng.shuffle(deck)
            f = deck.pop()
            if f != "tuples" or k == 1:
                return f

    try:
        def one_case(c, kind, want_yaml):
            identity = lambda lon, lat: (lon, lat)
            to_xy = identity
            centre = None
            whole = None
            # ---------------------------------------------------------------- the shared object
            if kind in ("offset", "offset_multi"):
                site = MK + "get_location_offset"
                clon = ctx.rng.uniform(-170, 170); clat = ctx.rng.choice([-75.0, -40.0, 0.0, 45.0, 60.0, 78.0, ctx.rng.uniform(-80, 80)])
                k = 1 if kind == "offset" else ctx.rng.randrange(2, 4)
                # several polygons: the conversion needs arithmetic on the whole container, i.e. arrays (or nested
                # lists, which numpy converts) with equal vertex counts
                form = "nested_lists" if want_yaml else draw_form(k)
                while True:
                    polys = _metric_polygons(ctx.rng, k, equal_nvert=(k > 1))
                    if form in ("array_int", "array_float32"):
                        # whole metres / single precision: the polygon is what the array holds (the cast below is exact)
                        polys = _snap(polys, "int" if form == "array_int" else "f32")
                        if polys is None:
                            continue
                    break
                form, X, Y, whole = _pack(form, polys)
                cform = "list" if want_yaml else ctx.rng.choice(["list", "list", "tuple", "ndarray"])
                cen = dict(list=[clon, clat], tuple=(clon, clat), ndarray=np.array([clon, clat]))[cform]
                ctx.branch("reuse.center=" + cform)
                loc = dict(center=cen, offset=whole if whole is not None else [X, Y])
                to_xy = lambda lon, lat: _deg_to_m(lon - clon, lat - clat, clat)
                # positions are carried in degrees: ulp(180) = 2.8e-14 degrees = 3e-9 m; the roundings of the two
                # conversions and of the convex combination stay below 1e-7 m; 1e-6 m (+ 1e-9 of the size) is safe
                get_tol = lambda ps: 1e-6 + 1e-9 * max(max(abs(a), abs(b)) for p in ps for a, b in p)
                centre = [clon, clat]
                yaml_ok = form == "nested_lists" and cform == "list"
            elif kind in ("lists", "geojson_path", "direct_latlon"):
                k = ctx.rng.randrange(1, 4) if kind != "geojson_path" else ctx.rng.randrange(2, 5)
                equal = kind != "geojson_path" and k > 1 and ctx.rng.random() < 0.5
                polys = degree_polygons(k, equal)
                get_tol = degree_tol
                if kind == "geojson_path":
                    site = MK + "get_location_file"
                    # two of three areas go to the same file name (rewritten), one to a name of its own
                    geo_cases[0] += 1
                    if geo_cases[0] % 3 == 0:
                        path = os.path.join(tmpdir, "area_%d.geojson" % c); ctx.branch("reuse.geojson.own_file_name")
                    else:
                        path = shared_name; ctx.branch("reuse.geojson.file_name_used_before" if os.path.exists(path) else "reuse.geojson.own_file_name")
                    tmpfiles.append(path)
                    write_geojson(path, polys)
                    loc = path; form = "file_name"; yaml_ok = False      # a string is not shared by reference
                else:
                    site = MK + ("get_location" if kind == "lists" else "latlon_from_poly")
                    forms = ["nested_lists", "tuples", "list_of_arrays", "list_of_arrays"] + \
                        ((["two_arrays", "array", "array", "array_view", "array_fortran", "array_readonly"]) if (k == 1 or equal) else [])
                    form, X, Y, whole = _pack("nested_lists" if want_yaml else ctx.rng.choice(forms), polys)
                    loc = whole if whole is not None else ([X, Y] if (want_yaml or ctx.rng.random() < 0.7) else (X, Y))
                    yaml_ok = form == "nested_lists" and isinstance(loc, list)
            else:
                # the sampling functions on an (n, 2) array / an array of triangles
                cx = ctx.rng.uniform(-170, 170); cy = ctx.rng.uniform(-75, 75); r = ctx.rng.choice([1e-4, 1e-3, 0.3, 2.0])
                fn = ctx.rng.choice(["get_polygon_sample", "get_polygon_sample_convex", "get_polygon_sample_nonconvex"]) if kind == "direct_sample" \
                    else "get_polygon_sample_triangles"
                p = _convex_polygon(ctx.rng, cx, cy, r, ctx.rng.randrange(3, 13)) if fn.endswith("_convex") else _any_polygon(ctx.rng, cx, cy, r)[1]
                polys = [p]; site = MK + fn; form = "array"; yaml_ok = False
                get_tol = degree_tol
                loc = np.array(p, dtype=float)
                if kind == "direct_triangles":
                    loc = np.array(mk.triangulate_nonconvex(loc), dtype=float)
                    ok, msg = geom.valid_triangulation(p, [t for t in loc])
                    ctx.oracle(ok, "C17.reuse.triangulation_invalid", MK + "triangulate_nonconvex", msg, dict(polygon=p))
                    if not ok:
                        return
                # read-only arrays: only where the array does not go straight into the `triangle` package, whose compiled
                # interface refuses read-only buffers with a ValueError (a loud refusal by a third-party library, not a
                # statement about shares; the public entry points copy with np.stack and take read-only arrays, see above)
                if ctx.rng.random() < 0.3 and (kind == "direct_triangles" or fn.endswith("_convex")):
                    loc.setflags(write=False); form = "array_readonly"
            ctx.branch("reuse.container=" + form); ctx.branch("reuse.npoly=%d" % len(polys))
            # ---------------------------------------------------------------- the pattern of uses
            if kind.startswith("direct"):
                pattern = "repeat_call"
            else:
                pattern = "yaml_alias" if (want_yaml and yaml_ok) else \
                    ctx.rng.choice(["groups", "groups", "groups_list_config", "groups_same_dict", "repeat_make_release", "repeat_get_location"] +
                                   (["yaml_alias"] if yaml_ok else []))
            ctx.branch("reuse.pattern=" + pattern)
            nuse = ctx.rng.randrange(2, 5) if ctx.tier == "thorough" else ctx.rng.randrange(2, 4)
            nums = [int(N * ctx.rng.choice([1, 1, 0.5])) for _ in range(nuse)]
            # a two-element range shared in the same way (make_release patterns)
            rng_obj = None; lo = hi = None
            if pattern not in ("repeat_call", "repeat_get_location") and ctx.rng.random() < 0.6:
                if ctx.rng.random() < 0.4:
                    lo, hi = ctx.rng.choice([(0, 10), (-5, 5), (100, 350), (0, 1), (-20, -10)])
                else:
                    lo = ctx.rng.choice([0.0, -5.0, 100.0, -250.5, 7.25]); hi = lo + ctx.rng.choice([1.0, 10.0, 250.0, 0.5])
                rform = ctx.rng.choice(["list", "uniform_dict"] if pattern == "yaml_alias" else ["list", "tuple", "ndarray", "ndarray", "uniform_dict"])
                rng_obj = dict(list=[lo, hi], tuple=(lo, hi), ndarray=np.array([lo, hi]), uniform_dict=dict(distribution="uniform", min=lo, max=hi))[rform]
                ctx.branch("reuse.range=" + rform)
            seed = ctx.rng.randrange(2 ** 32) if ctx.rng.random() < 0.5 else None
            # between two calls the caller may change what the object / the file name holds: the next area goes to the same
            # file name; the array of corners is moved in place (arr += shift).  The pristine polygons follow with the same
            # IEEE additions, so they equal the array's contents exactly.
            between = "unchanged"; arr = None
            if pattern in ("repeat_call", "repeat_get_location", "repeat_make_release"):
                if kind == "geojson_path":
                    between = ctx.rng.choice(["unchanged", "file_rewritten", "file_rewritten"])
                else:
                    arr = whole if whole is not None else (loc if isinstance(loc, np.ndarray) else None)
                    if arr is not None and arr.dtype == np.float64 and arr.flags.writeable and ctx.rng.random() < 0.5:
                        between = "array_moved_in_place"
            ctx.branch("reuse.between_uses=" + between)
            per_use = [polys]

            def before_use(i):
                if i == 0:
                    return
                if between == "unchanged":
                    per_use.append(per_use[-1]); return
                cur = per_use[-1]
                if between == "file_rewritten":
                    new = degree_polygons(ctx.rng.randrange(1, 4), False)
                    write_geojson(loc, new)
                else:
                    xs = [a for p in cur for a, _ in p]; ys = [b for p in cur for _, b in p]
                    # towards the origin (stays on the globe), by 0.2..1 of the extent
                    dx = -math.copysign(ctx.rng.uniform(0.2, 1.0) * (max(xs) - min(xs)), sum(xs))
                    dy = -math.copysign(ctx.rng.uniform(0.2, 1.0) * (max(ys) - min(ys)), sum(ys))
                    if arr is whole:
                        arr[0] += dx; arr[1] += dy            # coordinate axis first
                    else:
                        arr[..., 0] += dx; arr[..., 1] += dy  # (n, 2) corners / (m, 3, 2) triangles
                    new = [[(a + dx, b + dy) for a, b in p] for p in cur]
                per_use.append(new)

            cs = dict(experiment="reuse", between_uses=between, kind=kind, container=form, pattern=pattern, polygons=polys, center=centre, nums=nums,
                      range=[lo, hi] if rng_obj is not None else None, config_seed=seed,
                      location_before=loc.tolist() if isinstance(loc, np.ndarray) else (dict(loc, offset=np.asarray(loc["offset"]).tolist(), center=list(loc["center"])) if isinstance(loc, dict) else loc))
            ctx.case(key=("reuse", kind, form, pattern, c, repr(polys[0][:3])), nontrivial=True,
                     sample=dict(experiment="reuse", kind=kind, container=form, pattern=pattern, uses=nuse, N=nums) if c < 2 else None)
            uses = []                   # (what, lon, lat, n, depth or None)
            grp = lambda i, n: dict(dict(date="2000-01-%02d" % (i + 1) if ctx.rng.random() < 0.6 else ["2000-01-%02d" % (i + 1), "2000-01-%02d 12:00" % (i + 2)],
                                         num=n, location=loc, group_id=i + 1), **(dict(depth=rng_obj) if rng_obj is not None else {}))
            with RngRecorder(ctx.sub_seed()):
                if pattern == "repeat_call":
                    for i, n in enumerate(nums):
                        before_use(i)
                        if kind == "direct_latlon":
                            a, b = (loc[1], loc[0])
                            lat, lon, _ = mk.latlon_from_poly(a, b, n)
                        elif kind == "direct_sample":
                            lon, lat = getattr(mk, fn)(loc, n)
                        else:
                            lon, lat, _ = mk.get_polygon_sample_triangles(loc, n)
                        uses.append(("call %d of %d on the same arrays" % (i + 1, nuse), np.asarray(lon, dtype=float), np.asarray(lat, dtype=float), n, None))
                elif pattern == "repeat_get_location":
                    for i, n in enumerate(nums):
                        before_use(i)
                        out = mk.get_location(loc, n)
                        uses.append(("get_location call %d of %d on the same location" % (i + 1, nuse), np.array(out["longitude"], dtype=float), np.array(out["latitude"], dtype=float), n, None))
                elif pattern == "repeat_make_release":
                    conf = dict(grp(0, nums[0]), **(dict(seed=seed) if seed is not None else {}))
                    nums = [nums[0]] * nuse
                    for i in range(nuse):
                        before_use(i)
                        r = mk.make_release(conf)
                        uses.append(("make_release call %d of %d with the same configuration" % (i + 1, nuse), np.array(r["longitude"], dtype=float), np.array(r["latitude"], dtype=float),
                                     nums[0], np.array(r["depth"], dtype=float) if rng_obj is not None else None))
                else:
                    if pattern == "groups_same_dict":
                        g = grp(0, nums[0]); groups = [g] * nuse; nums = [nums[0]] * nuse
                    else:
                        groups = [grp(i, n) for i, n in enumerate(nums)]
                        if ctx.rng.random() < 0.4:
                            # another area in between
                            groups.insert(1, dict(date="2000-02-01", num=7, location=[5.0, 60.0], group_id=99)); ctx.branch("reuse.other_group_between")
                    conf = groups if pattern == "groups_list_config" else dict(dict(groups=groups), **(dict(seed=seed) if seed is not None else {}))
                    if pattern == "yaml_alias":
                        text = yaml.safe_dump(conf)
                        assert "*id" in text, "the YAML text does not use an alias for the shared location"
                        cs = dict(cs, yaml=text if len(text) < 4000 else text[:4000] + "...")
                        conf = io.StringIO(text)
                    r = mk.make_release(conf)
                    gid = np.array(r["group_id"]); lon = np.array(r["longitude"], dtype=float); lat = np.array(r["latitude"], dtype=float)
                    dep = np.array(r["depth"], dtype=float)
                    if pattern == "groups_same_dict":
                        # the uses cannot be told apart in the output: judged together (every one of them has the area shares)
                        uses.append(("%d groups given as the same dict, together" % nuse, lon, lat, sum(nums), dep if rng_obj is not None else None))
                    else:
                        for i, n in enumerate(nums):
                            m = gid == i + 1
                            uses.append(("group %d of %d sharing one location object" % (i + 1, nuse), lon[m], lat[m], n, dep[m] if rng_obj is not None else None))
            for u, (what, lon, lat, n, dep) in enumerate(uses):
                pu = per_use[u] if u < len(per_use) else polys          # one entry per call; groups of one call: unchanged
                csu = dict(cs, use=u, what=what, **(dict(polygons_at_this_use=pu, polygons_at_every_use=per_use[:len(uses)]) if between != "unchanged" else {}))
                x, y = to_xy(lon, lat)
                _judge_use(ctx, site, pu, np.asarray(x), np.asarray(y), n, get_tol(pu), csu, what)
                if dep is not None and len(dep) == n:
                    ctx.oracle(bool(np.all((dep >= lo) & (dep <= hi))), "C17.reuse.range_outside", MK + "get_attr",
                               "%s: values outside [%r, %r]: min %r max %r" % (what, lo, hi, float(dep.min()), float(dep.max())), csu)
                    cnt = np.histogram(dep, bins=np.linspace(lo, hi, 11))[0]
                    for b in range(10):
                        ctx.oracle(binom_ok2(int(cnt[b]), n, 0.1), "C17.reuse.range_uniform", MK + "get_attr",
                                   "%s: [%r,%r]: bin %d holds %d of %d" % (what, lo, hi, b, cnt[b], n), dict(csu, counts=cnt.tolist()))
                ctx.branch("reuse.use_%d" % min(u + 1, 4))

        block = []
        for c in range(ctx.n(36, 96)):
            if not block:
                block = BLOCK[:]; ctx.rng.shuffle(block)
            kind = block.pop()
            # a YAML configuration can only hold lists: that combination is asked for
            want_yaml = kind.startswith("yaml:")
            if want_yaml:
                kind = kind[5:]
                if kind == "offset" and ctx.rng.random() < 0.3:
                    kind = "offset_multi"
            ctx.branch("reuse.kind=" + kind)
            try:
                one_case(c, kind, want_yaml)
            except Exception as e:
                import traceback
                fr = [f for f in traceback.extract_tb(e.__traceback__) if "/ladim_plugins/" in f.filename]
                if not fr:
                    raise                       # not raised by the implementation
                # the run goes on (the other uses and cases are still judged); /verif/check reports an exception of the
                # implementation on an input of the property's domain in the same way
                ctx.oracle(False, "C17.reuse.raised", MK + fr[-1].name,
                           "the implementation raised %r (%s line %d: %s) on a shared input (case key %r)" %
                           (e, fr[-1].filename.split("/ladim_plugins/")[-1], fr[-1].lineno, fr[-1].line, getattr(ctx, "last_key", None)),
                           dict(experiment="reuse", kind=kind, case_key=repr(getattr(ctx, "last_key", None)), traceback=traceback.format_exc()))
    finally:
        for path in set(tmpfiles):
            try:
                os.remove(path)
            except OSError:
                pass
        try:
            os.rmdir(tmpdir)
        except OSError:
            pass


# ============================================================================= fourth family: the VALUES of the numbers
# The families above vary shapes, containers and patterns of use, but the numbers themselves came from a short list:
# every range had a non-zero upper bound, every polygon vertex a non-zero coordinate.  Here the values of the bounds of a
# two-element range (and of the coordinates of a release area) are the dimension that is explored: zero, negative zero,
# negative, ranges ending / starting at zero or straddling it, integer / float / numpy-scalar bounds, tiny and huge
# magnitudes, degenerate ranges [a, a], descending ranges; for `depth` and for user attributes, on every route into
# get_attr, with and without a config seed, for large and small num (num != 2: for num == 2 the code takes the list as
# the vector of values).  Statistical tests go through binom_ok2 / _count_test (budget of the second family).
def _pyn(x):
    """the plain Python number a YAML / JSON file would hold"""
    if isinstance(x, np.floating):
        return float(x)
    if isinstance(x, np.integer):
        return int(x)
    return x


_RANGE_CLASSES = ["upper_zero_int", "upper_zero_float", "upper_negzero", "lower_zero", "straddle", "negative", "positive",
                  "tiny", "huge", "mixed_int_float", "degenerate", "descending", "numpy_scalars"]


def _range_bounds(rng, cls):
    """(lo, hi) as written by the user.  Every non-degenerate range spans at least 2^20 doubles (so that the rounding of a
    value to the next double moves the share of a tenth of the range by less than 1e-5 of itself) and |hi - lo| is finite."""
    u = rng.uniform
    if cls == "upper_zero_int":
        return rng.choice([(-10, 0), (-1, 0), (-300, 0), (-rng.randrange(2, 1000), 0), (-10 ** 6, 0)])
    if cls == "upper_zero_float":
        return rng.choice([(-2.5, 0.0), (-10.0, 0.0), (-1e-3, 0.0), (-u(0.1, 500.0), 0.0), (-1e6, 0.0), (-0.5, 0.0)])
    if cls == "upper_negzero":
        return rng.choice([(-7.5, -0.0), (-float(rng.randrange(1, 50)), -0.0), (-u(0.1, 5.0), -0.0)])
    if cls == "lower_zero":
        return rng.choice([(0, 10), (0.0, 0.25), (-0.0, 3.0), (0, 1), (0.0, u(0.1, 500.0)), (0, rng.randrange(2, 1000))])
    if cls == "straddle":
        return rng.choice([(-1, 1), (-5, 5), (-0.5, 2.0), (-100, 0.5), (-1e-3, 2e-3), (-u(0.1, 50.0), u(0.1, 50.0)), (-1000.0, 1e-3)])
    if cls == "negative":
        return rng.choice([(-20, -10), (-1e6, -1e5), (-0.75, -0.25), (-3, -1), (-u(50.0, 90.0), -u(1.0, 40.0))])
    if cls == "positive":
        return rng.choice([(3, 6), (0.1, 0.2), (100, 350), (u(1.0, 40.0), u(50.0, 90.0))])
    if cls == "tiny":
        return rng.choice([(1e-12, 3e-12), (-2e-9, 0.0), (0.0, 1e-30), (-1e-20, 1e-20), (-3e-12, -1e-12), (0, 1e-9)])
    if cls == "huge":
        return rng.choice([(1e12, 3e12), (-10 ** 15, 0), (-1e100, 1e100), (0, 10 ** 9), (-1e100, 0.0), (-4e15, -1e15)])
    if cls == "mixed_int_float":
        return rng.choice([(-10, 0.0), (-2.5, 0), (0, 0.5), (-1, 1.5), (-0.5, 1), (0.0, 10)])
    if cls == "degenerate":
        return rng.choice([(0, 0), (0.0, 0.0), (-0.0, -0.0), (0, 0.0), (5, 5), (-2.5, -2.5), (1e-9, 1e-9), (-10, -10), (0.0, -0.0)])
    if cls == "descending":
        return rng.choice([(0, -10), (10, 0), (0.0, -2.5), (6, 3), (1, -1), (-10, -20), (2.5, 0.0)])
    assert cls == "numpy_scalars"
    return rng.choice([(np.float64(-4.0), np.float64(0.0)), (np.int64(-10), np.int64(0)), (np.float32(-0.5), np.float32(0.0)),
                       (np.int32(0), np.int32(8)), (np.float64(-3.0), np.float64(3.0)), (np.int64(-7), np.int64(-2)),
                       (np.float64(0.0), np.float64(0.0)), (np.float32(0.25), np.float32(0.75))])


def _judge_range(ctx, tag, site, v, lo, hi, n, cs, what, stats=True):
    """The last clause of the property on one array of values of a two-element range [lo, hi] (the range is the closed
    interval between the two bounds): n values, every value inside the range, and -- for a sample large enough -- the
    share of every tenth of the range, of the lower 5 / 10 / 25 / 50 / 75 / 90 / 95 % of the range (exact binomial
    bounds), the distribution function (DKW) and no atoms.  Nothing here calls the implementation."""
    from scipy.stats import binom
    v = np.array(v, dtype=float)
    ctx.oracle(len(v) == n, "C17.%s.count" % tag, site, "%s: %d values for num=%d" % (what, len(v), n), cs)
    if len(v) != n or n == 0:
        return
    a, b = (float(lo), float(hi)) if lo <= hi else (float(hi), float(lo))
    if a == b:
        # the range is one point and lo + (hi - lo) * u is exact: every value is that point
        bad = np.nonzero(~(v == a))[0]
        ctx.oracle(len(bad) == 0, "C17.%s.outside" % tag, site,
                   "%s: %d of %d values of the one-point range [%r, %r] differ from %r; first: %r; min %r max %r"
                   % (what, len(bad), n, lo, hi, a, float(v[bad[0]]) if len(bad) else a, float(np.min(v)), float(np.max(v))), cs)
        ctx.branch(tag + ".judged_degenerate")
        return
    # lo + (hi - lo) * u is evaluated in doubles of the size of the bounds: for u within 2^-53 of 1 the rounded result
    # can pass the end of the range by a few units in the last place of the larger bound (probability ~1e-16 per value,
    # but there are 1e7 values per run); anything beyond that is outside the range
    tol = 4 * float(np.spacing(max(abs(a), abs(b))))
    bad = np.nonzero(~((v >= a - tol) & (v <= b + tol)))[0]
    ctx.oracle(len(bad) == 0, "C17.%s.outside" % tag, site,
               "%s: %d of %d values lie outside the range [%r, %r]; first: %r; observed min %r max %r"
               % (what, len(bad), n, lo, hi, float(v[bad[0]]) if len(bad) else 0.0, float(np.min(v)), float(np.max(v))), cs)
    if not stats:
        return
    F = (v - a) / (b - a)                          # position within the range, 0..1
    cnt = np.bincount(np.clip(np.floor(np.clip(F, 0.0, 1.0) * 10), 0, 9).astype(int), minlength=10)
    for i in range(10):
        ctx.oracle(binom_ok2(int(cnt[i]), n, 0.1), "C17.%s.uniform" % tag, site,
                   "%s: tenth %d of the range [%r, %r] holds %d of %d values (expected %.0f)" % (what, i, lo, hi, cnt[i], n, n / 10.0),
                   dict(cs, counts=cnt.tolist()))
    for q in (0.05, 0.1, 0.25, 0.5, 0.75, 0.9, 0.95):
        k = int(np.sum(F <= q))
        ctx.oracle(binom_ok2(k, n, q), "C17.%s.quantile" % tag, site,
                   "%s: the lower %g of the range [%r, %r] (up to %r) holds %d of %d values (expected %.0f +- %.0f)"
                   % (what, q, lo, hi, a + q * (b - a), k, n, n * q, math.sqrt(n * q * (1 - q))), dict(cs, quantile=q, count=k))
    # distribution function: Dvoretzky-Kiefer-Wolfowitz with Massart's constant, P(sup |F_n - F| > eps) <= 2 exp(-2 n eps^2)
    _count_test()
    eps = math.sqrt(math.log(2.0 / (2 * _level())) / (2 * n))
    Fs = np.sort(F); i = np.arange(1, n + 1)
    D = float(max(np.max(i / n - Fs), np.max(Fs - (i - 1) / n)))
    ctx.oracle(D <= eps, "C17.%s.distribution_function" % tag, site,
               "%s: [%r, %r]: sup |F_n(x) - (x-lo)/(hi-lo)| = %.5f exceeds the DKW bound %.5f (n=%d)" % (what, lo, hi, D, eps, n), cs)
    # no atoms (as in the second family): repeats are dominated by Binomial(n, n * pmax), pmax the largest mass of one double
    _count_test()
    pmax = 2 * max(2.0 ** -53, float(np.spacing(max(abs(a), abs(b)))) / (b - a)) + 2.0 ** -52
    q = min(1.0, n * pmax)
    allowed = int(n * q)
    while q < 1.0 and binom.sf(allowed, n, q) >= 2 * _level():
        allowed += 1 + allowed // 8
    allowed = n if q >= 1.0 else allowed
    rep = n - len(np.unique(v))
    ctx.oracle(rep <= allowed, "C17.%s.atoms" % tag, site,
               "%s: [%r, %r]: %d of %d values repeat an earlier value (rounding explains at most %d)" % (what, lo, hi, rep, n, allowed), cs)
    ctx.branch(tag + ".judged_statistically")


_POINTS = [[5.0, 60.0], [0, 0], [0.0, 60], [-70.5, -33.25], [5, 0], [-0.0, 0.0], [-179.5, 0.0], [0, -45]]
_AREAS = [[[0, 1, 1, 0], [0, 0, 1, 1]], [[-1, 1, 1, -1], [59, 59, 60, 60]], [[-3.0, 0.0, 0.0], [-1.0, -1.0, 0.0]],
          dict(center=[0, 0], offset=[[-50, 50, 50, -50], [-50, -50, 50, 50]]), dict(center=[5, 60], offset=[[0, 100, 100, 0], [0, 0, 100, 100]])]
_VIAS = ["list", "tuple", "ndarray", "uniform_dict", "get_attrs_depth", "get_attrs_user", "mr_flat_depth", "mr_flat_user", "mr_attrs_user",
         "mr_attrs_depth", "mr_groups", "mr_groups_list", "mr_yaml", "mr_file", "pool_get_attr", "pool_make_release"]


def _exp_range_values(ctx, mk):
    import os, tempfile, yaml
    site = MK + "get_attr"
    Nbig = ctx.n(20000, 200000); Nmr = ctx.n(20000, 50000)
    cdeck = []; vdeck = []
    tmpdir = tempfile.mkdtemp(prefix="verif_c17v_")
    out_name = os.path.join(tmpdir, "particles.rls")

    def spec_of(lo, hi, form):
        if form == "list":
            return [lo, hi]
        if form == "tuple":
            return (lo, hi)
        if form == "ndarray":
            return np.array([lo, hi])
        return dict(distribution="uniform", min=lo, max=hi)

    def draw_class():
        if not cdeck:
            cdeck.extend(_RANGE_CLASSES); ctx.rng.shuffle(cdeck)
        return cdeck.pop()

    def draw_range(cls=None):
        cls = cls or draw_class()
        lo, hi = _range_bounds(ctx.rng, cls)
        ctx.branch("values.range_class=" + cls)
        if hi == 0:
            ctx.branch("values.upper_bound_zero")
        if lo == 0:
            ctx.branch("values.lower_bound_zero")
        ctx.branch("values.bounds=%s,%s" % (type(lo).__name__, type(hi).__name__))
        return cls, lo, hi

    try:
        for c in range(ctx.n(48, 128)):
            if not vdeck:
                vdeck.extend(_VIAS); ctx.rng.shuffle(vdeck)
            via = vdeck.pop()
            # the classes whose upper bound is zero come up in every block of 13; one case in six asks for one outright
            cls, lo, hi = draw_range(ctx.rng.choice(["upper_zero_int", "upper_zero_float", "upper_negzero"]) if ctx.rng.random() < 1.0 / 6 else None)
            ctx.branch("values.via=" + via)
            cs = dict(experiment="range_values", range_class=cls, lo=_pyn(lo), hi=_pyn(hi), bound_types=[type(lo).__name__, type(hi).__name__], via=via)
            ctx.case(key=("values", cls, repr(lo), repr(hi), via, c), nontrivial=True,
                     sample=dict(experiment="range_values", range_class=cls, lo=repr(lo), hi=repr(hi), via=via) if c < 2 else None)
            # ------------------------------------------------------------ get_attr / get_attrs
            if via in ("list", "tuple", "ndarray", "uniform_dict"):
                n = ctx.rng.choice([Nbig, Nbig, Nbig // 2 + 1, 5003])
                cs = dict(cs, num=n)
                with RngRecorder(ctx.sub_seed()):
                    v = mk.get_attr(spec_of(lo, hi, via), n)
                _judge_range(ctx, "values", site, v, lo, hi, n, cs, "get_attr(%s, %d)" % (via, n))
                continue
            if via.startswith("get_attrs"):
                n = Nbig
                name = "depth" if via.endswith("depth") else ctx.rng.choice(["age", "weight", "z0", "super"])
                form = ctx.rng.choice(["list", "list", "tuple", "ndarray", "uniform_dict"])
                cls2, lo2, hi2 = draw_range()
                conf = {"region": 0, name: spec_of(lo, hi, form), "other": spec_of(lo2, hi2, "list")}
                if ctx.rng.random() < 0.5:
                    conf = dict(reversed(list(conf.items())))
                cs = dict(cs, num=n, name=name, form=form, other=[_pyn(lo2), _pyn(hi2)], keys=list(conf))
                ctx.branch("values.name=" + ("depth" if name == "depth" else "user"))
                with RngRecorder(ctx.sub_seed()):
                    r = mk.get_attrs(conf, n)
                _judge_range(ctx, "values", site, r[name], lo, hi, n, cs, "get_attrs: %s" % name)
                _judge_range(ctx, "values", site, r["other"], lo2, hi2, n, dict(cs, judged="other"), "get_attrs: other")
                continue
            if via == "pool_get_attr":
                # small groups (num != 2), many of them: every value inside the range; pooled they are a sample of the range
                num = ctx.rng.choice([1, 3, 4, 5, 7, 10])
                R = -(-6000 // num)
                form = ctx.rng.choice(["list", "tuple", "ndarray", "uniform_dict"])
                cs = dict(cs, num=num, calls=R, form=form)
                ctx.branch("values.num=%d" % num)
                vals = []
                with RngRecorder(ctx.sub_seed()):
                    for _ in range(R):
                        w = mk.get_attr(spec_of(lo, hi, form), num)
                        if len(w) != num:
                            ctx.oracle(False, "C17.values.count", site, "get_attr(%s, %d): %d values" % (form, num, len(w)), cs)
                        vals.extend(w)
                _judge_range(ctx, "values", site, vals, lo, hi, len(vals), cs, "%d calls of get_attr(%s, %d), pooled" % (R, form, num))
                continue
            # ---------------------------------------------------------------- make_release
            seed = ctx.rng.choice([None, None, 0, 1, ctx.rng.randrange(2 ** 32)])
            ctx.branch("values.seed=" + ("absent" if seed is None else ("0" if seed == 0 else "given")))
            text = via in ("mr_yaml",)
            plo, phi = (_pyn(lo), _pyn(hi)) if text else (lo, hi)
            form = "list" if text else ctx.rng.choice(["list", "list", "list", "tuple", "ndarray", "uniform_dict"])
            if via == "mr_yaml" and ctx.rng.random() < 0.3:
                form = "uniform_dict"
            if via in ("mr_flat_depth", "mr_attrs_depth"):
                name = "depth"
            else:
                name = ctx.rng.choice(["depth", "age", "weight", "z0", "super"])
            ctx.branch("values.name=" + ("depth" if name == "depth" else "user"))
            in_attrs = via in ("mr_attrs_user", "mr_attrs_depth") or (via not in ("mr_flat_depth", "mr_flat_user") and ctx.rng.random() < 0.4)
            loc = copy.deepcopy(ctx.rng.choice(_POINTS) if ctx.rng.random() < 0.7 else ctx.rng.choice(_AREAS))
            date = ctx.rng.choice(["2000-01-01", "2000-01-01 01:00", ["2000-01-01", "2000-01-03"], ["2000-01-01 01:00", "2000-02-01 01:00"]])

            def group(num, lo_, hi_, gid, second):
                g = dict(num=num, date=date, location=loc, group_id=gid)
                tgt = g.setdefault("attrs", {}) if in_attrs else g
                tgt[name] = spec_of(lo_, hi_, form)
                if second is not None:
                    g["other"] = [second[0], second[1]]
                return g

            if via == "pool_make_release":
                num = ctx.rng.choice([1, 3, 4, 5, 7, 10, 33])
                R = ctx.n(120, 400)
                ctx.branch("values.num=%d" % num)
                cs = dict(cs, num=num, calls=R, name=name, form=form, in_attrs=in_attrs, location=loc, date=date)
                vals = []
                seeds = [None if seed is None else (0 if (i == 0 and seed == 0) else ctx.rng.randrange(2 ** 32)) for i in range(R)]
                with RngRecorder(ctx.sub_seed()):
                    for i in range(R):
                        conf = group(num, lo, hi, 1, None)
                        if seeds[i] is not None:
                            conf["seed"] = seeds[i]
                        w = mk.make_release(conf)[name]
                        if len(w) != num:
                            ctx.oracle(False, "C17.values.count", site, "make_release: %d values of %s for num=%d" % (len(w), name, num), dict(cs, config=repr(conf)))
                        vals.extend(w)
                # 120 calls of 1 value are too few for the shares; the range itself is judged on every value
                _judge_range(ctx, "values", site, vals, lo, hi, len(vals), dict(cs, config=repr(group(num, lo, hi, 1, None))),
                             "%d make_release calls with num=%d, values of %s pooled" % (R, num, name), stats=len(vals) >= 1000)
                continue
            n = Nmr if ctx.rng.random() < 0.7 else ctx.rng.choice([5003, 2001, Nmr // 2 + 1])
            judged = []                 # (group id, column, lo, hi, n)
            if via in ("mr_groups", "mr_groups_list"):
                ng = ctx.rng.randrange(2, 4)
                groups = []
                for gi in range(ng):
                    if gi == 0:
                        gl, gh = plo, phi
                    else:
                        _, gl, gh = draw_range()
                        gl, gh = (_pyn(gl), _pyn(gh)) if text else (gl, gh)
                    _, l2, h2 = draw_range()
                    groups.append(group(n, gl, gh, gi + 1, (_pyn(l2), _pyn(h2))))
                    judged.append((gi + 1, name, gl, gh, n)); judged.append((gi + 1, "other", l2, h2, n))
                conf = groups if via == "mr_groups_list" else dict(groups=groups)
            else:
                second = None
                if ctx.rng.random() < 0.5:
                    _, l2, h2 = draw_range(); second = (_pyn(l2), _pyn(h2))
                conf = group(n, plo, phi, 1, second)
                judged.append((1, name, plo, phi, n))
                if second is not None:
                    judged.append((1, "other", second[0], second[1], n))
            if seed is not None and isinstance(conf, dict):
                conf["seed"] = seed
            cols = None
            if isinstance(conf, dict) and (via == "mr_file" or ctx.rng.random() < 0.25):
                extra = []
                for _, col, _, _, _ in judged:
                    if col not in extra:
                        extra.append(col)
                ctx.rng.shuffle(extra)
                cols = ["date", "longitude", "latitude", "group_id"] + extra
                conf["columns"] = cols; ctx.branch("values.columns_option")
            cs = dict(cs, num=n, name=name, form=form, in_attrs=in_attrs, config=repr(conf))
            fname = out_name if via == "mr_file" else None
            with RngRecorder(ctx.sub_seed()):
                if text:
                    ytext = yaml.safe_dump(conf)
                    cs = dict(cs, yaml=ytext)
                    r = mk.make_release(io.StringIO(ytext))
                elif fname:
                    r = mk.make_release(conf, fname)
                else:
                    r = mk.make_release(conf)
            if fname:
                # the release file is what LADiM reads: judge its columns (repr of a double reads back exactly)
                import pandas as pd
                tab = pd.read_csv(fname, sep="\t", header=None, names=cols, float_precision="round_trip")
                os.remove(fname)
                r = {k: tab[k].tolist() for k in cols}
                ctx.branch("values.read_from_release_file")
            gid = np.array(r["group_id"])
            for g, col, l_, h_, n_ in judged:
                vals = np.array(r[col], dtype=float)[gid == g]
                _judge_range(ctx, "values", site, vals, l_, h_, n_, dict(cs, judged=[g, col, _pyn(l_), _pyn(h_)]),
                             "make_release (%s): %s of group %d" % (via, col, g))
    finally:
        try:
            if os.path.exists(out_name):
                os.remove(out_name)
            os.rmdir(tmpdir)
        except OSError:
            pass


# ----------------------------------------------------------------------------- release areas at / across longitude 0, latitude 0
_INT_SHAPES = [[(0, 0), (1, 0), (1, 1), (0, 1)], [(0, 0), (2, 0), (0, 1)], [(0, 0), (2, 0), (2, 1), (1, 1), (1, 2), (0, 2)],
               [(0, 0), (3, 0), (3, 2), (2, 2), (2, 1), (1, 1), (1, 2), (0, 2)], [(0, 0), (2, 1), (0, 2), (-2, 1)]]


def _zero_area(rng, metric):
    """1..3 disjoint simple polygons, one of which has a vertex / an edge on the axis x = 0 and / or y = 0, or lies across
    it, or lies on the negative side; whole numbers (as a hand-written configuration has them) or doubles.
    Returns (style, polys, as_int)."""
    k = rng.randrange(1, 4)
    if rng.random() < 0.45:
        # whole-number shapes: scaled and shifted by whole numbers -- exactly simple, exact areas
        unit = rng.choice([10, 25, 100]) if metric else rng.choice([1, 1, 2, 5])
        polys = []; x = None
        for i in range(k):
            sh = rng.choice(_INT_SHAPES); s = unit * rng.choice([1, 1, 2, 3])
            p = [(s * a, s * b) for a, b in sh]
            if rng.random() < 0.5:
                p = [(-a, b) for a, b in p]
            if rng.random() < 0.5:
                p = [(a, -b) for a, b in p]
            xs = [a for a, _ in p]; ys = [b for _, b in p]
            if i == 0:
                # where the first shape sits relative to the axes: a vertex at the origin (as built), an edge on an axis,
                # across the axis, or away on the negative side
                dx = rng.choice([0, -min(xs), -max(xs), -(min(xs) + max(xs)) // 2, -max(xs) - 3 * unit])
                dy = rng.choice([0, -min(ys), -max(ys), -(min(ys) + max(ys)) // 2, -max(ys) - 3 * unit])
            else:
                dx = x + unit * rng.randrange(1, 3) - min(xs)       # to the east of the previous one, a gap of >= 1 unit
                dy = unit * rng.randrange(-4, 3)
            p = [(a + dx, b + dy) for a, b in p]
            x = max(a for a, _ in p)
            polys.append(_finish(rng, p))
        as_int = rng.random() < 0.6
        if not as_int:
            polys = [[(float(a), float(b)) for a, b in p] for p in polys]
        return "whole_numbers", polys, as_int
    r = rng.choice([15.0, 50.0, 500.0]) if metric else rng.choice([1e-3, 0.05, 0.3, 2.0])
    modes = ["vertex_at_zero", "touch_from_positive", "touch_from_negative", "across", "negative_side", "as_is"]
    while True:
        mx = rng.choice(modes); my = rng.choice(modes)
        if (mx, my) != ("as_is", "as_is"):
            break
    polys = []; boxes = []
    while len(polys) < k:
        if not polys:
            p = _any_polygon(rng, 0.0, 0.0, r)[1]
            if len(p) <= 40 and not geom.is_simple(p):
                continue
            i = rng.randrange(len(p)); j = rng.randrange(len(p))
            xs = [a for a, _ in p]; ys = [b for _, b in p]

            def shift(mode, vals, at):
                if mode == "vertex_at_zero":
                    return -at
                if mode == "touch_from_positive":
                    return -min(vals)
                if mode == "touch_from_negative":
                    return -max(vals)
                if mode == "negative_side":
                    return -(max(vals) + r * rng.uniform(0.5, 3.0))
                return 0.0                                             # across (built around 0) / as_is
            dx = shift(mx, xs, p[i][0]); dy = shift(my, ys, p[j][1])
            if mx == "as_is":
                dx = rng.choice([-1, 1]) * r * rng.uniform(3.0, 9.0)
            if my == "as_is":
                dy = rng.choice([-1, 1]) * r * rng.uniform(2.0, 6.0)
            # x + (-x) is exactly 0.0; the other vertices move by the same amount up to one rounding (1e-16 of r)
            p = [(a + dx, b + dy) for a, b in p]
            if len(p) <= 40 and not geom.is_simple(p):
                continue
        else:
            rr = r * rng.choice([0.5, 1, 2])
            p = _any_polygon(rng, rng.uniform(-8, 8) * r, rng.uniform(-5, 5) * r, rr)[1]
        xs = [a for a, _ in p]; ys = [b for _, b in p]
        bx = (min(xs), max(xs), min(ys), max(ys))
        if _disjoint(bx, boxes, 0.05 * r):
            polys.append(p); boxes.append(bx)
    if rng.random() < 0.3:
        # negative zero is the same coordinate
        polys = [[(-0.0 if a == 0 else a, -0.0 if b == 0 else b) for a, b in p] for p in polys]
    return "doubles:%s/%s" % (mx, my), polys, False


def _exp_zero_coords(ctx, mk):
    """position clauses of the property for release areas whose coordinates include 0 (Greenwich, the equator, the centre of
    a metric offset), negative values and whole numbers, on every route"""
    N = ctx.n(20000, 100000)
    ring = lambda p: [[x, y] for x, y in p] + [[p[0][0], p[0][1]]]
    deck = []
    for c in range(ctx.n(18, 60)):
        if not deck:
            deck.extend(["latlon_from_poly", "get_location", "geojson", "offset", "offset", "make_release"]); ctx.rng.shuffle(deck)
        route = deck.pop()
        metric = route == "offset"
        style, polys, as_int = _zero_area(ctx.rng, metric)
        k = len(polys)
        num = (lambda t: int(t)) if as_int else (lambda t: float(t))
        X = [[num(a) for a, _ in p] for p in polys]; Y = [[num(b) for _, b in p] for p in polys]
        ctx.branch("zero.route=" + route); ctx.branch("zero.style=" + style.split(":")[0]); ctx.branch("zero.npoly=%d" % k)
        if style.startswith("doubles:"):
            ctx.branch("zero.x=" + style[8:].split("/")[0]); ctx.branch("zero.y=" + style[8:].split("/")[1])
        ctx.branch("zero.whole_number_type=int" if as_int else "zero.number_type=float")
        if any(a == 0 for p in polys for a, _ in p):
            ctx.branch("zero.vertex_with_x=0")
        if any(b == 0 for p in polys for _, b in p):
            ctx.branch("zero.vertex_with_y=0")
        to_xy = lambda lon, lat: (lon, lat)
        size = max(max(abs(a), abs(b)) for p in polys for a, b in p)
        ext = max(max(a for a, _ in p) - min(a for a, _ in p) for p in polys)
        tol = 1e-9 * ext + 64 * float(np.spacing(size))          # rounding of the convex combination
        cs = dict(experiment="zero_coords", route=route, style=style, polygons=polys, whole_numbers_as_int=as_int, N=N)
        ctx.case(key=("zero", route, style, c, repr(polys[0][:3])), nontrivial=True,
                 sample=dict(experiment="zero_coords", route=route, style=style, npoly=k, N=N) if c < 2 else None)
        single = k == 1 and ctx.rng.random() < 0.7
        spec = [X[0], Y[0]] if single else [X, Y]
        with RngRecorder(ctx.sub_seed()):
            if route == "latlon_from_poly":
                site = MK + "latlon_from_poly"
                if ctx.rng.random() < 0.5:
                    la, lo_ = ([np.array(b) for b in Y], [np.array(a) for a in X]) if not single else (np.array(Y[0]), np.array(X[0]))
                else:
                    la, lo_ = (Y, X) if not single else (Y[0], X[0])
                lat, lon, _ = mk.latlon_from_poly(la, lo_, N)
            elif route == "get_location":
                site = MK + "get_location"
                cs = dict(cs, location=spec)
                out = mk.get_location(spec, N); lon, lat = out["longitude"], out["latitude"]
            elif route == "geojson":
                site = MK + "get_location_file"
                if ctx.rng.random() < 0.5:
                    feats = [dict(type="Feature", properties=dict(fid=1), geometry=dict(type="MultiPolygon", coordinates=[[ring(list(zip(a, b)))] for a, b in zip(X, Y)]))]
                else:
                    feats = [dict(type="Feature", properties=dict(fid=i + 1), geometry=dict(type="Polygon", coordinates=[ring(list(zip(a, b)))])) for i, (a, b) in enumerate(zip(X, Y))]
                doc = json.dumps(dict(type="FeatureCollection", features=feats))
                cs = dict(cs, geojson=doc)
                out = mk.get_location(io.StringIO(doc), N); lon, lat = out["longitude"], out["latitude"]
            elif route == "offset":
                site = MK + "get_location_offset"
                cen = ctx.rng.choice([[0, 0], [0.0, 60.0], [5, 0], [0, -45.5], [-0.0, 0.0], [-170.25, 0], [0.0, 0.0], [-20.5, -60], [0, 78]])
                clon, clat = float(cen[0]), float(cen[1])
                # several polygons: arithmetic on the whole container needs equal vertex counts -> one polygon unless they agree
                if k > 1 and len(set(len(p) for p in polys)) > 1:
                    polys = polys[:1]; X = X[:1]; Y = Y[:1]; k = 1; single = True
                off = [X[0], Y[0]] if single or k == 1 else [X, Y]
                if ctx.rng.random() < 0.4:
                    off = [np.array(off[0]), np.array(off[1])]; ctx.branch("zero.offset_arrays")
                loc = dict(center=cen, offset=off)
                cs = dict(cs, polygons=polys, location=dict(center=cen, offset=[np.asarray(off[0]).tolist(), np.asarray(off[1]).tolist()]))
                ctx.branch("zero.center_lon=0" if clon == 0 else "zero.center_lon!=0"); ctx.branch("zero.center_lat=0" if clat == 0 else "zero.center_lat!=0")
                out = mk.get_location(loc, N); lon, lat = out["longitude"], out["latitude"]
                to_xy = lambda lon, lat: _deg_to_m(lon - clon, lat - clat, clat)
                tol = 1e-6 + 1e-9 * size                                 # as in the third family: degrees carry metres to ~3e-9 m
            else:
                site = MK + "make_release"
                conf = dict(num=N, date="2000-01-01", location=spec, depth=[-10, 0] if ctx.rng.random() < 0.5 else 0)
                if ctx.rng.random() < 0.5:
                    conf["seed"] = ctx.rng.choice([0, 1, ctx.rng.randrange(2 ** 32)])
                cs = dict(cs, config=repr(conf))
                out = mk.make_release(conf); lon, lat = out["longitude"], out["latitude"]
                if isinstance(conf["depth"], list):
                    _judge_range(ctx, "values", MK + "get_attr", out["depth"], -10, 0, N, dict(cs, judged="depth"), "make_release with a polygon location: depth")
        lon = np.array(lon, dtype=float); lat = np.array(lat, dtype=float)
        ctx.oracle(len(lon) == N and len(lat) == N, "C17.zero.count", site, "%d positions for num=%d" % (len(lon), N), cs)
        if len(lon) != N:
            continue
        x, y = to_xy(lon, lat)
        x = np.asarray(x); y = np.asarray(y)
        fp = [[(float(a), float(b)) for a, b in p] for p in polys]
        _share_tests(ctx, "zero", site, fp, _bbox_labels(fp, x, y), x, y, N, cs, extra_cuts=2)
        out_ = np.nonzero(~_inside_any(fp, x, y, tol))[0]
        ctx.oracle(len(out_) == 0, "C17.zero.outside_polygon", site,
                   "%d of %d particles lie outside the release area (more than %.3g away from every polygon); first: (%r, %r); positions span x %r..%r, y %r..%r"
                   % ((len(out_), N, tol) + ((float(x[out_[0]]), float(y[out_[0]])) if len(out_) else (0.0, 0.0)) +
                      (float(x.min()), float(x.max()), float(y.min()), float(y.max()))), cs)
        # which side of Greenwich / the equator (of the centre of the offsets): the share of the area on that side
        A = sum(abs(geom.shoelace(p)) for p in fp)
        for axis, (a_, b_) in (("x", (1.0, 0.0)), ("y", (0.0, 1.0))):
            share = 0.0
            for p in fp:
                part = geom.clip_halfplane(p, a_, b_, 0.0)
                share += abs(geom.shoelace(part)) if len(part) >= 3 else 0.0
            share = min(max(share / A, 0.0), 1.0)
            if 0.0 < share < 1e-9 or 1.0 - 1e-9 < share < 1.0:
                ctx.branch("zero.axis_share_not_judged"); continue       # a sliver: rounding decides the side
            # the whole area on one side (it may touch the axis): no particle beyond the axis by more than rounding;
            # otherwise the rounding of a particle within `tol` of the axis cannot move a 7.5-sigma bound
            thr = -tol if share <= 0.0 else (tol if share >= 1.0 else 0.0)
            cnt = int(np.sum((x if axis == "x" else y) <= thr))
            ctx.branch("zero.axis_share=%s" % ("0" if share <= 0.0 else ("1" if share >= 1.0 else "between")))
            ctx.oracle(binom_ok2(cnt, N, share), "C17.zero.axis_share", site,
                       "the part of the release area with %s <= 0 has area share %.6f and received %d of %d particles (expected %.0f)" % (axis, share, cnt, N, N * share),
                       dict(cs, axis=axis, share=share, count=cnt))


def run(ctx):
    mk = importlib.import_module("ladim_plugins.release.makrel")
    _new_tests[0] = 0
    N = ctx.n(20000, 500000)
    for c in range(ctx.n(10, 40)):
        k = ctx.rng.randrange(1, 5)
        polys = []
        # release areas of every size: degrees across, or a fish farm / outfall a few tens of metres across
        # (1e-4 degrees of latitude are about 11 m)
        small = ctx.rng.random() < 0.35
        for i in range(k):
            r = ctx.rng.choice([1e-4, 3e-4, 1e-3]) if small else ctx.rng.choice([0.3, 1.0, 2.0])
            polys.append(geom.random_polygon(ctx.rng, 10.0 + 6.0 * i, 60.0 + 0.3 * i, r))
        areas = [abs(geom.shoelace(p)) for p in polys]
        A = sum(areas)
        plat = [np.array([p[1] for p in poly]) for poly in polys]
        plon = [np.array([p[0] for p in poly]) for poly in polys]
        with RngRecorder(ctx.sub_seed()):
            lat, lon, polynum = mk.latlon_from_poly(plat, plon, N)
        cs = dict(polys=polys, N=N, areas=areas)
        ctx.case(key=("shape", repr(polys)), nontrivial=True, sample=dict(npoly=k, areas=areas, N=N) if c < 2 else None)
        ctx.branch("npoly=%d" % k); ctx.branch("small_polygons" if small else "large_polygons")
        for i in range(k):
            cnt = int(np.sum(polynum == i))
            ctx.oracle(binom_ok(cnt, N, areas[i] / A), "C17.polygon_share", SITE,
                       "polygon %d (area share %.5f) received %d of %d particles (expected %.0f +- %.0f)" %
                       (i, areas[i] / A, cnt, N, N * areas[i] / A, math.sqrt(N * areas[i] / A * (1 - areas[i] / A))), dict(cs, polygon=i, count=cnt))
        if k > 1:
            # a polygon with a tiny share cannot fail the test above on its own (0 of an expected 20 is not rare enough):
            # all polygons but the largest, together
            big = max(range(k), key=lambda i: areas[i])
            cnt = int(np.sum(polynum != big)); sh = 1 - areas[big] / A
            ctx.oracle(binom_ok2(cnt, N, sh), "C17.polygon_share_pooled", SITE,
                       "all polygons but the largest (area share %.6f) received %d of %d particles (expected %.0f)" % (sh, cnt, N, N * sh),
                       dict(cs, largest=big, count=cnt))
        for cut in range(6):
            i = ctx.rng.randrange(k)
            p = polys[i]
            th = ctx.rng.uniform(0, 2 * math.pi); a, b = math.cos(th), math.sin(th)
            vals = [a * x + b * y for x, y in p]
            cc = ctx.rng.uniform(min(vals), max(vals))
            part = geom.clip_halfplane(p, a, b, cc)
            share = (abs(geom.shoelace(part)) if len(part) >= 3 else 0.0) / A
            cnt = int(np.sum((polynum == i) & (a * lon + b * lat <= cc)))
            ctx.case(key=("cut", repr(p), th, cc), nontrivial=True); ctx.branch("halfplane_cut")
            ctx.oracle(binom_ok(cnt, N, min(max(share, 0.0), 1.0)), "C17.halfplane_share", SITE,
                       "half-plane cut of polygon %d: area share %.5f, received %d of %d (expected %.0f)" % (i, share, cnt, N, N * share),
                       dict(cs, polygon=i, cut=[a, b, cc], count=cnt, share=share))
    # two-element ranges uniform on their range
    for c in range(ctx.n(6, 30)):
        lo = ctx.rng.choice([0.0, -5.0, 100.0]); hi = lo + ctx.rng.choice([1.0, 10.0, 250.0])
        with RngRecorder(ctx.sub_seed()):
            v = np.array(mk.get_attr([lo, hi], N))
        cnt = np.histogram(v, bins=np.linspace(lo, hi, 11))[0]
        ctx.case(key=("range", lo, hi), nontrivial=True); ctx.branch("range_attribute")
        ctx.oracle(bool(np.all((v >= lo) & (v <= hi))), "C17.range.outside", "ladim_plugins/release/makrel.py::get_attr", "values outside", dict(lo=lo, hi=hi))
        for b in range(10):
            ctx.oracle(binom_ok(int(cnt[b]), N, 0.1), "C17.range.uniform", "ladim_plugins/release/makrel.py::get_attr",
                       "[%r,%r]: bin %d holds %d of %d" % (lo, hi, b, cnt[b], N), dict(lo=lo, hi=hi, counts=cnt.tolist()))
    # second family (own false-alarm budget)
    _exp_spread(ctx, mk)
    _exp_locations(ctx, mk)
    _exp_direct(ctx, mk)
    _exp_ranges(ctx, mk)
    _exp_reuse(ctx, mk)
    # fourth family (budget of the second family): the values of the bounds / of the coordinates
    _exp_range_values(ctx, mk)
    _exp_zero_coords(ctx, mk)
    assert _new_tests[0] <= MAX_TESTS_NEW, "second family: %d tests exceed the Bonferroni count %d" % (_new_tests[0], MAX_TESTS_NEW)
    ctx.note("statistical tests of the second family: %d (per-test level %.2e, family-wise <= %.1e)" % (_new_tests[0], 2 * _level(), ALPHA_NEW))
    # the sampling map itself is pinned bit-exactly (shared with C03)
    if not getattr(ctx, "widened", False):
        saved = ctx.tier
        ctx.tier = "quick"
        try:
            c03.run(ctx)
        finally:
            ctx.tier = saved


def replay(payload):
    print("predicate:", payload.get("predicate"), "|", payload.get("detail"))
    return False
