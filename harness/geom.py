"""geometry helpers for the release checks: random simple polygons, exact point-in-polygon, clipping"""
import math
from fractions import Fraction as Fr
import numpy as np


def star_polygon(rng, cx, cy, r, n):
    ang = sorted(rng.uniform(0, 2 * math.pi) for _ in range(n))
    # avoid nearly equal angles
    ang = [a + 1e-3 * i for i, a in enumerate(ang)]
    pts = [(cx + r * rng.uniform(0.35, 1.0) * math.cos(a), cy + r * rng.uniform(0.35, 1.0) * math.sin(a) * 0.6) for a in ang]
    return pts


def comb_polygon(rng, cx, cy, r):
    """L / comb shaped non-convex, non-symmetric polygon"""
    k = rng.choice([1, 2, 3])
    w = 2.0 * r / (2 * k + 1)
    pts = [(cx - r, cy - r * 0.5)]
    x = cx - r
    top = cy + r * 0.5; mid = cy - r * 0.1
    pts.append((cx + r, cy - r * 0.5))
    xs = cx + r
    for i in range(k):
        pts.append((xs, top)); xs -= w
        pts.append((xs, top)); pts.append((xs, mid)); xs -= w
        pts.append((xs, mid))
    pts.append((xs, top * 1.0 + 0.07 * r)); pts.append((cx - r, top + 0.07 * r))
    return pts


def random_polygon(rng, cx, cy, r):
    """a *simple*, non-degenerate polygon (exact test; candidates that fail it are discarded)"""
    while True:
        p = _random_polygon(rng, cx, cy, r)
        if is_simple(p):
            return p


def _random_polygon(rng, cx, cy, r):
    kind = rng.choice(["star", "star", "comb", "tri"])
    if kind == "star":
        p = star_polygon(rng, cx, cy, r, rng.randrange(4, 13))
    elif kind == "comb":
        p = comb_polygon(rng, cx, cy, r)
    else:
        p = star_polygon(rng, cx, cy, r, 3)
    if rng.random() < 0.5:
        p = p[::-1]
    return p


def shoelace(p):
    """signed area; computed relative to the first vertex so that small polygons far from the origin
    (a 20 m cage at 60 N) do not lose their area to cancellation"""
    s = 0
    n = len(p)
    if n == 0:
        return 0.0
    x0, y0 = p[0]
    for i in range(n):
        x1, y1 = p[i]; x2, y2 = p[(i + 1) % n]
        s += (x1 - x0) * (y2 - y0) - (x2 - x0) * (y1 - y0)
    return s / 2


def shoelace_exact(p):
    q = [(Fr(x), Fr(y)) for x, y in p]
    s = Fr(0)
    n = len(q)
    for i in range(n):
        x1, y1 = q[i]; x2, y2 = q[(i + 1) % n]
        s += x1 * y2 - x2 * y1
    return abs(s) / 2


def inside_exact(p, x, y):
    """exact (rational) test: True if (x,y) inside or on the boundary of the simple polygon p"""
    X, Y = Fr(x), Fr(y)
    q = [(Fr(a), Fr(b)) for a, b in p]
    n = len(q)
    inside = False
    for i in range(n):
        x1, y1 = q[i]; x2, y2 = q[(i + 1) % n]
        # on segment?
        cross = (x2 - x1) * (Y - y1) - (y2 - y1) * (X - x1)
        if cross == 0 and min(x1, x2) <= X <= max(x1, x2) and min(y1, y2) <= Y <= max(y1, y2):
            return True
        if (y1 > Y) != (y2 > Y):
            xi = x1 + (Y - y1) * (x2 - x1) / (y2 - y1)
            if X < xi:
                inside = not inside
    return inside


def dist_to_boundary(p, x, y):
    best = float("inf")
    n = len(p)
    for i in range(n):
        x1, y1 = p[i]; x2, y2 = p[(i + 1) % n]
        dx, dy = x2 - x1, y2 - y1
        L2 = dx * dx + dy * dy
        t = 0.0 if L2 == 0 else max(0.0, min(1.0, ((x - x1) * dx + (y - y1) * dy) / L2))
        best = min(best, math.hypot(x - (x1 + t * dx), y - (y1 + t * dy)))
    return best


def inside_tol(p, x, y, rel=1e-11):
    if inside_exact(p, x, y):
        return True
    scale = max(max(abs(a), abs(b)) for a, b in p) + 1.0
    return dist_to_boundary(p, x, y) <= rel * scale


def clip_halfplane(p, a, b, c):
    """Sutherland-Hodgman: part of polygon p with a*x + b*y <= c"""
    out = []
    n = len(p)
    for i in range(n):
        P = p[i]; Q = p[(i + 1) % n]
        fp = a * P[0] + b * P[1] - c; fq = a * Q[0] + b * Q[1] - c
        if fp <= 0:
            out.append(P)
        if (fp < 0 < fq) or (fq < 0 < fp):
            t = fp / (fp - fq)
            out.append((P[0] + t * (Q[0] - P[0]), P[1] + t * (Q[1] - P[1])))
    return out


def valid_triangulation(poly, tris):
    """every triangle vertex is a polygon vertex, no degenerate triangle, areas sum exactly to the polygon area"""
    V = set((float(x), float(y)) for x, y in poly)
    tot = Fr(0)
    for t in tris:
        for v in t:
            if (float(v[0]), float(v[1])) not in V:
                return False, "triangle vertex %r is not a polygon vertex" % (v,)
        a = shoelace_exact([tuple(v) for v in t])
        if a == 0:
            return False, "degenerate triangle"
        tot += a
    if tot != shoelace_exact(poly):
        return False, "triangle areas sum to %s, polygon area %s" % (float(tot), float(shoelace_exact(poly)))
    return True, ""


def _orient(a, b, c):
    v = (Fr(b[0]) - Fr(a[0])) * (Fr(c[1]) - Fr(a[1])) - (Fr(b[1]) - Fr(a[1])) * (Fr(c[0]) - Fr(a[0]))
    return (v > 0) - (v < 0)


def _on_seg(a, b, c):
    return min(a[0], b[0]) <= c[0] <= max(a[0], b[0]) and min(a[1], b[1]) <= c[1] <= max(a[1], b[1])


def segments_intersect(p1, p2, p3, p4):
    o1, o2, o3, o4 = _orient(p1, p2, p3), _orient(p1, p2, p4), _orient(p3, p4, p1), _orient(p3, p4, p2)
    if o1 != o2 and o3 != o4:
        return True
    return (o1 == 0 and _on_seg(p1, p2, p3)) or (o2 == 0 and _on_seg(p1, p2, p4)) or \
           (o3 == 0 and _on_seg(p3, p4, p1)) or (o4 == 0 and _on_seg(p3, p4, p2))


def is_simple(p):
    n = len(p)
    if len(set(p)) != n or shoelace_exact(p) == 0:
        return False
    for i in range(n):
        # consecutive collinear vertices make degenerate corners: reject
        if _orient(p[i - 1], p[i], p[(i + 1) % n]) == 0:
            return False
        for j in range(i + 1, n):
            if j == i or (j + 1) % n == i or (i + 1) % n == j:
                continue
            if segments_intersect(p[i], p[(i + 1) % n], p[j], p[(j + 1) % n]):
                return False
    return True
