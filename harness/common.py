"""
Shared machinery of the correspondence harness.

* float <-> bit-pattern tokens and the client of the Lean model driver (line protocol)
* recorder for the legacy numpy global generator (np.random.*)
* the Ctx object every per-property harness module receives: case counting, branch/size
  distribution, oracle failures, model/implementation disagreements, known findings,
  replay files
"""
import os, sys, json, struct, subprocess, time, random, hashlib, contextlib, math

VERIF = os.path.dirname(os.path.dirname(os.path.abspath(__file__)))
REPO = os.environ.get("LADIM_PLUGINS_SRC", "/repo")
LEAN = os.path.join(VERIF, "lean")
DRIVER_BIN = os.path.join(LEAN, ".lake", "build", "bin", "driver")
GUARD = "LADIM_PLUGINS_VERIF"
os.environ.setdefault(GUARD, "1")

if REPO != "/repo":
    sys.path.insert(0, REPO)


# ----------------------------------------------------------------------------- tokens
def F(x):
    """binary64 -> 16 hex digits"""
    return "%016x" % struct.unpack("<Q", struct.pack("<d", float(x)))[0]


def G(x):
    """binary32 -> 8 hex digits"""
    import numpy as np
    return "%08x" % struct.unpack("<I", struct.pack("<f", np.float32(x)))[0]


def unF(s):
    return struct.unpack("<d", struct.pack("<Q", int(s, 16)))[0]


def unG(s):
    return struct.unpack("<f", struct.pack("<I", int(s, 16)))[0]


def I(i):
    return str(int(i))


def B(b):
    return "1" if bool(b) else "0"


def L(xs, f=F):
    xs = list(xs)
    return " ".join([str(len(xs))] + [f(x) for x in xs])


def OPT(x, f=F):
    return "0" if x is None else "1 " + f(x)


def same_bits(a, b):
    """bit-exact float equality (NaN == NaN, +0 != -0 relaxed to equal)"""
    a = float(a); b = float(b)
    if a != a and b != b:
        return True
    return a == b


def close(a, b, rel=1e-9, abs_=1e-12):
    a = float(a); b = float(b)
    if a != a and b != b:
        return True
    if a == b:
        return True
    return abs(a - b) <= abs_ + rel * max(abs(a), abs(b))


# ----------------------------------------------------------------------------- driver
class DriverUnavailable(Exception):
    pass


class Driver:
    """Batches requests for the Lean model driver and returns its replies."""

    def __init__(self):
        self.lines = []
        self.available = os.path.exists(DRIVER_BIN) and not os.environ.get("VERIF_NO_DRIVER")

    def ask(self, fn, *toks):
        self.lines.append(fn + " " + " ".join(str(t) for t in toks))
        return len(self.lines) - 1

    def run(self):
        """returns list of replies: ('ok', [tokens]) or ('err', message)"""
        if not self.available:
            raise DriverUnavailable(DRIVER_BIN)
        if not self.lines:
            return []
        data = ("\n".join(self.lines) + "\n").encode()
        p = None
        for attempt in range(5):
            try:
                p = subprocess.run([DRIVER_BIN], input=data, stdout=subprocess.PIPE, stderr=subprocess.PIPE)
                break
            except OSError as e:            # ETXTBSY / ENOENT while another process relinks the binary: wait and retry
                import time as _t
                _t.sleep(0.5 * (attempt + 1))
                err = e
        if p is None:
            raise DriverUnavailable("driver could not be started: %r" % (err,))
        if p.returncode != 0:
            raise DriverUnavailable("driver exited %d: %s" % (p.returncode, p.stderr.decode()[:500]))
        out = p.stdout.decode().split("\n")
        if out and out[-1] == "":
            out.pop()
        if len(out) != len(self.lines):
            raise DriverUnavailable("driver returned %d lines for %d requests" % (len(out), len(self.lines)))
        res = []
        for l in out:
            t = l.split(" ")
            if t[0] == "ok":
                res.append(("ok", t[1:]))
            else:
                res.append(("err", " ".join(t[1:])))
        self.lines = []
        return res


# ----------------------------------------------------------------------------- RNG
class RngRecorder:
    """Wraps the entry points of numpy's legacy global generator that the repository uses.

    Every call is served by a private RandomState seeded from the check's seed, optionally
    post-processed by `inject(kind, values) -> values` (used to place tails and exact boundary
    values), and logged as (kind, params, size, values)."""

    KINDS = ("rand", "randn", "normal", "uniform", "exponential")

    def __init__(self, seed, inject=None):
        import numpy as np
        self.np = np
        self.rs = np.random.RandomState(seed % (2**32))
        self.inject = inject
        self.log = []
        self._saved = {}

    # -- served functions
    def _emit(self, kind, params, values):
        import numpy as np
        values = np.asarray(values, dtype=float)
        if self.inject is not None:
            values = np.asarray(self.inject(kind, params, values.copy()), dtype=float)
        self.log.append((kind, params, values.shape, values.copy()))
        return values

    def rand(self, *shape):
        if len(shape) == 0:
            return float(self._emit("rand", (), self.rs.random_sample(())))
        return self._emit("rand", (), self.rs.random_sample(shape))

    def randn(self, *shape):
        if len(shape) == 0:
            return float(self._emit("randn", (), self.rs.standard_normal(())))
        return self._emit("randn", (), self.rs.standard_normal(shape))

    def normal(self, loc=0.0, scale=1.0, size=None):
        # numpy: loc + scale * standard_normal ; record the *standard* draw so the model can redo it
        z = self._emit("normal", (loc, scale), self.rs.standard_normal(size))
        r = loc + scale * z
        return r if size is not None else float(r)

    def uniform(self, low=0.0, high=1.0, size=None):
        u = self._emit("uniform", (low, high), self.rs.random_sample(size))
        r = low + (high - low) * u
        return r if size is not None else float(r)

    def exponential(self, scale=1.0, size=None):
        e = self._emit("exponential", (scale,), self.rs.standard_exponential(size))
        r = scale * e
        return r if size is not None else float(r)

    def seed(self, s=None):
        self.log.append(("seed", (s,), (), None))
        if s is not None:
            self.rs = self.np.random.RandomState(s)

    def shuffle(self, x):
        self.log.append(("shuffle", (), (len(x),), None))
        self.rs.shuffle(x)

    def __enter__(self):
        np = self.np
        for k in self.KINDS + ("seed", "shuffle"):
            self._saved[k] = getattr(np.random, k)
            setattr(np.random, k, getattr(self, k))
        return self

    def __exit__(self, *a):
        for k, v in self._saved.items():
            setattr(self.np.random, k, v)
        return False

    def schedule(self):
        return [(k, tuple(int(s) for s in shp)) for (k, _, shp, _) in self.log]


# ----------------------------------------------------------------------------- context
class Ctx:
    def __init__(self, prop, tier, seed, known):
        self.prop = prop
        self.tier = tier
        self.seed = seed
        self.rng = random.Random(seed * 1000003 + int(hashlib.sha1(prop.encode()).hexdigest()[:8], 16))
        self.known = known                  # list of known-finding dicts for this property
        self.evaluations = 0
        self.nontrivial = set()
        self.samples = []
        self.branches = {}
        self.sizes = {}
        self.oracle_fail = []               # (pred, site, detail, case)
        self.disagree = []                  # (what, detail, case)
        self.known_hit = {}                 # id -> count
        self.bit_exact = 0
        self.tol_cmp = 0
        self.schedule_matches = 0
        self.notes = []
        self.driver_ok = True
        self.t0 = time.time()

    # ---- scaling
    def n(self, quick, thorough=None):
        if self.tier == "thorough":
            return thorough if thorough is not None else quick * 20
        return quick

    def sub_seed(self):
        return self.rng.randrange(2**31)

    # ---- accounting
    def case(self, key=None, sample=None, nontrivial=True):
        self.evaluations += 1
        self.last_key = key
        if nontrivial and key is not None:
            self.nontrivial.add(key)
        if sample is not None and len(self.samples) < 6:
            self.samples.append(sample)

    def branch(self, tag, k=1):
        self.branches[tag] = self.branches.get(tag, 0) + k

    def size(self, tag, n):
        d = self.sizes.setdefault(tag, {})
        d[str(n)] = d.get(str(n), 0) + 1

    # ---- comparisons (model vs implementation)
    def eq_bits(self, what, impl, model, case):
        self.bit_exact += 1
        if not same_bits(impl, model):
            self.disagree.append((what, "impl=%r model=%r" % (float(impl), float(model)), case))
            return False
        return True

    def eq_close(self, what, impl, model, case, rel=1e-9, abs_=1e-12):
        self.tol_cmp += 1
        if not close(impl, model, rel, abs_):
            self.disagree.append((what, "impl=%r model=%r (tol)" % (float(impl), float(model)), case))
            return False
        return True

    def eq(self, what, impl, model, case):
        self.bit_exact += 1
        if impl != model:
            self.disagree.append((what, "impl=%r model=%r" % (impl, model), case))
            return False
        return True

    def disagreement(self, what, detail, case):
        self.disagree.append((what, detail, case))

    # ---- oracle (property on the implementation's own behaviour)
    def oracle(self, ok, pred, site, detail, case):
        """record a property predicate evaluated on the implementation. `pred` is a fine-grained id
        such as 'C04.gaussian.lower_bound'."""
        if ok:
            return True
        for k in self.known:
            if k["predicate"] == pred and k.get("site", site) == site:
                self.known_hit[k["id"]] = self.known_hit.get(k["id"], 0) + 1
                return False
        self.oracle_fail.append((pred, site, detail, case))
        return False

    def note(self, s):
        self.notes.append(s)


def jsonable(o):
    import numpy as np
    if isinstance(o, dict):
        return {str(k): jsonable(v) for k, v in o.items()}
    if isinstance(o, (list, tuple)):
        return [jsonable(v) for v in o]
    if isinstance(o, np.ndarray):
        return jsonable(o.tolist())
    if isinstance(o, (np.floating,)):
        return jsonable(float(o))
    if isinstance(o, (np.integer,)):
        return int(o)
    if isinstance(o, (np.bool_,)):
        return bool(o)
    if isinstance(o, float):
        if o != o or o in (float("inf"), float("-inf")):
            return repr(o)
        return o
    if isinstance(o, (str, int, bool)) or o is None:
        return o
    return repr(o)


def np_err_state():
    import numpy as np
    return np.errstate(all="ignore")
