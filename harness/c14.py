"""C14 — the diagnosed vertical velocity satisfies continuity.

Correspondence: real `gridforce.compute_w(pn, pm, u, v, z_w, z_r)` on synthetic grids against the
cell-by-cell Lean model (bit-exact: same operation order).  Oracle on the implementation: linearity,
zero lateral boundary, flat-bottom identity, zero at bed and surface, zero for non-divergent transports,
positive under surface convergence; `Forcing.compute_w` / `Forcing.W` / `Forcing.wvel` on synthetic ROMS
files (sub-grids, land, anisotropic cells, start on / between frames, updates across frames) and on the
shipped chemicals forcing file; start offsets of 2.. steps into intervals of up to 60 steps (float64 / float32 / packed
currents, several files), Forcing.W and wvel over the update history against the time interpolation of the frames'
vertical velocities and, on flat files, against the transport-divergence form; every compute_w oracle and the
Forcing oracles again with the grid brought to other total depths (millimetres .. kilometres, in particular below and around one
metre) and other cell sizes (unit, centimetres .. tens of kilometres), the vertical grid of the files given through either
Vtransform or through Vinfo."""
import importlib, os, tempfile, shutil
import numpy as np
from .common import Driver, F, I, unF, same_bits

RULE = ("grids J,I in 4..7, K in 3..6 (one in eight: J,I in 8..12, K in 7..12; a few oracle-only grids up to 24x24x35), random monotone "
        "stretchings, uniform or varying positive pm/pn, flat and rough bathymetry, random velocity fields, analytic non-divergent "
        "transports and surface-convergent columns.  Level styles: pure sigma with the surface at 0 (as before); the same with a "
        "non-zero free-surface offset (constant over a flat bottom, per column over a rough one); flat bed with horizontally uniform "
        "rho-levels but horizontally varying interior w-levels and surface (horizontally varying layer thicknesses); ROMS-type "
        "z = hc*(s-C) + C*H over rough bathymetry (levels not proportional to the depth).  Every case also as float32 non-contiguous "
        "views and as frame 0/1 of a two-frame call with different levels per frame.  Forcing: synthetic float64 ROMS files "
        "(7..11 x 7..10 x 3..6, pm != pn, land cells, flat or rough, whole grid or sub-grid with i0,j0 >= 1), start on a frame / on a "
        "later frame / between frames, dt-aligned frames, consecutive and gapped update schedules across >= 2 frames; the shipped file "
        "at steps 0..4, 60, 61, 120.  Start offset inside a forcing interval (second family of synthetic files, twice as many): "
        "3..6 frames spaced 1..60 model steps (dt 60..900 s), the start 2..g-1 steps after the earlier frame of an interval of g >= 3 "
        "steps (exactly two after / exactly one before the next frame / anywhere inside), in the first, a middle or the last interval; "
        "currents stored as float64, float32 or int16 packed with a power-of-two scale_factor; frames in one file or spread over 2-3 "
        "files (list or glob, grid in the first); update schedules dense from step 0 to past the next frame, then gapped, to the last "
        "frame.  The shipped file also with the start 0..59 steps after its first frame (always 2 and 59, random others), whole grid "
        "or sub-grid, steps 0..3, around both later frames and random ones.  Non-trivial: every grid/field pair and every (file, "
        "schedule) pair.  Scale of the grid (second family of compute_w cases, as many again, same styles and oracles, model included on the "
        "small grids): the levels multiplied by a factor so that the water columns' total thickness is of laboratory / non-dimensional "
        "scale (1e-4..2e-2), below one metre everywhere (0.02..0.99), exactly 1 in the deepest column, on either side of one metre "
        "(a random column at 0.6..1.6: over rough beds and varying layers some columns below and some above 1 m), 1..20 m, or "
        "1000..11000 m; the second frame of the two-frame call in a depth class of its own; pm, pn as generated, all 1 (unit cells), or "
        "divided by a factor giving cells of 3 mm..0.8 m, 0.3..24 m, or 1.6..48 km.  Forcing, third family of synthetic files "
        "(either start / schedule family): h flat at 1e-3..5e-2, 0.05..0.99, exactly 1, 1..10 or 500..5000 m, or the rough h scaled to "
        "0.01..0.99 m everywhere, to both sides of 1 m (0.2..4.5 m), or to 100..5000 m; vertical grid from hc, Cs_r, Cs_w in the file "
        "with Vtransform absent / 1 (hc in [0, min h]) or 2 (hc in [0, 4 min h]), or from the configuration's Vinfo (theta_s 0.5..7, "
        "theta_b, Vstretching 1 | 2 | 4, Vtransform 1 | 2); pm, pn as written, all 1, or scaled to cells of 7 mm..0.9 m, 1..22 m, "
        "4..54 km; levels checked monotone (z_w[k] < z_r[k] < z_w[k+1]) before use.")
ASSUMPTIONS = ["linearity / identities compared with 1e-9 relative tolerance to the field scale; model vs implementation bit-exact",
               "Forcing.W against compute_w of the served currents: 1e-9 relative on float64 files (accumulated increments vs the closed "
               "form, equal by linearity), 1e-5 relative on the shipped file (float32 currents accumulate one float32 rounding per step)",
               "Forcing.W / wvel at step t against the closed-form time interpolation of the two bracketing frames' vertical velocities "
               "(frames' currents taken from what was written to the file; on flat files additionally the statement's transport-divergence "
               "form without any call of compute_w): 1e-9 of the frames' scale on synthetic files (W is float64 whatever the storage of the "
               "currents), 1e-5 on the shipped file (float32 decoding of the packed currents)",
               "frame times are multiples of dt from the start time (the step of a frame is then exact)",
               "the two-frame, float32 / non-contiguous and large-grid calls are judged by the implementation-side oracles only "
               "(the model driver has no operation for them)"]
SITE = "ladim_plugins/chemicals/gridforce.py::compute_w"
SITE_F = "ladim_plugins/chemicals/gridforce.py::Forcing.compute_w"
SITE_W = "ladim_plugins/chemicals/gridforce.py::Forcing.wvel"


def make_grid(rng, flat, dims=None):
    if dims is None:
        J = rng.randrange(4, 8); I_ = rng.randrange(4, 8); K = rng.randrange(3, 7)
    else:
        J, I_, K = dims
    if rng.random() < 0.5:
        pm = np.full((J, I_), 1.0 / rng.choice([160.0, 800.0])); pn = np.full((J, I_), 1.0 / rng.choice([160.0, 800.0]))
    else:
        pm = 1.0 / (500.0 + 300.0 * np.array([[rng.random() for _ in range(I_)] for _ in range(J)]))
        pn = 1.0 / (500.0 + 300.0 * np.array([[rng.random() for _ in range(I_)] for _ in range(J)]))
    H = np.full((J, I_), rng.choice([20.0, 100.0])) if flat else 20.0 + 80.0 * np.array([[rng.random() for _ in range(I_)] for _ in range(J)])
    sw = np.sort(np.array([0.0, 1.0] + [rng.random() for _ in range(K - 1)]))   # 0..1, K+1 levels
    sr = 0.5 * (sw[:-1] + sw[1:]) + 0.0
    if rng.random() < 0.5:
        sr = sw[:-1] + (sw[1:] - sw[:-1]) * np.array([rng.uniform(0.2, 0.8) for _ in range(K)])
    z_w = -H[None, :, :] * (1.0 - sw)[:, None, None]
    z_r = -H[None, :, :] * (1.0 - sr)[:, None, None]
    return J, I_, K, pm, pn, z_w, z_r


def restyle(rng, flat, J, I_, K, z_w, z_r):
    """Other valid level sets on the same grid (the statement: any monotone stretching, any layer thicknesses; flat
    bottom for the exact identities).  Returns (style, z_w, z_r); 'sigma' leaves the levels of make_grid as they are."""
    r = rng.random()
    if r < 0.4:
        return "sigma_surface0", z_w, z_r
    if r < 0.6:
        # free surface not at z = 0: constant over a flat bottom (levels stay horizontally uniform), per column otherwise
        if flat:
            c = rng.choice([-1.0, 1.0]) * rng.uniform(0.2, 3.0)
            return "zeta_offset", z_w + c, z_r + c
        c = np.array([[rng.uniform(-2.0, 2.0) for _ in range(I_)] for _ in range(J)])
        return "zeta_offset", z_w + c[None], z_r + c[None]
    if flat:
        # flat bed, horizontally uniform rho-levels (no s-surface slope), but the interior w-levels and the surface vary
        # from column to column: horizontally varying layer thicknesses over a flat bottom
        zr1 = z_r[:, 0, 0]
        zw = np.empty_like(z_w)
        zw[0] = z_w[0]
        for k in range(1, K):
            f = np.array([[rng.uniform(0.1, 0.9) for _ in range(I_)] for _ in range(J)])
            zw[k] = zr1[k - 1] + (zr1[k] - zr1[k - 1]) * f
        f = np.array([[rng.uniform(0.3, 1.7) for _ in range(I_)] for _ in range(J)])
        zw[K] = zr1[K - 1] + (0.0 - zr1[K - 1]) * f          # zr1[K-1] < 0: surface above the top rho-level, above or below z = 0
        return "flat_varying_layers", zw, z_r.copy()
    # ROMS-type transform (Song & Haidvogel): z = hc*(s - C(s)) + C(s)*H, C = -|s|^p: monotone in s for H > hc
    H = -z_w[0]
    hc = rng.choice([5.0, 10.0, 15.0]); p = rng.uniform(1.3, 3.0)
    H = np.maximum(H, hc + 5.0)
    sw = np.sort(np.array([-1.0, 0.0] + [-rng.random() for _ in range(K - 1)]))
    sr = sw[:-1] + (sw[1:] - sw[:-1]) * np.array([rng.uniform(0.2, 0.8) for _ in range(K)])
    Cw = -np.abs(sw) ** p; Cr = -np.abs(sr) ** p
    zw = hc * (sw - Cw)[:, None, None] + Cw[:, None, None] * H[None]
    zr = hc * (sr - Cr)[:, None, None] + Cr[:, None, None] * H[None]
    return "roms_stretching", zw, zr


def rand_uv(rng, K, J, I_):
    u = np.array([[[rng.uniform(-1, 1) for _ in range(I_ - 1)] for _ in range(J)] for _ in range(K)])
    v = np.array([[[rng.uniform(-1, 1) for _ in range(I_)] for _ in range(J - 1)] for _ in range(K)])
    return u, v


def call(G, pn, pm, u, v, z_w, z_r):
    return G.compute_w(pn, pm, u[None], v[None], z_w[None], z_r[None])[0]



def log_uniform(rng, lo, hi):
    return float(np.exp(rng.uniform(np.log(lo), np.log(hi))))


DEPTH_CLASSES = ["lab_scale", "sub_metre", "sub_metre", "unit_depth", "around_one_metre", "around_one_metre", "metres", "abyssal"]
CELL_CLASSES = ["as_generated", "as_generated", "unit_cells", "lab_cells", "metre_cells", "coarse_cells"]


def draw_depth_scale(rng, cls, z_w):
    """Factor for the vertical coordinate (levels z -> f*z: every level set of the quantifier stays one, monotone, flat stays
    flat) that brings the water columns' total thickness T = z_w[-1] - z_w[0] into the class: lab / non-dimensional scale
    (1e-4..2e-2), below one metre everywhere, exactly one (non-dimensional unit depth, deepest column), columns on either
    side of one metre, a few metres, oceanic trench."""
    T = z_w[-1] - z_w[0]
    tmax = float(T.max())
    if cls == "lab_scale":
        return log_uniform(rng, 1e-4, 2e-2) / tmax
    if cls == "sub_metre":
        return log_uniform(rng, 0.02, 0.99) / tmax
    if cls == "unit_depth":
        return 1.0 / tmax
    if cls == "around_one_metre":
        J, I_ = T.shape
        t = float(T[rng.randrange(J), rng.randrange(I_)])
        return rng.uniform(0.6, 1.6) / t
    if cls == "metres":
        return rng.uniform(1.0, 20.0) / tmax
    return rng.uniform(1000.0, 11000.0) / tmax          # abyssal


def depth_tag(z_w):
    T = z_w[-1] - z_w[0]
    lo, hi = float(T.min()), float(T.max())
    if hi < 1.0:
        return "all_columns_below_1m" if hi > 2e-2 else "all_columns_below_2cm"
    if lo < 1.0:
        return "columns_on_both_sides_of_1m"
    return "all_columns_1m_to_20m" if hi <= 20.0 else ("all_columns_above_1m" if hi <= 200.0 else "deeper_than_200m")


def draw_cells(rng, cls, pm, pn):
    """Other positive metric coefficients on the same grid: unit cells (pm = pn = 1, a non-dimensional grid), centimetre to
    metre cells of a laboratory flume, cells of 1..20 m, cells of 5..50 km; the relative variation of the generated ones
    (uniform or varying, anisotropic) is kept except for unit cells."""
    if cls == "as_generated":
        return pm, pn
    if cls == "unit_cells":
        return np.ones_like(pm), np.ones_like(pn)
    # generated cells are 160..800 m: f multiplies the cell size
    f = {"lab_cells": log_uniform(rng, 2e-5, 1e-3), "metre_cells": log_uniform(rng, 2e-3, 3e-2), "coarse_cells": log_uniform(rng, 10.0, 60.0)}[cls]
    return pm / f, pn / f


def check_case(ctx, G, drv, pend, c, dims=None, use_driver=True, np_fields=False, scales=False):
    flat = ctx.rng.random() < 0.6
    J, I_, K, pm, pn, z_w, z_r = make_grid(ctx.rng, flat, dims)
    style, z_w, z_r = restyle(ctx.rng, flat, J, I_, K, z_w, z_r)
    dcls = ccls = None
    if scales:
        # the dimension "how deep / how wide": the same level styles and metrics, brought to another total depth (z -> f*z) and
        # another cell size (pm, pn -> pm/g, pn/g).  The statement holds "for any layer thicknesses and any ... cell sizes".
        dcls = ctx.rng.choice(DEPTH_CLASSES); ccls = ctx.rng.choice(CELL_CLASSES)
        fz = draw_depth_scale(ctx.rng, dcls, z_w)
        z_w = z_w * fz; z_r = z_r * fz
        pm, pn = draw_cells(ctx.rng, ccls, pm, pn)
    if np_fields:
        R = np.random.RandomState(ctx.sub_seed())
        draw_uv = lambda: (R.uniform(-1, 1, (K, J, I_ - 1)), R.uniform(-1, 1, (K, J - 1, I_)))
    else:
        draw_uv = lambda: rand_uv(ctx.rng, K, J, I_)
    u, v = draw_uv()
    cs = dict(J=J, I=I_, K=K, flat=flat, style=style, pm=pm, pn=pn, z_w=z_w, z_r=z_r, u=u, v=v)
    ctx.case(key=(J, I_, K, flat, float(u.sum()), float(pm.sum())), nontrivial=True, sample=dict(J=J, I=I_, K=K, flat=flat, style=style) if c < 3 else None)
    ctx.branch("flat" if flat else "rough"); ctx.size("K", K); ctx.branch("levels." + style)
    ctx.branch("size.small" if max(J, I_) <= 7 and K <= 6 else ("size.medium" if max(J, I_) <= 12 else "size.large"))
    if scales:
        ctx.branch("depth_class." + dcls); ctx.branch("depth." + depth_tag(z_w)); ctx.branch("cells." + ccls)
        ctx.branch("depth.%s.%s" % ("flat" if flat else "rough", depth_tag(z_w)))
        cs.update(depth_class=dcls, cell_class=ccls)
    keep = [a.copy() for a in (pn, pm, u, v, z_w, z_r)]
    try:
        w = call(G, pn, pm, u, v, z_w, z_r)
    except Exception as e:
        ctx.oracle(False, "C14.compute_w.raises", SITE, "raised %r" % (e,), dict(J=J, I=I_, K=K, style=style)); return
    scale = np.abs(w).max() + 1e-30
    ctx.oracle(w.shape == (K + 1, J, I_), "C14.shape", SITE, "shape %r" % (w.shape,), dict(J=J, I=I_, K=K))
    # lateral boundary
    lat = np.abs(w[:, 0, :]).max() + np.abs(w[:, -1, :]).max() + np.abs(w[:, :, 0]).max() + np.abs(w[:, :, -1]).max()
    ctx.oracle(lat == 0, "C14.lateral_not_zero", SITE, "lateral boundary values %r" % lat, cs)
    # linearity
    u2, v2 = draw_uv()
    a, b = ctx.rng.uniform(-2, 2), ctx.rng.uniform(-2, 2)
    w2 = call(G, pn, pm, u2, v2, z_w, z_r)
    wc = call(G, pn, pm, a * u + b * u2, a * v + b * v2, z_w, z_r)
    err = np.abs(wc - (a * w + b * w2)).max()
    ctx.oracle(err <= 1e-9 * (np.abs(wc).max() + scale), "C14.not_linear", SITE, "linearity error %r (scale %r)" % (err, scale), cs)
    if flat:
        ctx.oracle(np.abs(w[0]).max() <= 1e-12 * scale and np.abs(w[-1]).max() <= 1e-9 * scale, "C14.bed_surface_not_zero", SITE,
                   "bed %r surface %r (scale %r)" % (np.abs(w[0]).max(), np.abs(w[-1]).max(), scale), cs)
        # flat-bottom identity with independently computed transports
        Hz = z_w[1:] - z_w[:-1]
        Hzu = 0.5 * (Hz[:, :, :-1] + Hz[:, :, 1:]); Hzv = 0.5 * (Hz[:, :-1, :] + Hz[:, 1:, :])
        Fu = Hzu * u * 2 / (pn[:, :-1] + pn[:, 1:]); Fv = Hzv * v * 2 / (pm[:-1, :] + pm[1:, :])
        D = (Fu[:, 1:-1, 1:] - Fu[:, 1:-1, :-1]) + (Fv[:, 1:, 1:-1] - Fv[:, :-1, 1:-1])      # net outflow per layer, interior cells
        S = np.concatenate([np.zeros((1,) + D.shape[1:]), np.cumsum(D, axis=0)])
        zz = z_w[:, 1:-1, 1:-1]
        want = (pm * pn)[1:-1, 1:-1] * (S - (zz - zz[0]) / (zz[-1] - zz[0]) * S[-1])
        err = np.abs(w[:, 1:-1, 1:-1] - want).max()
        ctx.oracle(err <= 1e-9 * scale, "C14.flat_identity", SITE, "identity error %r (scale %r)" % (err, scale), cs)
        # non-divergent transports: stream function psi at corners -> Fu = d psi/dy, Fv = -d psi/dx
        if np_fields:
            psi = R.uniform(-1, 1, (K, J + 1, I_ + 1))
        else:
            psi = np.array([[[ctx.rng.uniform(-1, 1) for _ in range(I_ + 1)] for _ in range(J + 1)] for _ in range(K)])
        Fu_nd = psi[:, 1:, 1:-1] - psi[:, :-1, 1:-1]          # faces between (j,i),(j,i+1): shape K,J,I-1
        Fv_nd = -(psi[:, 1:-1, 1:] - psi[:, 1:-1, :-1])       # shape K,J-1,I
        und = Fu_nd / (Hzu * 2 / (pn[:, :-1] + pn[:, 1:])); vnd = Fv_nd / (Hzv * 2 / (pm[:-1, :] + pm[1:, :]))
        wnd = call(G, pn, pm, und, vnd, z_w, z_r)
        sc = (np.abs(Fu_nd).max() + np.abs(Fv_nd).max()) * (pm * pn).max()
        ctx.oracle(np.abs(wnd).max() <= 1e-9 * sc, "C14.nondivergent_not_zero", SITE,
                   "|w| = %r for a non-divergent transport field (transport scale %r)" % (np.abs(wnd).max(), sc), cs)
        ctx.branch("nondivergent")
        # surface convergence: outflow in the lower half, equal inflow in the upper half of one interior column
        uc = np.zeros_like(u); vc = np.zeros_like(v)
        jj, ii = J // 2, I_ // 2
        half = K // 2
        for k in range(K):
            sgn = 1.0 if k < half else -1.0 * half / (K - half)
            # east face of cell (jj,ii) carries the outflow / inflow
            uc[k, jj, ii] = sgn / (Hzu[k, jj, ii] * 2 / (pn[jj, ii] + pn[jj, ii + 1]))
        wcv = call(G, pn, pm, uc, vc, z_w, z_r)
        ctx.oracle(np.all(wcv[1:K, jj, ii] > 0), "C14.surface_convergence_not_downward", SITE,
                   "w in the column with divergence below / convergence above: %r" % wcv[:, jj, ii].tolist(), cs)
        ctx.branch("surface_convergence")
        # the same over all four faces of a random interior column, random split level and random positive outflows below /
        # inflows above it with zero column total (partial sums from the bed positive => w > 0 at every interior level)
        jj = ctx.rng.randrange(1, J - 1); ii = ctx.rng.randrange(1, I_ - 1)
        half = ctx.rng.randrange(1, K)
        out_ = np.array([ctx.rng.uniform(0.2, 1.0) for _ in range(K)])
        out_[half:] *= -out_[:half].sum() / out_[half:].sum()
        uc = np.zeros_like(u); vc = np.zeros_like(v)
        for k in range(K):
            sh = np.array([ctx.rng.uniform(0.1, 1.0) for _ in range(4)]); sh = sh / sh.sum() * out_[k]   # E, W, N, S shares of the outflow
            uc[k, jj, ii] = sh[0] / (Hzu[k, jj, ii] * 2 / (pn[jj, ii] + pn[jj, ii + 1]))
            uc[k, jj, ii - 1] = -sh[1] / (Hzu[k, jj, ii - 1] * 2 / (pn[jj, ii - 1] + pn[jj, ii]))
            vc[k, jj, ii] = sh[2] / (Hzv[k, jj, ii] * 2 / (pm[jj, ii] + pm[jj + 1, ii]))
            vc[k, jj - 1, ii] = -sh[3] / (Hzv[k, jj - 1, ii] * 2 / (pm[jj - 1, ii] + pm[jj, ii]))
        wcv = call(G, pn, pm, uc, vc, z_w, z_r)
        ctx.oracle(np.all(wcv[1:K, jj, ii] > 0), "C14.surface_convergence_not_downward", SITE,
                   "w in column (%d,%d), outflow over four faces below level %d and inflow above: %r" % (jj, ii, half, wcv[:, jj, ii].tolist()),
                   dict(cs, uc=uc, vc=vc))
        ctx.branch("surface_convergence.four_faces")
    # --- the same field given as float32, non-contiguous views (how Forcing passes U[..., 1:-1], V[:, 1:-1, :]): w is a
    # (linear) function of the field *values*, so it must agree with the float64 contiguous call on the same values.
    # Tolerance as for linearity (float32 -> float64 conversion is exact; a float32 accumulation would give ~1e-7).
    Ub = np.zeros((K, J, I_ + 1), dtype="f4"); Vb = np.zeros((K, J + 1, I_), dtype="f4")
    Ub[:, :, 1:-1] = u; Vb[:, 1:-1, :] = v
    Ub[:, :, 0] = 7.0; Ub[:, :, -1] = -7.0; Vb[:, 0, :] = 7.0; Vb[:, -1, :] = -7.0         # outer faces, not part of the field
    uv_, vv_ = Ub[:, :, 1:-1], Vb[:, 1:-1, :]
    w32 = call(G, pn, pm, uv_, vv_, z_w, z_r)
    w64 = call(G, pn, pm, np.ascontiguousarray(uv_, dtype="f8"), np.ascontiguousarray(vv_, dtype="f8"), z_w, z_r)
    err = np.abs(w32 - w64).max()
    ctx.oracle(w32.shape == w64.shape and err <= 1e-9 * (np.abs(w64).max() + 1e-30), "C14.not_linear.float32_view", SITE,
               "float32 non-contiguous field vs the same values as float64: difference %r (scale %r)" % (err, np.abs(w64).max()), cs)
    ctx.branch("float32_view")
    # --- two frames in one call (leading time axis), different currents and different levels per frame: every frame is a
    # grid/field pair of its own, so frame t must be the w of that frame's grid and field (tolerance as for linearity)
    _, _, _, _, _, z_wb, z_rb = make_grid(ctx.rng, flat, (J, I_, K))
    _, z_wb, z_rb = restyle(ctx.rng, flat, J, I_, K, z_wb, z_rb)
    if scales:
        # the second frame's levels in a depth class of their own (a frame is a grid/field pair of its own)
        fzb = draw_depth_scale(ctx.rng, ctx.rng.choice(DEPTH_CLASSES), z_wb)
        z_wb = z_wb * fzb; z_rb = z_rb * fzb
    wb = call(G, pn, pm, u2, v2, z_wb, z_rb)
    try:
        w_2f = G.compute_w(pn, pm, np.stack([u, u2]), np.stack([v, v2]), np.stack([z_w, z_wb]), np.stack([z_r, z_rb]))
        e0 = np.abs(w_2f[0] - w).max(); e1 = np.abs(w_2f[1] - wb).max()
        ctx.oracle(w_2f.shape == (2, K + 1, J, I_) and e0 <= 1e-9 * scale and e1 <= 1e-9 * (np.abs(wb).max() + 1e-30), "C14.frame_mixed", SITE,
                   "two-frame call: frame 0 differs by %r, frame 1 by %r from the single-frame results" % (e0, e1),
                   dict(cs, u2=u2, v2=v2, z_w2=z_wb, z_r2=z_rb))
        if flat:
            # frame 1 over its own flat-bottom levels: the statement's closed form (no call of compute_w), tolerance as C14.flat_identity
            want_b = flat_w_interior(pn, pm, u2, v2, z_wb)
            scb = np.abs(want_b).max() + 1e-30
            errb = np.abs(w_2f[1][:, 1:-1, 1:-1] - want_b).max() if w_2f.shape == (2, K + 1, J, I_) else np.inf
            ctx.oracle(errb <= 1e-9 * scb, "C14.flat_identity.second_frame", SITE,
                       "two-frame call, frame 1: identity error %r (scale %r)" % (errb, scb), dict(cs, u2=u2, v2=v2, z_w2=z_wb, z_r2=z_rb))
            sfb = np.abs(w_2f[1][-1]).max(); bdb = np.abs(w_2f[1][0]).max()
            ctx.oracle(bdb <= 1e-12 * scb and sfb <= 1e-9 * scb, "C14.bed_surface_not_zero.second_frame", SITE,
                       "two-frame call, frame 1: bed %r surface %r (scale %r)" % (bdb, sfb, scb), dict(cs, u2=u2, v2=v2, z_w2=z_wb, z_r2=z_rb))
    except Exception as e:
        ctx.oracle(False, "C14.compute_w.raises", SITE, "two-frame call raised %r" % (e,), dict(J=J, I=I_, K=K, style=style))
    ctx.branch("two_frames")
    # --- the caller's arrays (currents, metrics, levels) are inputs only
    same = all(np.array_equal(x, y) for x, y in zip(keep, (pn, pm, u, v, z_w, z_r)))
    ctx.oracle(same, "C14.inputs_modified", SITE, "compute_w changed one of its input arrays", dict(J=J, I=I_, K=K, style=style))
    if drv.available and use_driver:
        toks = " ".join([I(J), I(I_), I(K)] + [F(x) for arr in (pm, pn, z_w, z_r, u, v) for x in arr.ravel()])
        pend.append((drv.ask("cw.compute", toks), w, cs))


# ----------------------------------------------------------------------------- Forcing on synthetic files
def gen_forcing_case(rng):
    nx = rng.randrange(7, 12); ny = rng.randrange(7, 11); N = rng.randrange(3, 7)
    flat = rng.choice([None, None, 30.0, 75.0])
    dt = rng.choice([300, 600, 900])
    nfr = rng.randrange(4, 7)
    rel = np.concatenate([[0], np.cumsum([rng.choice([1, 2, 3]) * dt for _ in range(nfr - 1)])]).astype(int)
    mode = rng.choice(["on_frame", "on_later_frame", "between"])
    if mode == "on_frame":
        start_off = 0
    elif mode == "on_later_frame":
        start_off = int(rel[rng.randrange(1, nfr - 2)])          # frames before the start, at least two after it
    else:
        k = rng.randrange(0, nfr - 2)                            # start inside interval k: at least two frames after it
        span = int(rel[k + 1] - rel[k])
        if span > dt:
            start_off = int(rel[k]) + dt * rng.randrange(1, span // dt)
        else:
            mode = "on_frame"; start_off = 0
    ft = [int(x) - start_off for x in rel]
    tmax = ft[-1] // dt
    sched = []; t = 0 if rng.random() < 0.7 else rng.randrange(0, 3)
    while t <= tmax and len(sched) < 30:
        sched.append(int(t)); t += 1 if rng.random() < 0.75 else rng.randrange(2, 5)
    sub = None
    if rng.random() < 0.55:
        i0 = rng.randrange(1, nx - 4); i1 = rng.randrange(i0 + 4, nx)
        j0 = rng.randrange(1, ny - 4); j1 = rng.randrange(j0 + 4, ny)
        sub = [i0, i1, j0, j1]
    land = [(rng.randrange(ny), rng.randrange(nx)) for _ in range(rng.randrange(0, 4))]
    return dict(nx=nx, ny=ny, N=N, flat=flat, dt=dt, frame_times=ft, mode=mode, sched=sched, subgrid=sub, land=land)


def flat_w_interior(pn, pm, u, v, z_w):
    """The statement's flat-bottom form, written out independently of gridforce.compute_w: per layer the net outflow D of the
    layer transports Hz*u/pn, Hz*v/pm of a cell, summed from the bed, minus the depth-uniform (free-surface) part, times pm*pn.
    Interior cells only: shape (K+1, J-2, I-2)."""
    Hz = z_w[1:] - z_w[:-1]
    Hzu = 0.5 * (Hz[:, :, :-1] + Hz[:, :, 1:]); Hzv = 0.5 * (Hz[:, :-1, :] + Hz[:, 1:, :])
    Fu = Hzu * u * 2 / (pn[:, :-1] + pn[:, 1:]); Fv = Hzv * v * 2 / (pm[:-1, :] + pm[1:, :])
    D = (Fu[:, 1:-1, 1:] - Fu[:, 1:-1, :-1]) + (Fv[:, 1:, 1:-1] - Fv[:, :-1, 1:-1])
    S = np.concatenate([np.zeros((1,) + D.shape[1:]), np.cumsum(D, axis=0)])
    zz = z_w[:, 1:-1, 1:-1]
    return (pm * pn)[1:-1, 1:-1] * (S - (zz - zz[0]) / (zz[-1] - zz[0]) * S[-1])


def gen_offset_case(rng):
    """Simulation start strictly inside a forcing interval and at least two model steps after its first frame (the old
    generator only reaches 0, 1 and - rarely - 2 steps), intervals of 3..60 steps, start in the first / a middle / the last
    interval; float64, float32 or packed int16 currents; frames in one file or spread over 2-3 files (list or glob)."""
    nx = rng.randrange(7, 12); ny = rng.randrange(7, 11); N = rng.randrange(3, 7)
    flat = rng.choice([None, None, 30.0, 75.0])
    dt = rng.choice([60, 300, 600, 900])
    nfr = rng.randrange(3, 7)

    def gap():
        r = rng.random()
        return rng.randrange(1, 5) if r < 0.35 else (rng.randrange(5, 13) if r < 0.75 else rng.randrange(13, 61))
    gaps = [gap() for _ in range(nfr - 1)]                      # frame spacing in model steps
    k = rng.randrange(0, nfr - 1)                               # the interval that contains the start
    if gaps[k] < 3:
        gaps[k] = rng.randrange(3, 9)
    g = gaps[k]
    how = rng.choice(["two_after", "one_before_next", "inside", "inside"])
    m = 2 if how == "two_after" else (g - 1 if how == "one_before_next" else rng.randrange(2, g))   # steps after frame k: 2..g-1
    rel = np.concatenate([[0], np.cumsum(gaps)]).astype(int)
    fs = [int(x) - int(rel[k]) - m for x in rel]                # model step of every frame; fs[k] = -m, fs[k+1] = g - m >= 1
    ft = [s_ * dt for s_ in fs]
    tmax = fs[-1]
    sched = []; t = 0 if rng.random() < 0.8 else rng.randrange(1, 3)
    dense = min(g - m + 2, 10)
    while t <= tmax and len(sched) < 40:
        sched.append(int(t)); t += 1 if (t < dense or rng.random() < 0.5) else rng.randrange(2, 8)
    sub = None
    if rng.random() < 0.5:
        i0 = rng.randrange(1, nx - 4); i1 = rng.randrange(i0 + 4, nx)
        j0 = rng.randrange(1, ny - 4); j1 = rng.randrange(j0 + 4, ny)
        sub = [i0, i1, j0, j1]
    land = [(rng.randrange(ny), rng.randrange(nx)) for _ in range(rng.randrange(0, 4))]
    store = rng.choice(["f8", "f8", "f4", "packed"])
    pack_exp = rng.choice([14, 15, 16])
    nfiles = 1 if rng.random() < 0.6 else rng.randrange(2, min(3, nfr) + 1)
    cuts = sorted(rng.sample(range(1, nfr), nfiles - 1))       # first frame of every further file
    return dict(nx=nx, ny=ny, N=N, flat=flat, dt=dt, frame_times=ft, mode="offset." + how, offset_steps=m, interval_steps=g,
                interval=("first" if k == 0 else ("last" if k == nfr - 2 else "middle")), sched=sched, subgrid=sub, land=land,
                store=store, pack_exp=pack_exp, file_cuts=cuts, files_as=rng.choice(["list", "glob"]))


def gen_depth_case(rng):
    """A synthetic file of either family with the vertical grid and the cell sizes of another scale.  The bathymetry h of the
    file is flat at a depth of laboratory scale / below one metre / exactly one / a few metres / oceanic, or rough and scaled
    so that every column is shallower than one metre, columns lie on both sides of one metre, or all are deep.  The vertical grid
    is given the ways Grid accepts it: hc, Cs_r, Cs_w in the file with the default transform (Vtransform absent or 1; hc <=
    min h keeps the levels monotone), the same with Vtransform = 2 in the file (monotone for any hc >= 0), or the `Vinfo`
    entry of the configuration (N, hc, theta_s, theta_b, Vstretching 1 | 2 | 4, Vtransform 1 | 2)."""
    case = gen_offset_case(rng) if rng.random() < 0.5 else gen_forcing_case(rng)
    if rng.random() < 0.65:
        dcls = rng.choice(["lab_scale", "sub_metre", "sub_metre", "sub_metre", "unit_depth", "metres", "oceanic"])
        depth = {"lab_scale": lambda: log_uniform(rng, 1e-3, 5e-2), "sub_metre": lambda: log_uniform(rng, 0.05, 0.99),
                 "unit_depth": lambda: 1.0, "metres": lambda: rng.uniform(1.0, 10.0), "oceanic": lambda: rng.uniform(500.0, 5000.0)}[dcls]()
        case["flat"] = depth; hs = 1.0; hmin = depth
    else:
        # write_roms draws h = 20 + 80*r, r in [0, 1): hs*h is in [20 hs, 100 hs)
        dcls = rng.choice(["rough_below_1m", "rough_both_sides_of_1m", "rough_both_sides_of_1m", "rough_deep"])
        hs = {"rough_below_1m": lambda: log_uniform(rng, 5e-4, 9.9e-3), "rough_both_sides_of_1m": lambda: rng.uniform(0.011, 0.045),
              "rough_deep": lambda: rng.uniform(5.0, 50.0)}[dcls]()
        case["flat"] = None; hmin = 20.0 * hs
    vert = rng.choice(["file_default_transform", "file_Vtransform_1", "file_Vtransform_2", "file_Vtransform_2", "Vinfo", "Vinfo"])
    vt = 2 if vert == "file_Vtransform_2" else 1
    vinfo = None
    if vert == "Vinfo":
        vt = rng.choice([1, 2])
        vs = rng.choice([1, 1, 2, 4])
        vinfo = dict(N=case["N"], theta_s=rng.uniform(0.5, 7.0), theta_b=(rng.uniform(0.0, 1.0) if vs == 1 else rng.uniform(0.1, 2.0)),
                     Vstretching=vs, Vtransform=vt)
    hc = hmin * (rng.choice([0.0, 1.0, rng.uniform(0.05, 1.0)]) if vt == 1 else rng.choice([0.0, rng.uniform(0.05, 1.0), rng.uniform(1.0, 4.0)]))
    if vinfo is not None:
        vinfo["hc"] = hc
    ccls = rng.choice(CELL_CLASSES)
    # write_roms cells are 700..900 m; g multiplies the cell size (None: as written; 0: unit cells pm = pn = 1)
    g = {"as_generated": None, "unit_cells": 0.0, "lab_cells": log_uniform(rng, 1e-5, 1e-3), "metre_cells": log_uniform(rng, 1.5e-3, 2.5e-2),
         "coarse_cells": log_uniform(rng, 6.0, 60.0)}[ccls]
    case.update(mode="depth." + case["mode"], depth_class=dcls, h_scale=hs, vert=vert, Vtransform=vt, hc=hc, Vinfo=vinfo, cell_class=ccls, cell_factor=g)
    return case


def apply_depth_options(path, out, case):
    """Rewrite h, hc (and Vtransform, pm, pn) of the grid file written by romsfile.write_roms as the case says; `out` (what the
    harness knows was written) is updated alike."""
    import netCDF4
    ds = netCDF4.Dataset(path, "a")
    h = np.asarray(out["h"], dtype=float) * case["h_scale"]
    ds.variables["h"][:] = h; out["h"] = h
    ds.variables["hc"][...] = case["hc"]; out["hc"] = case["hc"]
    if case["vert"] in ("file_Vtransform_1", "file_Vtransform_2"):
        v = ds.createVariable("Vtransform", "i4", ()); v[...] = case["Vtransform"]
    g = case["cell_factor"]
    if g is not None:
        pm = np.ones_like(out["pm"]) if g == 0.0 else out["pm"] / g
        pn = np.ones_like(out["pn"]) if g == 0.0 else out["pn"] / g
        ds.variables["pm"][:] = pm; ds.variables["pn"][:] = pn
        out["pm"] = pm; out["pn"] = pn
    ds.close()


def forcing_cases(ctx, G):
    tmp = tempfile.mkdtemp(prefix="verif_c14_")
    try:
        for c in range(ctx.n(12, 300)):
            run_forcing_case(ctx, G, tmp, c, gen_forcing_case(ctx.rng), sample=c < 1)
        # start deep inside a forcing interval (>= 2 steps after the earlier frame), long intervals, float32 / packed currents,
        # frames spread over several files
        for c in range(ctx.n(24, 400)):
            run_forcing_case(ctx, G, tmp, 100000 + c, gen_offset_case(ctx.rng), sample=c < 1)
        # other total depths (down to millimetres, up to kilometres; flat or rough), the vertical grid given through the file
        # (either transform) or through Vinfo, other cell sizes; both start / schedule families
        for c in range(ctx.n(30, 500)):
            run_forcing_case(ctx, G, tmp, 200000 + c, gen_depth_case(ctx.rng), sample=c < 1)
    finally:
        shutil.rmtree(tmp, ignore_errors=True)


def run_forcing_case(ctx, G, tmp, c, case, sample=False):
    from . import romsfile
    nx, ny, N, dt, ft, sched = case["nx"], case["ny"], case["N"], case["dt"], case["frame_times"], case["sched"]
    mask = np.ones((ny, nx))
    for (j, i) in case["land"]:
        mask[j, i] = 0
    t0 = np.datetime64("2015-09-07T01:00:00")
    store = case.get("store", "f8")
    # packed currents: int16 with a power-of-two scale_factor and offset 0, so that the decoded value raw*scale is the
    # same number in float32 and float64 (the reference below uses the decoded values, not the decoding)
    pack = dict(u=(2.0 ** -case["pack_exp"], 0.0), v=(2.0 ** -case["pack_exp"], 0.0)) if store == "packed" else None
    bounds = [0] + list(case.get("file_cuts", [])) + [len(ft)]
    paths = []; outs = []
    for n_ in range(len(bounds) - 1):
        path = os.path.join(tmp, "f%d_%d.nc" % (c, n_))
        o = romsfile.write_roms(path, ctx.rng, nx=nx, ny=ny, N=N, frame_times=ft[bounds[n_]:bounds[n_ + 1]], t0=str(t0).replace("T", " "),
                                fields=(), mask=mask, flat=case["flat"], write_grid=(n_ == 0), dtype=("f4" if store == "f4" else "f8"), pack=pack)
        paths.append(path); outs.append(o)
    if "depth_class" in case:
        apply_depth_options(paths[0], outs[0], case)
    out = dict(outs[0])
    out["u"] = np.concatenate([np.asarray(o["u"], dtype=float) for o in outs]); out["v"] = np.concatenate([np.asarray(o["v"], dtype=float) for o in outs])
    if len(paths) == 1:
        input_file = paths[0]
    else:
        input_file = list(paths) if case.get("files_as") == "list" else os.path.join(tmp, "f%d_*.nc" % c)
    conf = dict(gridforce=dict(input_file=input_file), start_time=t0, stop_time=t0 + np.timedelta64(int(ft[-1]), "s"), dt=dt, ibm_forcing=[])
    if case["subgrid"] is not None:
        conf["gridforce"]["subgrid"] = list(case["subgrid"])
    if case.get("Vinfo") is not None:
        conf["gridforce"]["Vinfo"] = dict(case["Vinfo"])
    cs = dict(case=case)
    ctx.case(key=("forcing", repr(case)), nontrivial=True, sample=case if sample else None)
    ctx.branch("forcing.start." + case["mode"]); ctx.branch("forcing.subgrid" if case["subgrid"] else "forcing.whole_grid")
    ctx.branch("forcing.flat" if case["flat"] is not None else "forcing.rough")
    ctx.branch("forcing.store." + store); ctx.branch("forcing.files.%s" % ("one" if len(paths) == 1 else case.get("files_as")))
    if "offset_steps" in case:
        ctx.size("forcing.offset_steps", case["offset_steps"]); ctx.size("forcing.interval_steps", case["interval_steps"])
        ctx.branch("forcing.start_interval." + case["interval"])
    try:
        g = G.Grid(conf); f = G.Forcing(conf, g)
    except (Exception, SystemExit) as e:
        ctx.oracle(False, "C14.forcing.raises", SITE_F, "Grid/Forcing construction raised %r" % (e,), cs); return
    i0, i1, j0, j1 = g.i0, g.i1, g.j0, g.j1
    if "depth_class" in case:
        T = np.asarray(g.z_w[-1] - g.z_w[0], dtype=float)
        ctx.branch("forcing.depth_class." + case["depth_class"]); ctx.branch("forcing.depth." + depth_tag(np.asarray(g.z_w, dtype=float)))
        ctx.branch("forcing.vertical_grid." + case["vert"]); ctx.branch("forcing.Vtransform.%d" % case["Vtransform"])
        ctx.branch("forcing.cells." + case["cell_class"])
        if case["Vinfo"] is not None:
            ctx.branch("forcing.Vinfo.Vstretching.%d" % case["Vinfo"]["Vstretching"])
        # the generator's claim that these are monotone stretchings (inside the quantifier), checked on the levels themselves
        zw_ = np.asarray(g.z_w, dtype=float); zr_ = np.asarray(g.z_r, dtype=float)
        mono = bool(np.all(zw_[1:] > zw_[:-1]) and np.all(zr_ > zw_[:-1]) and np.all(zr_ < zw_[1:]))
        if not mono:
            ctx.note("C14 depth family: generated levels not monotone, case skipped: %r" % (case,)); ctx.branch("forcing.depth.skipped_not_monotone")
            f.close(); return
    # the sub-grid's own arrays, cut from what was written to the file (independent of Grid/Forcing's slicing):
    # rho cells j0..j1-1 x i0..i1-1; u-faces between two of those cells; currents zero on faces touching land
    M = out["mask_rho"]
    pm_s = out["pm"][j0:j1, i0:i1]; pn_s = out["pn"][j0:j1, i0:i1]
    u_fr = (out["u"] * (M[:, :-1] * M[:, 1:])[None, None])[:, :, j0:j1, i0:i1 - 1]
    v_fr = (out["v"] * (M[:-1, :] * M[1:, :])[None, None])[:, :, j0:j1 - 1, i0:i1]
    z_w, z_r = g.z_w, g.z_r
    flat = case["flat"] is not None
    fsteps = [x // dt for x in ft]                      # dt-aligned frames: the model step of every frame, exactly
    w_fr = {}; wflat_fr = {}

    def frame_w(fr):
        if fr not in w_fr:
            w_fr[fr] = call(G, pn_s, pm_s, u_fr[fr], v_fr[fr], z_w, z_r)
        return w_fr[fr]

    def frame_wflat(fr):
        if fr not in wflat_fr:
            wflat_fr[fr] = flat_w_interior(pn_s, pm_s, u_fr[fr], v_fr[fr], z_w)
        return wflat_fr[fr]
    try:
        for t in sched:
            f.update(t)
            W = f.W
            cst = dict(cs, step=t)
            shape_ok = W.shape == (N + 1, j1 - j0, i1 - i0)
            ctx.oracle(shape_ok and bool(np.all(np.isfinite(W))), "C14.forcing.shape_or_not_finite", SITE_F, "step %d: W shape %r" % (t, W.shape), cst)
            if not shape_ok:
                break
            lat = np.abs(W[:, 0, :]).max() + np.abs(W[:, -1, :]).max() + np.abs(W[:, :, 0]).max() + np.abs(W[:, :, -1]).max()
            ctx.oracle(lat == 0, "C14.forcing.lateral_not_zero", SITE_F, "step %d: lateral boundary values %r" % (t, lat), cst)
            # the served vertical velocity is the one derived from the served currents (on the sub-grid's interior
            # faces, with the sub-grid's own pm, pn).  By linearity the time-interpolated W equals w of the
            # time-interpolated currents; float64 file, so only rounding of the accumulated increments: 1e-9 relative.
            # (float32 / packed files: the served currents accumulate one float32 rounding per step while W is kept
            # in float64, so this comparison is left to the closed-form references below, which are exact for them.)
            if store == "f8":
                ref = call(G, pn_s, pm_s, np.asarray(f.U)[:, :, 1:-1], np.asarray(f.V)[:, 1:-1, :], z_w, z_r)
                sc = np.abs(ref).max() + 1e-30
                err = np.abs(W - ref).max()
                ctx.oracle(err <= 1e-9 * sc, "C14.forcing.W_not_w_of_currents", SITE_F,
                           "step %d: Forcing.W differs by %r (scale %r) from compute_w of the served currents" % (t, err, sc), cst)
            if t * dt in ft:
                fr = ft.index(t * dt)
                ref = call(G, pn_s, pm_s, u_fr[fr], v_fr[fr], z_w, z_r)
                sc = np.abs(ref).max() + 1e-30
                err = np.abs(W - ref).max()
                ctx.oracle(err <= 1e-9 * sc, "C14.forcing.W_not_w_of_frame", SITE_F,
                           "step %d coincides with frame %d: Forcing.W differs by %r (scale %r) from compute_w of the file's currents on "
                           "the sub-grid" % (t, fr, err, sc), cst)
                ctx.branch("forcing.step_on_frame")
            else:
                ctx.branch("forcing.step_between_frames")
            # --- the currents of model step t are the file's frames interpolated linearly in time (closed form, from the
            # file's own numbers: frame ka at step fsteps[ka] <= t < fsteps[ka+1], weight al); w is linear in the currents,
            # so the vertical velocity of step t is the same interpolation of the two frames' vertical velocities.
            # Tolerance: W is float64 and is advanced by <= 60 float64 increments per interval (each rounding <= 2^-53 of
            # the frames' scale); the frames' own values enter exactly (float32 -> float64 is exact): 1e-9 of the scale.
            ka = max(q for q in range(len(fsteps)) if fsteps[q] <= t)
            ka = min(ka, len(fsteps) - 2)
            al = (t - fsteps[ka]) / float(fsteps[ka + 1] - fsteps[ka])
            wa, wb_ = frame_w(ka), frame_w(ka + 1)
            Wexp = wa + al * (wb_ - wa)
            scf = max(np.abs(wa).max(), np.abs(wb_).max()) + 1e-30
            err = np.abs(W - Wexp).max()
            ctx.oracle(err <= 1e-9 * scf, "C14.forcing.W_not_linear_in_time_interpolated_currents", SITE_F,
                       "step %d (frames %d,%d at steps %d,%d, weight %r): Forcing.W differs by %r (scale %r) from the interpolation of the "
                       "two frames' vertical velocities" % (t, ka, ka + 1, fsteps[ka], fsteps[ka + 1], al, err, scf), cst)
            if flat:
                # flat bottom: the statement's closed form (no call of compute_w at all) on the time-interpolated file currents
                fa, fb = frame_wflat(ka), frame_wflat(ka + 1)
                Fexp = fa + al * (fb - fa)
                scf2 = max(np.abs(fa).max(), np.abs(fb).max()) + 1e-30
                err = np.abs(W[:, 1:-1, 1:-1] - Fexp).max()
                ctx.oracle(err <= 1e-9 * scf2, "C14.forcing.flat_identity", SITE_F,
                           "step %d (frames %d,%d, weight %r): Forcing.W differs by %r (scale %r) from the column-integrated divergence of the "
                           "layer transports of the step's currents, free-surface part removed" % (t, ka, ka + 1, al, err, scf2), cst)
                ctx.branch("forcing.flat_identity")
            if fsteps[ka] < 0:
                ctx.branch("forcing.step_in_start_interval")
            elif "offset_steps" in case:
                ctx.branch("forcing.step_after_start_interval")
            if flat:
                sc = np.abs(W).max() + 1e-30
                ctx.oracle(np.abs(W[0]).max() <= 1e-12 * sc and np.abs(W[-1]).max() <= 1e-9 * sc, "C14.forcing.bed_surface_not_zero", SITE_F,
                           "step %d: bed %r surface %r (scale %r)" % (t, np.abs(W[0]).max(), np.abs(W[-1]).max(), sc), cst)
            # sampling at nodes: the vertical velocity served at a grid node on a w-level is W there (same sign)
            for _ in range(3):
                jn = ctx.rng.randrange(0, j1 - j0); in_ = ctx.rng.randrange(0, i1 - i0); kn = ctx.rng.randrange(0, N + 1)
                X = np.array([float(in_ + i0)]); Y = np.array([float(jn + j0)]); Z = np.array([-float(z_w[kn, jn, in_])])
                try:
                    val = float(np.asarray(f.wvel(X, Y, Z))[0])
                except Exception as e:
                    ctx.oracle(False, "C14.forcing.wvel_raises", SITE_W, "step %d: wvel raised %r" % (t, e), dict(cst, node=(kn, jn, in_)))
                    continue
                ctx.oracle(val == float(W[kn, jn, in_]), "C14.forcing.wvel_not_W_at_node", SITE_W,
                           "step %d: wvel at node (k=%d,j=%d,i=%d) = %r, W there = %r" % (t, kn, jn, in_, val, float(W[kn, jn, in_])),
                           dict(cst, node=(kn, jn, in_), X=X[0], Y=Y[0], Z=Z[0]))
                # ... and it is the vertical velocity of the step's currents there (tolerance as above)
                ctx.oracle(abs(val - float(Wexp[kn, jn, in_])) <= 1e-9 * scf, "C14.forcing.wvel_not_w_of_step_currents", SITE_W,
                           "step %d: wvel at node (k=%d,j=%d,i=%d) = %r, vertical velocity of the step's (time-interpolated) currents there = %r "
                           "(scale %r)" % (t, kn, jn, in_, val, float(Wexp[kn, jn, in_]), scf), dict(cst, node=(kn, jn, in_), X=X[0], Y=Y[0], Z=Z[0]))
            ctx.branch("forcing.steps")
    except Exception as e:
        ctx.oracle(False, "C14.forcing.raises", SITE_F, "update / compute_w raised %r (schedule %r)" % (e, sched), cs)
    try:
        f.close()
    except Exception:
        pass


def shipped_offset_starts(ctx, G, path):
    """The shipped file (frames 01:00, 02:00, 03:00; dt = 60 s: 60 steps per interval) with the simulation starting 0..59 steps
    after the first frame, whole grid or a sub-grid; Forcing.W over a history of updates against the time interpolation of the
    frames' vertical velocities.  The frames' currents are read here from the file (int16 * scale_factor in float64, zero on
    faces touching land), not taken from the Forcing object."""
    import netCDF4
    nc = netCDF4.Dataset(path); nc.set_auto_maskandscale(False)
    M = np.asarray(nc.variables["mask_rho"][:], dtype=float)
    pm = np.asarray(nc.variables["pm"][:], dtype=float); pn = np.asarray(nc.variables["pn"][:], dtype=float)
    u_all = np.asarray(nc.variables["u"][:], dtype=float) * float(nc.variables["u"].scale_factor)
    v_all = np.asarray(nc.variables["v"][:], dtype=float) * float(nc.variables["v"].scale_factor)
    nc.close()
    u_all = u_all * (M[:, :-1] * M[:, 1:])[None, None]; v_all = v_all * (M[:-1, :] * M[1:, :])[None, None]
    ny, nx = M.shape
    t_first = np.datetime64("2015-09-07T01:00:00")
    offs = [2, 59, ctx.rng.randrange(3, 59)] + [ctx.rng.randrange(0, 60) for _ in range(ctx.n(2, 30))]
    for mm in offs:
        sub = None
        if ctx.rng.random() < 0.4:
            i0 = ctx.rng.randrange(1, nx - 5); i1 = ctx.rng.randrange(i0 + 4, nx)
            j0 = ctx.rng.randrange(1, ny - 5); j1 = ctx.rng.randrange(j0 + 4, ny)
            sub = [i0, i1, j0, j1]
        fs = [-mm, 60 - mm, 120 - mm]
        sched = sorted(set([0, 1, 2, 3, 59 - mm, 60 - mm, 61 - mm, 120 - mm] + [ctx.rng.randrange(0, 121 - mm) for _ in range(6)]))
        sched = [t for t in sched if 0 <= t <= 120 - mm]
        conf = dict(gridforce=dict(input_file=path), start_time=t_first + np.timedelta64(60 * mm, "s"),
                    stop_time=np.datetime64("2015-09-07T03:00:00"), dt=60, ibm_forcing=[])
        if sub is not None:
            conf["gridforce"]["subgrid"] = list(sub)
        cs = dict(file="forcing.nc", start_offset_steps=mm, subgrid=sub, sched=sched)
        ctx.case(key=("shipped.offset", mm, repr(sub), tuple(sched)), nontrivial=True)
        ctx.branch("shipped_forcing.start_offset." + ("on_frame" if mm == 0 else ("one_step" if mm == 1 else "two_or_more_steps")))
        ctx.branch("shipped_forcing.subgrid" if sub else "shipped_forcing.whole_grid"); ctx.size("shipped.offset_steps", mm)
        grid = G.Grid(conf); forc = G.Forcing(conf, grid)
        i0, i1, j0, j1 = grid.i0, grid.i1, grid.j0, grid.j1
        pm_s = pm[j0:j1, i0:i1]; pn_s = pn[j0:j1, i0:i1]
        w_fr = [call(G, pn_s, pm_s, u_all[q][:, j0:j1, i0:i1 - 1], v_all[q][:, j0:j1 - 1, i0:i1], grid.z_w, grid.z_r) for q in range(3)]
        for t in sched:
            forc.update(t)
            W = forc.W
            ka = 0 if t < fs[1] else 1
            al = (t - fs[ka]) / 60.0
            Wexp = w_fr[ka] + al * (w_fr[ka + 1] - w_fr[ka])
            scf = max(np.abs(w_fr[ka]).max(), np.abs(w_fr[ka + 1]).max()) + 1e-30
            err = np.abs(W - Wexp).max() if W.shape == Wexp.shape else np.inf
            # tolerance: Forcing decodes the int16 currents in float32 (float32(0.001) is 0.001*(1 + 4.7e-8), the product is
            # rounded to float32: 6e-8 relative per value, amplified in w by the ratio current/divergence); W itself is float64.
            # Measured 8.8e-8 of the frames' scale for every offset; 1e-5 as for C14.shipped.W_not_w_of_currents.
            ctx.oracle(err <= 1e-5 * scf, "C14.shipped.W_not_linear_in_time_interpolated_currents", SITE_F,
                       "start %d steps after the first frame, step %d (weight %r between frames %d,%d): Forcing.W differs by %r (scale %r) from the "
                       "interpolation of the two frames' vertical velocities" % (mm, t, al, ka, ka + 1, err, scf), dict(cs, step=t))
            ref = call(G, pn_s, pm_s, np.asarray(forc.U)[:, :, 1:-1], np.asarray(forc.V)[:, 1:-1, :], grid.z_w, grid.z_r)
            sc = np.abs(ref).max() + 1e-30
            err = np.abs(W - ref).max() if W.shape == ref.shape else np.inf
            ctx.oracle(err <= 1e-5 * sc, "C14.shipped.W_not_w_of_currents", SITE_F,
                       "start %d steps after the first frame, step %d: Forcing.W differs by %r (scale %r) from compute_w of the served currents"
                       % (mm, t, err, sc), dict(cs, step=t))
        forc.close()


def run(ctx):
    G = importlib.import_module("ladim_plugins.chemicals.gridforce")
    drv = Driver()
    if getattr(ctx, "widened", False):
        drv.available = False
    pend = []
    for c in range(ctx.n(60, 1000)):
        dims = None
        if ctx.rng.random() < 0.125:
            dims = (ctx.rng.randrange(8, 13), ctx.rng.randrange(8, 13), ctx.rng.randrange(7, 13))
        check_case(ctx, G, drv, pend, c, dims)
    # a few larger grids, implementation-side oracles only (the cell-by-cell model evaluation is slow there)
    for c in range(ctx.n(1, 20)):
        dims = (ctx.rng.randrange(14, 25), ctx.rng.randrange(14, 25), ctx.rng.randrange(13, 36))
        check_case(ctx, G, drv, pend, 1000 + c, dims, use_driver=False, np_fields=True)
    # the same oracles (and the model, on the small grids) with the levels brought to other total depths - laboratory scale,
    # below one metre, exactly one, around one metre, metres, abyssal - and the metrics to other cell sizes
    for c in range(ctx.n(48, 900)):
        dims = None
        if ctx.rng.random() < 0.125:
            dims = (ctx.rng.randrange(8, 13), ctx.rng.randrange(8, 13), ctx.rng.randrange(7, 13))
        check_case(ctx, G, drv, pend, 2000 + c, dims, scales=True)
    for c in range(ctx.n(1, 20)):
        dims = (ctx.rng.randrange(14, 25), ctx.rng.randrange(14, 25), ctx.rng.randrange(13, 36))
        check_case(ctx, G, drv, pend, 3000 + c, dims, use_driver=False, np_fields=True, scales=True)
    # Forcing on synthetic files
    forcing_cases(ctx, G)
    # the method on the shipped forcing file
    try:
        import netCDF4
        have_nc = True
    except ImportError as e:
        have_nc = False
        ctx.note("netCDF4 missing, shipped forcing file not used: %r" % (e,))
    if have_nc:
        try:
            chem_dir = G.__file__.rsplit("/", 1)[0]
            conf = dict(gridforce=dict(input_file=chem_dir + "/forcing.nc"), start_time=np.datetime64("2015-09-07T01:00:00"),
                        stop_time=np.datetime64("2015-09-07T01:05:00"), dt=60, ibm_forcing=[])
            grid = G.Grid(conf); forc = G.Forcing(conf, grid)
            forc._remaining_initialization()
            W = forc.W
            ctx.case(key=("shipped",), nontrivial=True); ctx.branch("shipped_forcing")
            ctx.oracle(bool(np.all(np.isfinite(W))) and np.abs(W[:, 0, :]).max() == 0, "C14.shipped.not_finite", SITE, "W on the shipped file", dict(file="forcing.nc"))
            forc.close()
            # the same file through update(): steps inside the first interval, on the later frames (steps 60, 120) and after one
            conf["stop_time"] = np.datetime64("2015-09-07T03:00:00")
            grid = G.Grid(conf); forc = G.Forcing(conf, grid)
            pm_s = 1.0 / grid.dx; pn_s = 1.0 / grid.dy
            for t in (0, 1, 2, 3, 4, 60, 61, 120):
                forc.update(t)
                W = forc.W
                ctx.case(key=("shipped", t), nontrivial=True); ctx.branch("shipped_forcing.update")
                lat = np.abs(W[:, 0, :]).max() + np.abs(W[:, -1, :]).max() + np.abs(W[:, :, 0]).max() + np.abs(W[:, :, -1]).max()
                ctx.oracle(bool(np.all(np.isfinite(W))) and lat == 0, "C14.shipped.lateral_or_not_finite", SITE_F,
                           "step %d: lateral boundary values %r" % (t, lat), dict(file="forcing.nc", step=t))
                # float32 currents: U += dU rounds to float32 at every step (6e-8 relative each), W accumulates in float64;
                # the divergence amplifies that by the ratio current/divergence: 1e-5 relative to the W scale
                ref = call(G, pn_s, pm_s, np.asarray(forc.U)[:, :, 1:-1], np.asarray(forc.V)[:, 1:-1, :], grid.z_w, grid.z_r)
                sc = np.abs(ref).max() + 1e-30
                err = np.abs(W - ref).max()
                ctx.oracle(err <= 1e-5 * sc, "C14.shipped.W_not_w_of_currents", SITE_F,
                           "step %d: Forcing.W differs by %r (scale %r) from compute_w of the served currents" % (t, err, sc), dict(file="forcing.nc", step=t))
            forc.close()
            shipped_offset_starts(ctx, G, chem_dir + "/forcing.nc")
        except (Exception, SystemExit) as e:
            ctx.oracle(False, "C14.shipped.raises", SITE_F, "Grid / Forcing on the shipped forcing file raised %r" % (e,), dict(file="forcing.nc"))
    if drv.available:
        rep = drv.run()
        for j, w, cs in pend:
            st, t = rep[j]
            if st != "ok":
                ctx.disagreement("compute_w", "driver error %r" % (t,), dict(J=cs["J"])); continue
            m = np.array([unF(x) for x in t]).reshape(w.shape)
            bad = [(idx, float(w[idx]), float(m[idx])) for idx in np.ndindex(w.shape) if not same_bits(w[idx], m[idx])]
            ctx.bit_exact += w.size
            if bad:
                ctx.disagreement("compute_w", "%d of %d values differ, first %r" % (len(bad), w.size, bad[0]), cs)


def replay(payload):
    print("predicate:", payload.get("predicate"), "|", payload.get("detail"))
    return False
