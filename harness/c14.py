"""C14 — the diagnosed vertical velocity satisfies continuity.

Correspondence: real `gridforce.compute_w(pn, pm, u, v, z_w, z_r)` on synthetic grids against the
cell-by-cell Lean model (bit-exact: same operation order).  Oracle on the implementation: linearity,
zero lateral boundary, flat-bottom identity, zero at bed and surface, zero for non-divergent transports,
positive under surface convergence; `Forcing.compute_w` on the shipped chemicals forcing file."""
import importlib
import numpy as np
from .common import Driver, F, I, unF, same_bits

RULE = ("grids J,I in 4..7, K in 3..6, random monotone stretchings, uniform or varying positive pm/pn, flat and rough "
        "bathymetry, random velocity fields, analytic non-divergent transports and surface-convergent columns. "
        "Non-trivial: every grid/field pair.")
ASSUMPTIONS = ["linearity / identities compared with 1e-9 relative tolerance to the field scale; model vs implementation bit-exact"]
SITE = "ladim_plugins/chemicals/gridforce.py::compute_w"


def make_grid(rng, flat):
    J = rng.randrange(4, 8); I_ = rng.randrange(4, 8); K = rng.randrange(3, 7)
    if rng.random() < 0.5:
        pm = np.full((J, I_), 1.0 / rng.choice([160.0, 800.0])); pn = np.full((J, I_), 1.0 / rng.choice([160.0, 800.0]))
    else:
        pm = 1.0 / (500.0 + 300.0 * np.array([[rng.random() for _ in range(I_)] for _ in range(J)]))
        pn = 1.0 / (500.0 + 300.0 * np.array([[rng.random() for _ in range(I_)] for _ in range(J)]))
    H = np.full((J, I_), rng.choice([20.0, 100.0])) if flat else 20.0 + 80.0 * np.array([[rng.random() for _ in range(I_)] for _ in range(J)])
    sw = np.sort(np.array([0.0, 1.0] + [rng.random() for _ in range(K - 1)]))   # 0..1, K+1 levels
    sr = 0.5 * (sw[:-1] + sw[1:]) + 0.0
    if rng.random() < 0.5:
        sr = sw[:-1] + (sw[1:] - sw[:-1]) * np.array([rng.uniform(0.2, 0.8) for _ in range(K)])
    z_w = -H[None, :, :] * (1.0 - sw)[:, None, None]
    z_r = -H[None, :, :] * (1.0 - sr)[:, None, None]
    return J, I_, K, pm, pn, z_w, z_r


def rand_uv(rng, K, J, I_):
    u = np.array([[[rng.uniform(-1, 1) for _ in range(I_ - 1)] for _ in range(J)] for _ in range(K)])
    v = np.array([[[rng.uniform(-1, 1) for _ in range(I_)] for _ in range(J - 1)] for _ in range(K)])
    return u, v


def call(G, pn, pm, u, v, z_w, z_r):
    return G.compute_w(pn, pm, u[None], v[None], z_w[None], z_r[None])[0]


def run(ctx):
    G = importlib.import_module("ladim_plugins.chemicals.gridforce")
    drv = Driver()
    if getattr(ctx, "widened", False):
        drv.available = False
    pend = []
    for c in range(ctx.n(60, 1000)):
        flat = ctx.rng.random() < 0.6
        J, I_, K, pm, pn, z_w, z_r = make_grid(ctx.rng, flat)
        u, v = rand_uv(ctx.rng, K, J, I_)
        cs = dict(J=J, I=I_, K=K, flat=flat, pm=pm, pn=pn, z_w=z_w, z_r=z_r, u=u, v=v)
        ctx.case(key=(J, I_, K, flat, float(u.sum()), float(pm.sum())), nontrivial=True, sample=dict(J=J, I=I_, K=K, flat=flat) if c < 3 else None)
        ctx.branch("flat" if flat else "rough"); ctx.size("K", K)
        try:
            w = call(G, pn, pm, u, v, z_w, z_r)
        except Exception as e:
            ctx.oracle(False, "C14.compute_w.raises", SITE, "raised %r" % (e,), dict(J=J, I=I_, K=K)); continue
        scale = np.abs(w).max() + 1e-30
        ctx.oracle(w.shape == (K + 1, J, I_), "C14.shape", SITE, "shape %r" % (w.shape,), dict(J=J, I=I_, K=K))
        # lateral boundary
        lat = np.abs(w[:, 0, :]).max() + np.abs(w[:, -1, :]).max() + np.abs(w[:, :, 0]).max() + np.abs(w[:, :, -1]).max()
        ctx.oracle(lat == 0, "C14.lateral_not_zero", SITE, "lateral boundary values %r" % lat, cs)
        # linearity
        u2, v2 = rand_uv(ctx.rng, K, J, I_)
        a, b = ctx.rng.uniform(-2, 2), ctx.rng.uniform(-2, 2)
        w2 = call(G, pn, pm, u2, v2, z_w, z_r)
        wc = call(G, pn, pm, a * u + b * u2, a * v + b * v2, z_w, z_r)
        err = np.abs(wc - (a * w + b * w2)).max()
        ctx.oracle(err <= 1e-9 * (np.abs(wc).max() + scale), "C14.not_linear", SITE, "linearity error %r (scale %r)" % (err, scale), cs)
        if flat:
            ctx.oracle(np.abs(w[0]).max() <= 1e-12 * scale and np.abs(w[-1]).max() <= 1e-9 * scale, "C14.bed_surface_not_zero", SITE,
                       "bed %r surface %r (scale %r)" % (np.abs(w[0]).max(), np.abs(w[-1]).max(), scale), cs)
            # flat-bottom identity with independently computed transports
            Hz = z_w[1:] - z_w[:-1]
            Hzu = 0.5 * (Hz[:, :, :-1] + Hz[:, :, 1:]); Hzv = 0.5 * (Hz[:, :-1, :] + Hz[:, 1:, :])
            Fu = Hzu * u * 2 / (pn[:, :-1] + pn[:, 1:]); Fv = Hzv * v * 2 / (pm[:-1, :] + pm[1:, :])
            D = (Fu[:, 1:-1, 1:] - Fu[:, 1:-1, :-1]) + (Fv[:, 1:, 1:-1] - Fv[:, :-1, 1:-1])      # net outflow per layer, interior cells
            S = np.concatenate([np.zeros((1,) + D.shape[1:]), np.cumsum(D, axis=0)])
            zz = z_w[:, 1:-1, 1:-1]
            want = (pm * pn)[1:-1, 1:-1] * (S - (zz - zz[0]) / (zz[-1] - zz[0]) * S[-1])
            err = np.abs(w[:, 1:-1, 1:-1] - want).max()
            ctx.oracle(err <= 1e-9 * scale, "C14.flat_identity", SITE, "identity error %r (scale %r)" % (err, scale), cs)
            # non-divergent transports: stream function psi at corners -> Fu = d psi/dy, Fv = -d psi/dx
            psi = np.array([[[ctx.rng.uniform(-1, 1) for _ in range(I_ + 1)] for _ in range(J + 1)] for _ in range(K)])
            Fu_nd = psi[:, 1:, 1:-1] - psi[:, :-1, 1:-1]          # faces between (j,i),(j,i+1): shape K,J,I-1
            Fv_nd = -(psi[:, 1:-1, 1:] - psi[:, 1:-1, :-1])       # shape K,J-1,I
            und = Fu_nd / (Hzu * 2 / (pn[:, :-1] + pn[:, 1:])); vnd = Fv_nd / (Hzv * 2 / (pm[:-1, :] + pm[1:, :]))
            wnd = call(G, pn, pm, und, vnd, z_w, z_r)
            sc = (np.abs(Fu_nd).max() + np.abs(Fv_nd).max()) * (pm * pn).max()
            ctx.oracle(np.abs(wnd).max() <= 1e-9 * sc, "C14.nondivergent_not_zero", SITE,
                       "|w| = %r for a non-divergent transport field (transport scale %r)" % (np.abs(wnd).max(), sc), cs)
            ctx.branch("nondivergent")
            # surface convergence: outflow in the lower half, equal inflow in the upper half of one interior column
            uc = np.zeros_like(u); vc = np.zeros_like(v)
            jj, ii = J // 2, I_ // 2
            half = K // 2
            for k in range(K):
                sgn = 1.0 if k < half else -1.0 * half / (K - half)
                # east face of cell (jj,ii) carries the outflow / inflow
                uc[k, jj, ii] = sgn / (Hzu[k, jj, ii] * 2 / (pn[jj, ii] + pn[jj, ii + 1]))
            wcv = call(G, pn, pm, uc, vc, z_w, z_r)
            ctx.oracle(np.all(wcv[1:K, jj, ii] > 0), "C14.surface_convergence_not_downward", SITE,
                       "w in the column with divergence below / convergence above: %r" % wcv[:, jj, ii].tolist(), cs)
            ctx.branch("surface_convergence")
        if drv.available:
            toks = " ".join([I(J), I(I_), I(K)] + [F(x) for arr in (pm, pn, z_w, z_r, u, v) for x in arr.ravel()])
            pend.append((drv.ask("cw.compute", toks), w, cs))
    # the method on the shipped forcing file
    try:
        import netCDF4
        chem_dir = G.__file__.rsplit("/", 1)[0]
        conf = dict(gridforce=dict(input_file=chem_dir + "/forcing.nc"), start_time=np.datetime64("2015-09-07T01:00:00"),
                    stop_time=np.datetime64("2015-09-07T01:05:00"), dt=60, ibm_forcing=[])
        grid = G.Grid(conf); forc = G.Forcing(conf, grid)
        forc._remaining_initialization()
        W = forc.W
        ctx.case(key=("shipped",), nontrivial=True); ctx.branch("shipped_forcing")
        ctx.oracle(bool(np.all(np.isfinite(W))) and np.abs(W[:, 0, :]).max() == 0, "C14.shipped.not_finite", SITE, "W on the shipped file", dict(file="forcing.nc"))
        forc.close()
    except Exception as e:
        ctx.note("shipped forcing file not usable for Forcing.compute_w: %r" % (e,))
    if drv.available:
        rep = drv.run()
        for j, w, cs in pend:
            st, t = rep[j]
            if st != "ok":
                ctx.disagreement("compute_w", "driver error %r" % (t,), dict(J=cs["J"])); continue
            m = np.array([unF(x) for x in t]).reshape(w.shape)
            bad = [(idx, float(w[idx]), float(m[idx])) for idx in np.ndindex(w.shape) if not same_bits(w[idx], m[idx])]
            ctx.bit_exact += w.size
            if bad:
                ctx.disagreement("compute_w", "%d of %d values differ, first %r" % (len(bad), w.size, bad[0]), cs)


def replay(payload):
    print("predicate:", payload.get("predicate"), "|", payload.get("detail"))
    return False
