"""
Stub grid / forcing objects with *analytic* fields that are mirrored one-to-one by the Lean driver
(`Driver/*.lean :: EnvSpec`), and helpers that build the real `ladim.state.State`.

All stub fields use only + - * and comparisons so that numpy and Lean's `Float` agree bit for bit.
"""
import numpy as np
from .common import F, I, B


class Obj:
    def __init__(self, **kw):
        self.__dict__.update(kw)

    def __getitem__(self, k):
        return getattr(self, k)

    def __setitem__(self, k, v):
        setattr(self, k, v)


class NumState:
    """State stub of the repository's own unit tests: arrays keep their dtype (so `active` can hold 0/1/2)."""

    def __init__(self, **kw):
        self.__dict__["_d"] = dict(kw)

    def __getattr__(self, k):
        try:
            return self.__dict__["_d"][k]
        except KeyError:
            raise AttributeError(k)

    def __setattr__(self, k, v):
        self.__dict__["_d"][k] = v

    def __getitem__(self, k):
        try:
            return self.__dict__["_d"][k]
        except KeyError:
            raise KeyError(k)

    def __setitem__(self, k, v):
        self.__dict__["_d"][k] = v

    def __contains__(self, k):
        return k in self.__dict__["_d"]

    def __len__(self):
        return len(self.X)


def real_state(dt=None, timestep=0, timestamp=None, alive=None, **arrays):
    """the real LADiM State (`ladim.state.State`), which hands out live arrays and coerces `active` to bool.
    `alive` (optional): liveness flags at the time of the call (`State.append` itself always starts with all alive;
    a particle killed earlier in the step, or kept in the arrays after its death, has False)"""
    from ladim.state import State
    s = State()
    s.append({k: np.asarray(v) for k, v in arrays.items()})
    if alive is not None and len(s):
        s["alive"] = np.asarray(alive, dtype=bool).copy()
    if dt is not None:
        s.dt = dt
    s.timestep = timestep
    if timestamp is not None:
        s.timestamp = timestamp
    return s


class LinEnv:
    """depth = h0 + hx*x + hy*y ; wvel = w0 + wz*z ; vdiff(z) profile (0 const k0 | 1 linear k0+k1*z |
    2 step k0 if z<zs else k1) ; hdiff = a0 + ax*x + ay*y ; metric (dx, dy) ; ingrid box ;
    is_close_to_land = x < coastx (optional, not part of the driver's EnvSpec: the harness decides who is re-seeded) ;
    temp = t0 + tz*z ; salt = s0 + sz*z ; bottom velocity (ub, vb) constant ;
    lonlat = (lon0 + lonx*x, lat0 + laty*y) (optional slopes, default 0; not part of the driver's EnvSpec) ;
    optional horizontal slopes tx, sx (temp/salt += tx*x, sx*x) and dxx (metric = dx + dxx*x), default 0 = the fields
    above unchanged; not part of the driver's EnvSpec (the model gets the sampled temp/salt per particle)"""

    def __init__(self, h0=50.0, hx=0.0, hy=0.0, w0=0.0, wz=0.0, kkind=0, k0=0.0, k1=0.0, zs=0.0,
                 a0=0.0, ax=0.0, ay=0.0, dx=100.0, xmin=1.0, xmax=20.0, ymin=1.0, ymax=20.0,
                 t0=8.0, tz=0.0, s0=34.0, sz=0.0, ub=0.0, vb=0.0, lon0=5.0, lat0=60.0, coastx=None,
                 lonx=0.0, laty=0.0, tx=0.0, sx=0.0, dxx=0.0, dy=None):
        self.__dict__.update(locals())
        del self.__dict__["self"]
        if dy is None:
            self.dy = dx          # second component of sample_metric; same as the first unless given
        self.calls = []

    # ---- numpy side
    def depth(self, x, y):
        return self.h0 + self.hx * np.asarray(x, dtype=float) + self.hy * np.asarray(y, dtype=float)

    def wvel(self, x, y, z, tstep=0.0, method="bilinear"):
        return self.w0 + self.wz * np.asarray(z, dtype=float)

    def profile(self, z):
        z = np.asarray(z, dtype=float)
        if self.kkind == 0:
            return np.zeros_like(z) + self.k0
        if self.kkind == 1:
            return self.k0 + self.k1 * z
        return np.where(z < self.zs, self.k0, self.k1)

    def vertdiff(self, x, y, z, name):
        return self.profile(z)

    def horzdiff(self, x, y, z):
        return self.a0 + self.ax * np.asarray(x, dtype=float) + self.ay * np.asarray(y, dtype=float)

    def metric(self, x, y):
        a = np.zeros_like(np.asarray(x, dtype=float)) + self.dx
        b = np.zeros_like(np.asarray(x, dtype=float)) + self.dy
        if self.dxx != 0.0:
            a = a + self.dxx * np.asarray(x, dtype=float)
            b = b + self.dxx * np.asarray(x, dtype=float)
        return a, b

    def ingrid(self, x, y):
        return ((self.xmin - 0.5 < x) & (x < self.xmax + 0.5) & (self.ymin - 0.5 < y) & (y < self.ymax + 0.5))

    def close_to_land(self, x, y):
        """`grid.grid.is_close_to_land`: cells west of `coastx` are coastal (none when coastx is None)"""
        x = np.asarray(x, dtype=float)
        if self.coastx is None:
            return np.zeros(x.shape, dtype=bool)
        return x < self.coastx

    def field(self, x, y, z, name):
        z = np.asarray(z, dtype=float)
        if name == "temp":
            r = self.t0 + self.tz * z
            return r if self.tx == 0.0 else r + self.tx * np.asarray(x, dtype=float)
        if name == "salt":
            r = self.s0 + self.sz * z
            return r if self.sx == 0.0 else r + self.sx * np.asarray(x, dtype=float)
        raise KeyError(name)

    def velocity(self, x, y, z, tstep=0, method="bilinear"):
        o = np.zeros_like(np.asarray(x, dtype=float))
        return o + self.ub, o + self.vb

    def lonlat(self, x, y, method="bilinear"):
        x = np.asarray(x, dtype=float); y = np.asarray(y, dtype=float)
        # lon = lon0 + lonx*x, lat = lat0 + laty*y (default slopes 0: every particle at (lon0, lat0))
        return self.lon0 + self.lonx * x, self.lat0 + self.laty * y

    def grid(self):
        g = Obj(sample_depth=self.depth, sample_metric=self.metric, ingrid=self.ingrid,
                lonlat=self.lonlat, xy2ll=self.lonlat, is_close_to_land=self.close_to_land,
                atsea=lambda x, y: np.ones(np.shape(x), dtype=bool))
        g.grid = g
        return g

    def forcing(self):
        inner = Obj(wvel=self.wvel, vertdiff=self.vertdiff, horzdiff=self.horzdiff)
        return Obj(forcing=inner, velocity=self.velocity, field=self.field)

    # ---- driver side (order must match Driver/Chemicals.lean :: getEnvSpec)
    def toks(self):
        return " ".join([F(self.h0), F(self.hx), F(self.hy), F(self.w0), F(self.wz), I(self.kkind), F(self.k0),
                         F(self.k1), F(self.zs), F(self.a0), F(self.ax), F(self.ay), F(self.dx), F(self.dy),
                         F(self.xmin), F(self.xmax), F(self.ymin), F(self.ymax)])

    def asdict(self):
        return {k: v for k, v in self.__dict__.items() if k != "calls"}
