"""C16 — buoyancy, swimming and light/density formulas are right-signed and consistent.

Tie: the Lean definitions the theorems are about are GENERATED from /repo's source on every run
(translator/py2lean.py); this harness validates the translation by evaluating every generated definition
at Float in the model driver against the Python function on random and boundary points.
Oracle (implementation side): monotone density, check values, identical copies, odd / zero-at-neutral /
monotone sinking speed, light bounds, band continuity, exp decay, swimming directions in one-update runs."""
import math, importlib, datetime
import numpy as np
from . import ibmrun, c05
from .common import Driver, F, unF, close, same_bits

RULE = ("translator validation: every generated formula on ~300 random + boundary points (T -2..40, S 0..42, buoyancy, "
        "diameters, all days of year x hours, lon -180..180, lat -89.9..89.9, depth >= 0, k >= 0); oracles on grids of the "
        "same ranges; swimming directions from one-update runs of larvae, saithe, salmon_lice, shrimp with mixing off. "
        "Non-trivial: every evaluated point; distinct by function and argument tuple.")
ASSUMPTIONS = ["values downstream of exp/log/sin/cos/arcsin/pow compared with relative tolerance 1e-9 (numpy SIMD vs libm)",
               "float-only caveat not modelled: arcsin of a rounding overshoot 1+ulp"]


def M(name):
    return importlib.import_module("ladim_plugins." + name)


def rnd_ts(rng):
    doy = rng.choice([1, 80, 172, 266, 355, rng.randrange(1, 366)])
    hour = rng.randrange(24)
    d = datetime.datetime(2021, 1, 1) + datetime.timedelta(days=doy - 1, hours=hour)
    return np.datetime64(d), float(doy), float(hour)


def translator_validation(ctx, drv):
    eos = M("utils.eos"); egg = M("egg.ibm"); lar = M("larvae.ibm"); light = M("utils.light"); shr = M("shrimp.ibm")
    mk = M("release.makrel"); sed = M("sedimentation.ibm"); mine = M("mine.ibm")
    A = lambda x: np.array([x], dtype=float)
    pend = []

    def add(fn, args, impl, exact=False, rel=1e-9, n_out=1):
        impl = np.atleast_1d(np.asarray(impl, dtype=float)).ravel()
        j = drv.ask("gen." + fn, *[F(a) for a in args]) if drv.available else None
        pend.append((fn, j, impl, exact, rel, args))
        ctx.case(key=(fn,) + tuple(float(a) for a in args), nontrivial=True)
        ctx.branch("gen." + fn)

    for _ in range(ctx.n(300, 4000)):
        T = ctx.rng.choice([-2.0, 0.0, 5.0, 25.0, 40.0, ctx.rng.uniform(-2, 40)])
        S = ctx.rng.choice([0.0, 35.0, 42.0, 1e-6, ctx.rng.uniform(0, 42)])
        b = ctx.rng.choice([S, S + 1e-9, ctx.rng.uniform(20, 40), 35.0])
        d = ctx.rng.choice([0.0011, 0.0014, 0.0005, 0.003, 0.01])
        add("eos_density", (T, S), eos.calc_density(A(T), A(S)), exact=True)
        add("egg_density", (T, S), egg.calc_density(A(T), A(S)), exact=True)
        add("eos_viscosity", (T, S), eos.viscosity(A(T), A(S)), exact=True)
        add("egg_my_w", (T, S), 0.001 * (1.7915 - 0.0538 * A(T) + 0.0007 * (A(T) ** 2) + 0.0023 * A(S)), exact=True)
        mu = float(eos.viscosity(A(T), A(S))[0]); dw = float(eos.calc_density(A(T), A(S))[0]); de = float(eos.calc_density(A(T), A(b))[0])
        add("larvae_sinkvel_egg", (mu, dw, de, d), lar.sinkvel_egg(A(mu), A(dw), A(de), d))
        w = ctx.rng.choice([0.093, 0.1, 1.0, 50.0, 4000.0, ctx.rng.uniform(0.093, 100)])
        dt = ctx.rng.choice([1.0, 600.0, 86400.0])
        add("larvae_growth", (max(T, 0.0), w, dt), lar.growth_cod_larvae(A(max(T, 0.0)), A(w), dt))
        add("larvae_weight_to_length", (w,), lar.weight_to_length(A(w)))
        us = ctx.rng.uniform(0, 0.1)
        add("sed_shear_stress", (us,), sed.shear_stress_btm(A(us)), exact=True)
        add("mine_shear_stress", (us,), mine.shear_stress_btm(A(us)), exact=True)
        ts, doy, hour = rnd_ts(ctx.rng)
        lon = ctx.rng.choice([-180.0, 0.0, 180.0, ctx.rng.uniform(-180, 180)])
        lat = ctx.rng.choice([-89.9, 89.9, 0.0, 60.0, 66.5, ctx.rng.uniform(-89.9, 89.9)])
        sl = light.surface_light(ts, A(lon), A(lat))
        add("surface_light", (doy, hour, lon, lat), sl, rel=1e-7)
        add("shrimp_sunheight", (doy, hour, lon, lat), shr.sunheight(ts, A(lon), A(lat)), rel=1e-7)
        add("surface_light_height", (doy, hour, lon, lat), shr.sunheight(ts, A(lon), A(lat)), rel=1e-7)
        dep = ctx.rng.choice([0.0, 1.0, 45.0, 500.0]); k = ctx.rng.choice([0.0, 0.05, 0.2, 2.0])
        add("light_at_depth", (float(sl[0]), dep, k), light.light(ts, A(lon), A(lat), depth=A(dep), extinction_coef=k))
        dx = ctx.rng.uniform(-5e4, 5e4); dy = ctx.rng.uniform(-5e4, 5e4); rl = ctx.rng.choice([-89.0, 0.0, 60.0, 89.0, ctx.rng.uniform(-89, 89)])
        add("metric_to_deg", (dx, dy, rl), mk.metric_diff_to_degrees(dx, dy, rl))
        add("deg_to_metric", (dx / 1e5, dy / 1e5, rl), mk.degree_diff_to_metric(dx / 1e5, dy / 1e5, rl))
    # egg velocity through the real update (dt = 1, no mixing): W = Z' - Z
    for _ in range(ctx.n(60, 600)):
        case = ibmrun.egg_case(ctx.rng, n=1)
        case["D"] = 0.0; case["dt"] = 1.0; case["z"] = np.array([100.0])
        res = ibmrun.egg_run(case, ctx.sub_seed(), None, None)
        W = res["after"]["z"][0] - 100.0
        j = drv.ask("gen.egg_velocity", F(res["after"]["temp"][0]), F(res["after"]["salt"][0]), F(case["buoy"][0]), F(case["diam"])) if drv.available else None
        pend.append(("egg_velocity", j, np.array([W]), False, 1e-7, (res["after"]["temp"][0], res["after"]["salt"][0], case["buoy"][0], case["diam"])))
        ctx.case(key=("egg_velocity", float(case["buoy"][0]), float(case["diam"]), float(res["after"]["temp"][0])), nontrivial=True)
        ctx.branch("gen.egg_velocity")
    if drv.available:
        rep = drv.run()
        for fn, j, impl, exact, rel, args in pend:
            st, t = rep[j]
            if st != "ok":
                ctx.disagreement("gen." + fn, "driver error %r" % (t,), dict(fn=fn, args=args)); continue
            for k_, v in enumerate(impl):
                m = unF(t[k_])
                cs = dict(fn=fn, args=args, out=k_)
                if exact:
                    ctx.eq_bits("gen." + fn, v, m, cs)
                else:
                    ctx.eq_close("gen." + fn, v, m, cs, rel=rel, abs_=1e-11 if fn == "egg_velocity" else 1e-300)


def oracles(ctx):
    eos = M("utils.eos"); egg = M("egg.ibm"); lar = M("larvae.ibm"); light = M("utils.light"); shr = M("shrimp.ibm")
    U = M("utils")
    site_e = "ladim_plugins/utils/eos.py"
    # density: monotone in salinity, check values, copies
    Ts = np.array([-2.0, -1.0, 0.0, 5.0, 10.0, 20.0, 30.0, 40.0] + [ctx.rng.uniform(-2, 40) for _ in range(ctx.n(10, 100))])
    Ss = np.linspace(0, 42, ctx.n(85, 421))
    for T in Ts:
        rho = eos.calc_density(np.full_like(Ss, T), Ss)
        ctx.case(key=("rho_mono", float(T)), nontrivial=True); ctx.branch("oracle.density_monotone")
        bad = np.flatnonzero(np.diff(rho) <= 0)
        ctx.oracle(len(bad) == 0, "C16.density.increases_with_salinity", site_e,
                   "T=%r: density not increasing at S=%r" % (T, Ss[bad[:3]].tolist()), dict(T=T))
        ctx.oracle(np.array_equal(rho, egg.calc_density(np.full_like(Ss, T), Ss)) and np.array_equal(rho, U.density(np.full_like(Ss, T), Ss)),
                   "C16.density.copies_differ", "ladim_plugins/egg/ibm.py", "egg.calc_density != utils.eos.calc_density at T=%r" % T, dict(T=T))
        visc = eos.viscosity(np.full_like(Ss, T), Ss)
        ctx.oracle(np.allclose(visc, 0.001 * (1.7915 - 0.0538 * T + 0.0007 * T * T + 0.0023 * Ss), rtol=1e-13, atol=0),
                   "C16.viscosity.copies_differ", site_e, "viscosity copies differ at T=%r" % T, dict(T=T))
    for (S, T68, val) in ((0.0, 5.0, 999.96675), (35.0, 5.0, 1027.67547), (35.0, 25.0, 1023.34306)):
        got = float(eos.calc_density(np.array([T68 / 1.00024]), np.array([S]))[0])
        ctx.case(key=("rho_check", S, T68), nontrivial=True)
        ctx.oracle(abs(got - val) < 1e-5, "C16.density.check_value", site_e, "rho(S=%r,T68=%r)=%r, EOS-80 check value %r" % (S, T68, got, val), dict(S=S, T68=T68))
    # sinking speed: odd, zero at neutral, monotone, copies
    site_l = "ladim_plugins/larvae/ibm.py"
    for _ in range(ctx.n(40, 400)):
        T = ctx.rng.uniform(-2, 30); S = ctx.rng.uniform(5, 40); d = ctx.rng.choice([0.0005, 0.0011, 0.0014, 0.003])
        mu = float(eos.viscosity(T, S)); dw = float(eos.calc_density(np.array([T]), np.array([S]))[0])
        delta = np.concatenate([-np.logspace(1.3, -9, 60), [0.0], np.logspace(-9, 1.3, 60)])
        v = lar.sinkvel_egg(mu, dw, dw + delta, d)          # egg denser by delta -> sinks (positive)
        ctx.case(key=("sink", T, S, d), nontrivial=True); ctx.branch("oracle.sinking_speed")
        cs = dict(T=T, S=S, d=d)
        ctx.oracle(v[60] == 0, "C16.sink_speed.nonzero_at_neutral", site_l, "speed at neutral buoyancy %r" % v[60], cs)
        ctx.oracle(np.all(np.diff(v) >= -1e-18), "C16.sink_speed.not_monotone", site_l,
                   "speed not non-decreasing in density difference near %r" % delta[np.flatnonzero(np.diff(v) < -1e-18)[:3]].tolist(), cs)
        v2 = lar.sinkvel_egg(mu, dw + delta, dw, d)         # arguments exchanged
        ctx.oracle(np.allclose(v2, -v, rtol=1e-9, atol=1e-18), "C16.sink_speed.not_odd", site_l, "v(-d) != -v(d)", cs)
        ctx.oracle(np.all(v[delta > 0] > 0) and np.all(v[delta < 0] < 0), "C16.sink_speed.wrong_sign", site_l,
                   "denser eggs must sink (positive), lighter rise", cs)
    # egg module's copy vs larvae module's copy (through generated-equivalent python expressions)
    for _ in range(ctx.n(40, 400)):
        case = ibmrun.egg_case(ctx.rng, n=4)
        case["D"] = 0.0; case["dt"] = 1.0; case["z"] = np.full(4, 100.0)
        res = ibmrun.egg_run(case, ctx.sub_seed(), None, None)
        W = res["after"]["z"] - 100.0
        T = res["after"]["temp"]; S = res["after"]["salt"]
        v = lar.sinkvel_egg(eos.viscosity(T, S), eos.calc_density(T, S), eos.calc_density(T, case["buoy"]), case["diam"])
        ctx.case(key=("eggcopy", repr(case["buoy"].tolist()), case["diam"]), nontrivial=True); ctx.branch("oracle.egg_vs_larvae")
        ctx.oracle(np.allclose(W, v, rtol=1e-6, atol=1e-10), "C16.sink_speed.copies_differ", "ladim_plugins/egg/ibm.py",
                   "egg module W=%r, larvae module %r" % (W.tolist(), v.tolist()), dict(case=ibmrun.case_summary(case)))
    # light: finite, bounded, decaying; band continuity
    site_li = "ladim_plugins/utils/light.py"
    lons = np.linspace(-180, 180, ctx.n(721, 3601))
    for _ in range(ctx.n(60, 600)):
        ts, doy, hour = rnd_ts(ctx.rng)
        lat = ctx.rng.choice([-89.9, -66.0, -30.0, 0.0, 45.0, 60.0, 69.0, 80.0, 89.9, ctx.rng.uniform(-89.9, 89.9)])
        L = light.surface_light(ts, lons, np.full_like(lons, lat))
        ctx.case(key=("light", str(ts), lat), nontrivial=True); ctx.branch("oracle.light")
        cs = dict(time=str(ts), lat=lat)
        ctx.oracle(bool(np.all(np.isfinite(L))), "C16.light.not_finite", site_li, "non-finite surface light", cs)
        ctx.oracle(bool(np.all((L >= 1.15e-5 * (1 - 1e-12)) & (L <= 1505.76 * (1 + 1e-12)))), "C16.light.out_of_bounds", site_li,
                   "surface light outside [1.15e-5, 1505.76]: min %r max %r" % (float(L.min()), float(L.max())), cs)
        h = M("shrimp.ibm").sunheight(ts, lons, np.full_like(lons, lat))
        edges = {0.0: 5.76, -6.0: 0.048, -12.0: 1.15e-4, -18.0: 1.15e-5}
        slope_below = {0.0: (5.76 - 0.048) / 6, -6.0: (0.048 - 1.15e-4) / 6, -12.0: (1.15e-4 - 1.15e-5) / 6, -18.0: 0.0}
        for e, val in edges.items():
            idx = np.flatnonzero((h[:-1] - e) * (h[1:] - e) < 0)
            for i in idx[:4]:
                lo, hi = (i, i + 1) if h[i] < h[i + 1] else (i + 1, i)
                ok = abs(L[lo] - val) <= slope_below[e] * abs(h[lo] - e) * (1 + 1e-9) + 1e-12
                if e < 0:
                    slope_above = {-6.0: (5.76 - 0.048) / 6, -12.0: (0.048 - 1.15e-4) / 6, -18.0: (1.15e-4 - 1.15e-5) / 6}[e]
                    ok = ok and abs(L[hi] - val) <= slope_above * abs(h[hi] - e) * (1 + 1e-9) + 1e-12
                else:
                    ok = ok and L[hi] >= val * (1 - 1e-12)
                ctx.oracle(ok, "C16.light.band_discontinuity", site_li,
                           "jump at sun height %r deg: light %r (h=%r) / %r (h=%r), edge value %r" % (e, L[lo], h[lo], L[hi], h[hi], val), dict(cs, edge=e))
        k = ctx.rng.choice([0.0, 0.05, 0.2, 1.0]); dep = np.array([0.0, 1.0, 10.0, 100.0])
        lon1 = np.full(4, ctx.rng.uniform(-180, 180)); lat1 = np.full(4, lat)
        Ld = light.light(ts, lon1, lat1, depth=dep, extinction_coef=k)
        ctx.oracle(np.allclose(Ld, Ld[0] * np.exp(-k * dep), rtol=1e-12, atol=0) and np.all(np.diff(Ld) <= 0),
                   "C16.light.decay", site_li, "light(depth) != light(0)*exp(-k*depth): %r" % Ld.tolist(), dict(cs, k=k))


def swim_oracle(ctx, name, case, res):
    b, a, n = res["before"], res["after"], res["n"]
    site = "ladim_plugins/%s/ibm.py" % name
    for i in range(n):
        cs = dict(module=name, case=ibmrun.case_summary(case), particle=i, before={k: v[i] for k, v in b.items()},
                  after={k: v[i] for k, v in a.items()})
        dz = a["z"][i] - b["z"][i]
        if name in ("larvae", "saithe"):
            if res["meta"]["is_egg"][i] or case["D"]:
                continue
            sp = case["sp"]
            lo, hi = float(sp["min_depth"]), float(sp["max_depth"])
            Eb = res["meta"]["light0"][i] * math.exp(-case["k"] * b["z"][i])
            des = float(sp["light"])
            if abs(Eb - des) < 1e-9 * max(1, des):
                continue
            if Eb > des and b["z"][i] < hi:
                ctx.oracle(dz > 0, "C16.%s.light_at_depth" % name, site,
                           "light at depth %r > preferred %r (surface %r, k=%r, Z=%r) but dZ=%r" % (Eb, des, res["meta"]["light0"][i], case["k"], b["z"][i], dz), cs)
            if Eb < des and b["z"][i] > lo:
                ctx.oracle(dz < 0, "C16.%s.light_at_depth" % name, site,
                           "light at depth %r < preferred %r (surface %r, k=%r, Z=%r) but dZ=%r" % (Eb, des, res["meta"]["light0"][i], case["k"], b["z"][i], dz), cs)
        elif name == "salmon_lice":
            if case["D"] or not (1e-3 < b["z"][i] < 18.9):
                continue
            Eb = res["meta"]["light0"][i] * math.exp(-0.2 * b["z"][i])
            salt = a["salt"][i]
            if salt < 20:
                ctx.oracle(dz > 0, "C16.salmon_lice.down_in_fresh", site, "salt %r but dZ=%r" % (salt, dz), cs)
            elif salt >= 32 and Eb >= 0.0100001 and b["z"][i] > 5e-4 * case["dt"] + 1e-9:
                # (closer to the surface than one swimming step the louse is mirrored back below it)
                ctx.oracle(dz < 0, "C16.salmon_lice.up_in_light", site, "light %r, salt %r but dZ=%r" % (Eb, salt, dz), cs)
            elif salt >= 32 and Eb < 0.0099999:
                ctx.oracle(dz == 0, "C16.salmon_lice.moves_in_dark", site, "light %r, salt %r but dZ=%r" % (Eb, salt, dz), cs)
        elif name == "shrimp":
            if "pref" not in res["meta"]:
                continue
            k = int(res["meta"]["int_stage"][i])
            if case["vm"][k] != 0:
                continue
            pref = res["meta"]["pref"][i]
            ctx.oracle(abs(a["z"][i] - pref) <= abs(b["z"][i] - pref) + 1e-12, "C16.shrimp.away_from_preferred", site,
                       "Z %r -> %r, preferred %r" % (b["z"][i], a["z"][i], pref), cs)
            if case["vs"][k] > 0 and abs(b["z"][i] - pref) > 1e-9:
                ctx.oracle(abs(a["z"][i] - pref) < abs(b["z"][i] - pref), "C16.shrimp.not_toward_preferred", site,
                           "Z %r -> %r, preferred %r" % (b["z"][i], a["z"][i], pref), cs)


def run(ctx):
    drv = Driver()
    if getattr(ctx, "widened", False):
        drv.available = False
    translator_validation(ctx, drv)
    oracles(ctx)
    c05.run(ctx, modules=["larvae", "saithe", "salmon_lice", "shrimp", "egg"], oracle=swim_oracle)


def replay(payload):
    print("predicate:", payload.get("predicate"), "|", payload.get("detail"))
    return False
