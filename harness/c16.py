"""C16 — buoyancy, swimming and light/density formulas are right-signed and consistent.

Tie: the Lean definitions the theorems are about are GENERATED from /repo's source on every run
(translator/py2lean.py); this harness validates the translation by evaluating every generated definition
at Float in the model driver against the Python function on random and boundary points.
Oracle (implementation side): monotone density, check values, identical copies, odd / zero-at-neutral /
monotone sinking speed, light bounds, band continuity, exp decay, swimming directions in one-update runs and at
every step of histories of one IBM object whose water, clock and particles change between the updates (there also:
same result as a fresh IBM object on the same state)."""
import math, importlib, datetime
import numpy as np
from . import ibmrun, c05
from .common import Driver, F, unF, close, same_bits

RULE = ("translator validation: every generated formula on ~300 random + boundary points (T -2..40, S 0..42, buoyancy, "
        "diameters, all days of year x hours, lon -180..180, lat -89.9..89.9, depth >= 0, k >= 0); oracles on grids of the "
        "same ranges; swimming directions from one-update runs and histories of larvae, saithe, salmon_lice, shrimp, egg "
        "without mixing (mixing configured off, or the normal draw of the particle equal to 0: saithe's mixing is "
        "hard-coded, its draws are forced to 0 in ~60% of the cases). Timestamps: any day of 2020 (leap, incl. Feb 29 and "
        "day 366) / 2021, any hour, minutes and seconds, units s (what LADiM hands out) / us / ms / m. Module runs: "
        "per-particle positions on a stub grid with lon = lon0 + lonx*x, lat = lat0 + laty*y (lon0 -180..180 incl. the "
        "antimeridian, lat0 -80..80 both hemispheres); lice salinities inside the tolerance windows (20..28 copepodids, "
        "30..32 nauplii, incl. 28, 30, 32 exactly); larvae / lice placed next to (and up to half / twice as deep as) the depth "
        "where the attenuated light equals the preference / 0.01, lice also at twilight longitudes chosen so that this "
        "depth lies inside 0..19 m; larvae overrides of single parameters (light, swim_speed, egg_diam, "
        "init_larvae_weight) and overrides with the value 0 (light; swim_speed: passive larvae must not move; min_depth); "
        "shrimp judged after its (recorded) mixing step for every stage and once per case through "
        "the `state['time']` fallback (state without `timestamp`); light oracle also at the sub-solar / anti-solar "
        "points. Histories of ONE IBM object in a changing world (egg, larvae, saithe, salmon_lice, shrimp; 30 per module, "
        "thorough 500; 3..8 updates, thorough up to 24; real State ~70% / the repository tests' stub state ~30%, shrimp stub "
        "also with `time` instead of `timestamp`; 1..6 particles, mixing off in ~70%, egg buoyancies within 0 / +-0.02 .. "
        "+-3 salinity units of the ambient salinity, water that also varies horizontally): between two updates the "
        "temperature (-2..40) and / or the salinity (0..42, incl. the lice thresholds) of the water and its "
        "stratification change, the clock advances by dt or jumps to any other time of the year, the tracker stand-in "
        "moves particles (x, y +-1.5 cells, z up to +-30 m inside the band), particles are removed / released with a "
        "change of the count, or removed and the same number released (one or all: the array slots change owner at "
        "constant count), or nothing but the water changes (same particles, same count); every step judged by the "
        "clauses above, eggs also from the stub water itself, and against a fresh IBM object on a copy of the state with "
        "the same draws. Non-trivial: every evaluated point; distinct by function and argument tuple.")
ASSUMPTIONS = ["values downstream of exp/log/sin/cos/arcsin/pow compared with relative tolerance 1e-9 (numpy SIMD vs libm)",
               "float-only caveat not modelled: arcsin of a rounding overshoot 1+ulp (probed at the sub-solar and "
               "anti-solar points and their floating-point neighbours by the light oracle)",
               "a louse's salinity tolerance is the documented 28 - 8r (copepodid) / 32 - 2r (nauplius) of its recorded "
               "uniform draw r; the r-independent clauses (below 20 / 30: down, from 28 / 32: not down) are judged separately",
               "egg_buoy is a salinity equivalent (ladim.yaml of egg / saithe / larvae): the egg has the density of water of "
               "that salinity at the ambient temperature, so 'lighter than the water' is egg_buoy < ambient salinity (density "
               "increases with salinity: clause of this property, judged by the density oracle)",
               "sun height of surface_light is not returned by the code: it is observed through the light value "
               "(linear twilight bands; day band proportional to sin(height))"]


def M(name):
    return importlib.import_module("ladim_plugins." + name)


def rnd_ts(rng):
    """(timestamp, day of year, hour): any day of 2020 (leap year: Feb 29, day 366) or 2021, any hour, with minutes and
    seconds (the formulas use the hour of the clock only); numpy unit s (LADiM's `state.timestamp`), us, ms or m"""
    year = rng.choice([2020, 2021])
    ndays = 366 if year == 2020 else 365
    doy = rng.choice([1, 60, 80, 172, 266, 355, ndays, rng.randrange(1, ndays + 1), rng.randrange(1, ndays + 1)])
    hour = rng.randrange(24)
    minute, second = (0, 0) if rng.random() < 0.4 else (rng.randrange(60), rng.choice([0, 59, rng.randrange(60)]))
    d = datetime.datetime(year, 1, 1) + datetime.timedelta(days=doy - 1, hours=hour, minutes=minute, seconds=second)
    unit = rng.choice(["s", "s", "us", "ms", "m"])
    return np.datetime64(d, unit), float(doy), float(hour)


def translator_validation(ctx, drv):
    eos = M("utils.eos"); egg = M("egg.ibm"); lar = M("larvae.ibm"); light = M("utils.light"); shr = M("shrimp.ibm")
    mk = M("release.makrel"); sed = M("sedimentation.ibm"); mine = M("mine.ibm")
    A = lambda x: np.array([x], dtype=float)
    pend = []

    def add(fn, args, impl, exact=False, rel=1e-9, n_out=1):
        impl = np.atleast_1d(np.asarray(impl, dtype=float)).ravel()
        j = drv.ask("gen." + fn, *[F(a) for a in args]) if drv.available else None
        pend.append((fn, j, impl, exact, rel, args))
        ctx.case(key=(fn,) + tuple(float(a) for a in args), nontrivial=True)
        ctx.branch("gen." + fn)

    for _ in range(ctx.n(300, 4000)):
        T = ctx.rng.choice([-2.0, 0.0, 5.0, 25.0, 40.0, ctx.rng.uniform(-2, 40)])
        S = ctx.rng.choice([0.0, 35.0, 42.0, 1e-6, ctx.rng.uniform(0, 42)])
        b = ctx.rng.choice([S, S + 1e-9, ctx.rng.uniform(20, 40), 35.0])
        d = ctx.rng.choice([0.0011, 0.0014, 0.0005, 0.003, 0.01])
        add("eos_density", (T, S), eos.calc_density(A(T), A(S)), exact=True)
        add("egg_density", (T, S), egg.calc_density(A(T), A(S)), exact=True)
        add("eos_viscosity", (T, S), eos.viscosity(A(T), A(S)), exact=True)
        add("egg_my_w", (T, S), 0.001 * (1.7915 - 0.0538 * A(T) + 0.0007 * (A(T) ** 2) + 0.0023 * A(S)), exact=True)
        mu = float(eos.viscosity(A(T), A(S))[0]); dw = float(eos.calc_density(A(T), A(S))[0]); de = float(eos.calc_density(A(T), A(b))[0])
        add("larvae_sinkvel_egg", (mu, dw, de, d), lar.sinkvel_egg(A(mu), A(dw), A(de), d))
        w = ctx.rng.choice([0.093, 0.1, 1.0, 50.0, 4000.0, ctx.rng.uniform(0.093, 100)])
        dt = ctx.rng.choice([1.0, 600.0, 86400.0])
        add("larvae_growth", (max(T, 0.0), w, dt), lar.growth_cod_larvae(A(max(T, 0.0)), A(w), dt))
        add("larvae_weight_to_length", (w,), lar.weight_to_length(A(w)))
        us = ctx.rng.uniform(0, 0.1)
        add("sed_shear_stress", (us,), sed.shear_stress_btm(A(us)), exact=True)
        add("mine_shear_stress", (us,), mine.shear_stress_btm(A(us)), exact=True)
        ts, doy, hour = rnd_ts(ctx.rng)
        lon = ctx.rng.choice([-180.0, 0.0, 180.0, ctx.rng.uniform(-180, 180)])
        lat = ctx.rng.choice([-89.9, 89.9, 0.0, 60.0, 66.5, ctx.rng.uniform(-89.9, 89.9)])
        sl = light.surface_light(ts, A(lon), A(lat))
        add("surface_light", (doy, hour, lon, lat), sl, rel=1e-7)
        add("shrimp_sunheight", (doy, hour, lon, lat), shr.sunheight(ts, A(lon), A(lat)), rel=1e-7)
        add("surface_light_height", (doy, hour, lon, lat), shr.sunheight(ts, A(lon), A(lat)), rel=1e-7)
        dep = ctx.rng.choice([0.0, 1.0, 45.0, 500.0]); k = ctx.rng.choice([0.0, 0.05, 0.2, 2.0])
        add("light_at_depth", (float(sl[0]), dep, k), light.light(ts, A(lon), A(lat), depth=A(dep), extinction_coef=k))
        dx = ctx.rng.uniform(-5e4, 5e4); dy = ctx.rng.uniform(-5e4, 5e4); rl = ctx.rng.choice([-89.0, 0.0, 60.0, 89.0, ctx.rng.uniform(-89, 89)])
        add("metric_to_deg", (dx, dy, rl), mk.metric_diff_to_degrees(dx, dy, rl))
        add("deg_to_metric", (dx / 1e5, dy / 1e5, rl), mk.degree_diff_to_metric(dx / 1e5, dy / 1e5, rl))
    # egg velocity through the real update (dt = 1, no mixing): W = Z' - Z
    for _ in range(ctx.n(60, 600)):
        case = ibmrun.egg_case(ctx.rng, n=1)
        case["D"] = 0.0; case["dt"] = 1.0; case["z"] = np.array([100.0])
        res = ibmrun.egg_run(case, ctx.sub_seed(), None, None)
        W = res["after"]["z"][0] - 100.0
        j = drv.ask("gen.egg_velocity", F(res["after"]["temp"][0]), F(res["after"]["salt"][0]), F(case["buoy"][0]), F(case["diam"])) if drv.available else None
        pend.append(("egg_velocity", j, np.array([W]), False, 1e-7, (res["after"]["temp"][0], res["after"]["salt"][0], case["buoy"][0], case["diam"])))
        ctx.case(key=("egg_velocity", float(case["buoy"][0]), float(case["diam"]), float(res["after"]["temp"][0])), nontrivial=True)
        ctx.branch("gen.egg_velocity")
    if drv.available:
        rep = drv.run()
        for fn, j, impl, exact, rel, args in pend:
            st, t = rep[j]
            if st != "ok":
                ctx.disagreement("gen." + fn, "driver error %r" % (t,), dict(fn=fn, args=args)); continue
            for k_, v in enumerate(impl):
                m = unF(t[k_])
                cs = dict(fn=fn, args=args, out=k_)
                if exact:
                    ctx.eq_bits("gen." + fn, v, m, cs)
                else:
                    if fn == "egg_velocity":
                        abs_ = 1e-11
                    elif fn == "larvae_growth":
                        # growth = (exp(g) - 1) * w: for g ~ 1e-7 (dt = 1 s, cold water) one ulp of exp(g) ~ 1 is a relative
                        # error of 1e-9 of the growth; numpy's and libm's exp may differ by that ulp (3 of 600 000 inputs
                        # in that band do).  The comparison is therefore also accepted within 4 ulp of exp(g) ~ 1, times w
                        abs_ = 8e-16 * abs(float(args[1]))
                    else:
                        abs_ = 1e-300
                    ctx.eq_close("gen." + fn, v, m, cs, rel=rel, abs_=abs_)


def oracles(ctx):
    eos = M("utils.eos"); egg = M("egg.ibm"); lar = M("larvae.ibm"); light = M("utils.light"); shr = M("shrimp.ibm")
    U = M("utils")
    site_e = "ladim_plugins/utils/eos.py"
    # density: monotone in salinity, check values, copies
    Ts = np.array([-2.0, -1.0, 0.0, 5.0, 10.0, 20.0, 30.0, 40.0] + [ctx.rng.uniform(-2, 40) for _ in range(ctx.n(10, 100))])
    Ss = np.linspace(0, 42, ctx.n(85, 421))
    for T in Ts:
        rho = eos.calc_density(np.full_like(Ss, T), Ss)
        ctx.case(key=("rho_mono", float(T)), nontrivial=True); ctx.branch("oracle.density_monotone")
        bad = np.flatnonzero(np.diff(rho) <= 0)
        ctx.oracle(len(bad) == 0, "C16.density.increases_with_salinity", site_e,
                   "T=%r: density not increasing at S=%r" % (T, Ss[bad[:3]].tolist()), dict(T=T))
        ctx.oracle(np.array_equal(rho, egg.calc_density(np.full_like(Ss, T), Ss)) and np.array_equal(rho, U.density(np.full_like(Ss, T), Ss)),
                   "C16.density.copies_differ", "ladim_plugins/egg/ibm.py", "egg.calc_density != utils.eos.calc_density at T=%r" % T, dict(T=T))
        visc = eos.viscosity(np.full_like(Ss, T), Ss)
        ctx.oracle(np.allclose(visc, 0.001 * (1.7915 - 0.0538 * T + 0.0007 * T * T + 0.0023 * Ss), rtol=1e-13, atol=0),
                   "C16.viscosity.copies_differ", site_e, "viscosity copies differ at T=%r" % T, dict(T=T))
    for (S, T68, val) in ((0.0, 5.0, 999.96675), (35.0, 5.0, 1027.67547), (35.0, 25.0, 1023.34306)):
        got = float(eos.calc_density(np.array([T68 / 1.00024]), np.array([S]))[0])
        ctx.case(key=("rho_check", S, T68), nontrivial=True)
        ctx.oracle(abs(got - val) < 1e-5, "C16.density.check_value", site_e, "rho(S=%r,T68=%r)=%r, EOS-80 check value %r" % (S, T68, got, val), dict(S=S, T68=T68))
    # sinking speed: odd, zero at neutral, monotone, copies
    site_l = "ladim_plugins/larvae/ibm.py"
    for _ in range(ctx.n(40, 400)):
        T = ctx.rng.uniform(-2, 30); S = ctx.rng.uniform(5, 40); d = ctx.rng.choice([0.0005, 0.0011, 0.0014, 0.003])
        mu = float(eos.viscosity(T, S)); dw = float(eos.calc_density(np.array([T]), np.array([S]))[0])
        delta = np.concatenate([-np.logspace(1.3, -9, 60), [0.0], np.logspace(-9, 1.3, 60)])
        v = lar.sinkvel_egg(mu, dw, dw + delta, d)          # egg denser by delta -> sinks (positive)
        ctx.case(key=("sink", T, S, d), nontrivial=True); ctx.branch("oracle.sinking_speed")
        cs = dict(T=T, S=S, d=d)
        ctx.oracle(v[60] == 0, "C16.sink_speed.nonzero_at_neutral", site_l, "speed at neutral buoyancy %r" % v[60], cs)
        ctx.oracle(np.all(np.diff(v) >= -1e-18), "C16.sink_speed.not_monotone", site_l,
                   "speed not non-decreasing in density difference near %r" % delta[np.flatnonzero(np.diff(v) < -1e-18)[:3]].tolist(), cs)
        v2 = lar.sinkvel_egg(mu, dw + delta, dw, d)         # arguments exchanged
        ctx.oracle(np.allclose(v2, -v, rtol=1e-9, atol=1e-18), "C16.sink_speed.not_odd", site_l, "v(-d) != -v(d)", cs)
        ctx.oracle(np.all(v[delta > 0] > 0) and np.all(v[delta < 0] < 0), "C16.sink_speed.wrong_sign", site_l,
                   "denser eggs must sink (positive), lighter rise", cs)
    # egg module's copy vs larvae module's copy (through generated-equivalent python expressions)
    for _ in range(ctx.n(40, 400)):
        case = ibmrun.egg_case(ctx.rng, n=4)
        case["D"] = 0.0; case["dt"] = 1.0; case["z"] = np.full(4, 100.0)
        res = ibmrun.egg_run(case, ctx.sub_seed(), None, None)
        W = res["after"]["z"] - 100.0
        T = res["after"]["temp"]; S = res["after"]["salt"]
        v = lar.sinkvel_egg(eos.viscosity(T, S), eos.calc_density(T, S), eos.calc_density(T, case["buoy"]), case["diam"])
        ctx.case(key=("eggcopy", repr(case["buoy"].tolist()), case["diam"]), nontrivial=True); ctx.branch("oracle.egg_vs_larvae")
        # W is read off as (100 + W*1) - 100: absolute rounding error <= ulp(100) = 1.4e-14; the copies differ by the
        # 1e-16 regulariser of the larvae copy (relative effect < 1e-13 for the density differences generated here)
        ctx.oracle(np.allclose(W, v, rtol=1e-9, atol=1e-13), "C16.sink_speed.copies_differ", "ladim_plugins/egg/ibm.py",
                   "egg module W=%r, larvae module %r" % (W.tolist(), v.tolist()), dict(case=ibmrun.case_summary(case)))
    # light: finite, bounded, decaying; band continuity
    site_li = "ladim_plugins/utils/light.py"
    lons = np.linspace(-180, 180, ctx.n(721, 3601))
    for _ in range(ctx.n(60, 600)):
        ts, doy, hour = rnd_ts(ctx.rng)
        lat = ctx.rng.choice([-89.9, -66.0, -30.0, 0.0, 45.0, 60.0, 69.0, 80.0, 89.9, ctx.rng.uniform(-89.9, 89.9)])
        L = light.surface_light(ts, lons, np.full_like(lons, lat))
        ctx.case(key=("light", str(ts), lat), nontrivial=True); ctx.branch("oracle.light")
        cs = dict(time=str(ts), lat=lat)
        ctx.oracle(bool(np.all(np.isfinite(L))), "C16.light.not_finite", site_li, "non-finite surface light", cs)
        ctx.oracle(bool(np.all((L >= 1.15e-5 * (1 - 1e-12)) & (L <= 1505.76 * (1 + 1e-12)))), "C16.light.out_of_bounds", site_li,
                   "surface light outside [1.15e-5, 1505.76]: min %r max %r" % (float(L.min()), float(L.max())), cs)
        h = M("shrimp.ibm").sunheight(ts, lons, np.full_like(lons, lat))
        copies_oracle(ctx, ts, lons, np.full_like(lons, lat), L, h, cs)
        edges = {0.0: 5.76, -6.0: 0.048, -12.0: 1.15e-4, -18.0: 1.15e-5}
        slope_below = {0.0: (5.76 - 0.048) / 6, -6.0: (0.048 - 1.15e-4) / 6, -12.0: (1.15e-4 - 1.15e-5) / 6, -18.0: 0.0}
        for e, val in edges.items():
            idx = np.flatnonzero((h[:-1] - e) * (h[1:] - e) < 0)
            for i in idx[:4]:
                lo, hi = (i, i + 1) if h[i] < h[i + 1] else (i + 1, i)
                ok = abs(L[lo] - val) <= slope_below[e] * abs(h[lo] - e) * (1 + 1e-9) + 1e-12
                if e < 0:
                    slope_above = {-6.0: (5.76 - 0.048) / 6, -12.0: (0.048 - 1.15e-4) / 6, -18.0: (1.15e-4 - 1.15e-5) / 6}[e]
                    ok = ok and abs(L[hi] - val) <= slope_above * abs(h[hi] - e) * (1 + 1e-9) + 1e-12
                else:
                    ok = ok and L[hi] >= val * (1 - 1e-12)
                ctx.oracle(ok, "C16.light.band_discontinuity", site_li,
                           "jump at sun height %r deg: light %r (h=%r) / %r (h=%r), edge value %r" % (e, L[lo], h[lo], L[hi], h[hi], val), dict(cs, edge=e))
        k = ctx.rng.choice([0.0, 0.05, 0.2, 1.0]); dep = np.array([0.0, 1.0, 10.0, 100.0])
        lon1 = np.full(4, ctx.rng.uniform(-180, 180)); lat1 = np.full(4, lat)
        Ld = light.light(ts, lon1, lat1, depth=dep, extinction_coef=k)
        ctx.oracle(np.allclose(Ld, Ld[0] * np.exp(-k * dep), rtol=1e-12, atol=0) and np.all(np.diff(Ld) <= 0),
                   "C16.light.decay", site_li, "light(depth) != light(0)*exp(-k*depth): %r" % Ld.tolist(), dict(cs, k=k))
        # no depth given: the light at the surface (exp(-k*0) = 1 exactly) is the surface light
        ctx.oracle(np.array_equal(light.light(ts, lon1, lat1), light.surface_light(ts, lon1, lat1))
                   and np.array_equal(light.light(ts, lon1, lat1, extinction_coef=k), light.surface_light(ts, lon1, lat1)),
                   "C16.light.decay", site_li, "light() without a depth is not the surface light", dict(cs, k=k))
        # sub-solar and anti-solar points (sun height +-90 degrees, |sin| rounds to 1 +- ulp) and their neighbours
        for lon_p, lat_p, tag in solar_points(doy, hour):
            lat_n = np.array([lat_p, np.nextafter(lat_p, 90.0), np.nextafter(lat_p, -90.0), lat_p * (1 + 1e-15), lat_p * (1 - 1e-15)])
            lon_n = np.array([lon_p, lon_p, lon_p, np.nextafter(lon_p, 0.0), np.nextafter(lon_p, 0.0)])
            Lp = light.surface_light(ts, lon_n, lat_n)
            ctx.case(key=("light_solar_point", str(ts), tag), nontrivial=True); ctx.branch("oracle.light.%s_point" % tag)
            csp = dict(time=str(ts), lon=lon_n.tolist(), lat=lat_n.tolist(), point=tag)
            ctx.oracle(bool(np.all(np.isfinite(Lp))), "C16.light.not_finite", site_li,
                       "non-finite surface light at the %s point: %r" % (tag, Lp.tolist()), csp)
            ctx.oracle(bool(np.all((Lp >= 1.15e-5 * (1 - 1e-12)) & (Lp <= 1505.76 * (1 + 1e-12)))), "C16.light.out_of_bounds", site_li,
                       "surface light outside [1.15e-5, 1505.76] at the %s point: %r" % (tag, Lp.tolist()), csp)
            copies_oracle(ctx, ts, lon_n, lat_n, Lp, M("shrimp.ibm").sunheight(ts, lon_n, lat_n), csp, day_band=False)


def solar_points(doy, hour):
    """(lon, lat, tag) of the points where the sun is in the zenith / nadir for the code's declination and sun time
    (input generation only: the constants are those of the documented Skartveit & Olseth formula)"""
    rad = np.pi / 180.0
    sindelta = 0.3979 * np.sin(0.9856 * rad * (doy - 80) + 1.9171 * rad * (np.sin(0.9856 * rad * doy) - 0.98112))
    decl = float(np.arcsin(sindelta) / rad)

    def wrap(lon):
        while lon > 180.0:
            lon -= 360.0
        while lon < -180.0:
            lon += 360.0
        return lon
    return [(wrap(180.0 - 15.0 * hour), decl, "subsolar"), (wrap(-15.0 * hour), -decl, "antisolar")]


def copies_oracle(ctx, ts, lon, lat, L, h, cs, day_band=True):
    """The independent copies of the light / sun-height formulas give the same values.
    * the surface light the salmon lice module calls (LADiM's `ladim.ibms.light` copy until fix 2a83b24, the package's
      own function since) == `utils.light.surface_light`: the same floating-point expression, compared exactly;
    * `shrimp.sunheight` vs the sun height inside `surface_light`, which is not returned and is observed through the
      light: below the horizon the light is a linear function of the height in each twilight band (and 1.15e-5 below
      -18 degrees), above it it is 5.76 + c*sin(height) with c = 1500 / sin(noon height) the same for all longitudes
      of one latitude and time.  Relative tolerance 1e-9: the two copies are the same expression, the comparison goes
      through one more multiplication / sin (a few ulp)."""
    ctx.branch("oracle.light_copies")
    L2 = ibmrun.lice_surface_light()(ts, lon, lat)
    ctx.oracle(np.array_equal(L, L2), "C16.light.copies_differ", "ladim_plugins/salmon_lice/ibm.py",
               "the surface light used by salmon_lice != utils.light.surface_light, max difference %r"
               % float(np.max(np.abs(L - L2))), cs)
    if not (np.all(np.isfinite(h)) and np.all(np.isfinite(L))):
        return
    s1, s2, s3 = (5.76 - 0.048) / 6, (0.048 - 1.15e-4) / 6, (1.15e-4 - 1.15e-5) / 6
    want = np.where(h >= -6, s1 * (6 + h) + 0.048, np.where(h >= -12, s2 * (12 + h) + 1.15e-4,
                    np.where(h >= -18, s3 * (18 + h) + 1.15e-5, 1.15e-5)))
    tw = h < 0
    bad = np.flatnonzero(tw & ~np.isclose(L, want, rtol=1e-9, atol=0))
    ctx.oracle(len(bad) == 0, "C16.sunheight.copies_differ", "ladim_plugins/shrimp/ibm.py",
               "below the horizon: light %r is not the band value %r of shrimp.sunheight %r (lon %r)"
               % (L[bad[:3]].tolist(), want[bad[:3]].tolist(), h[bad[:3]].tolist(), np.asarray(lon)[bad[:3]].tolist()), cs)
    bad = np.flatnonzero(~tw & ~(L >= 5.76 * (1 - 1e-12)))
    ctx.oracle(len(bad) == 0, "C16.sunheight.copies_differ", "ladim_plugins/shrimp/ibm.py",
               "shrimp.sunheight %r >= 0 but light %r is below the day band" % (h[bad[:3]].tolist(), L[bad[:3]].tolist()), cs)
    if day_band and np.any(~tw):
        j = int(np.argmax(h))
        if h[j] > 1.0:
            ctx.branch("oracle.sunheight_copy.day_band")
            c = (L[j] - 5.76) / np.sin(np.radians(h[j]))
            wantd = 5.76 + c * np.sin(np.radians(h))
            bad = np.flatnonzero(~tw & ~np.isclose(L, wantd, rtol=1e-9, atol=0))
            ctx.oracle(len(bad) == 0, "C16.sunheight.copies_differ", "ladim_plugins/shrimp/ibm.py",
                       "above the horizon: light %r is not 5.76 + c*sin(shrimp.sunheight %r) = %r with c = %r from the "
                       "highest sun of this latitude" % (L[bad[:3]].tolist(), h[bad[:3]].tolist(), wantd[bad[:3]].tolist(), float(c)), cs)


def no_mixing(case, res, i):
    """the update of particle i had no random displacement: mixing configured off, or its recorded normal draw is
    exactly 0 (saithe's mixing coefficient is hard-coded; 0 is also among the injected boundary values)"""
    if not case["D"]:
        return True
    xi = res.get("xi")
    return xi is not None and float(np.asarray(xi)[i]) == 0.0


def egg_speed(T, S, buoy, diam):
    """sinking speed (positive down) of an egg from the formula functions judged by `oracles` (utils.eos, sinkvel_egg)
    together with the densities of the egg and of the water"""
    eos = M("utils.eos"); lar = M("larvae.ibm")
    A = lambda x: np.array([float(x)])
    rw = float(eos.calc_density(A(T), A(S))[0]); re_ = float(eos.calc_density(A(T), A(buoy))[0])
    with np.errstate(all="ignore"):
        v = float(np.asarray(lar.sinkvel_egg(eos.viscosity(A(T), A(S)), A(rw), A(re_), float(diam)))[0])
    return v, rw, re_


def swim_oracle(ctx, name, case, res):
    b, a, n = res["before"], res["after"], res["n"]
    site = "ladim_plugins/%s/ibm.py" % name
    dt = float(case["dt"])
    for i in range(n):
        cs = dict(module=name, case=ibmrun.case_summary(case), particle=i, before={k: v[i] for k, v in b.items()},
                  after={k: v[i] for k, v in a.items()})
        dz = a["z"][i] - b["z"][i]
        z0 = float(b["z"][i])
        if name in ("larvae", "saithe"):
            if not no_mixing(case, res, i):
                continue
            if case["D"]:
                ctx.branch("swim.%s.judged_with_zero_draw" % name)
            sp = case["sp"]
            lo, hi = float(sp["min_depth"]), float(sp["max_depth"])
            if res["meta"]["is_egg"][i]:
                # eggs inside the larvae modules: lighter than the water -> up, denser -> down, neutral -> no movement;
                # larvae eggs are kept inside [min_depth, max_depth], saithe eggs only below the surface
                v, rw, re_ = egg_speed(a["temp"][i], a["salt"][i], case["buoy"][i], sp["egg_diam"])
                floor, ceil = (0.0, float("inf")) if name == "saithe" else (lo, hi)
                step = v * dt
                csd = dict(cs, dens_water=rw, dens_egg=re_, speed=v)
                if re_ == rw:
                    ctx.branch("swim.%s.egg_neutral" % name)
                    if floor <= z0 <= ceil:
                        ctx.oracle(dz == 0, "C16.%s.egg_direction" % name, site, "neutrally buoyant egg moved: dZ=%r" % dz, csd)
                    continue
                if abs(step) <= 1e-9 * (1 + abs(z0)):
                    ctx.branch("swim.%s.egg_step_below_resolution" % name); continue    # lost in the rounding of Z
                ctx.branch("swim.%s.egg_judged" % name)
                if re_ > rw and z0 < ceil:
                    ctx.oracle(dz > 0, "C16.%s.egg_direction" % name, site,
                               "egg denser than the water (%r > %r) at Z=%r but dZ=%r" % (re_, rw, z0, dz), csd)
                if re_ < rw and z0 > floor:
                    ctx.oracle(dz < 0, "C16.%s.egg_direction" % name, site,
                               "egg lighter than the water (%r < %r) at Z=%r but dZ=%r" % (re_, rw, z0, dz), csd)
                if floor < z0 + step < ceil and floor <= z0 <= ceil:
                    # the speed is the sinking speed of the *configured* diameter (species default or its override).
                    # 1e-6 relative: the code narrows the velocity and its product with dt to float32 (2 x 6e-8);
                    # 1e-12*(1+Z): rounding of Z + step
                    ctx.oracle(abs(dz - step) <= 1e-6 * abs(step) + 1e-12 * (1 + abs(z0)), "C16.%s.egg_speed" % name, site,
                               "egg moved %r in dt=%r, sinking speed of diameter %r is %r (step %r)" % (dz, dt, sp["egg_diam"], v, step), csd)
                continue
            Eb = res["meta"]["light0"][i] * math.exp(-case["k"] * b["z"][i])
            des = float(sp["light"])
            if float(sp["swim_speed"]) == 0:
                # swim speed 0: the larva is passive whatever the light (it only is put back into its depth band)
                if lo <= z0 <= hi:
                    ctx.branch("swim.%s.passive_larva" % name)
                    ctx.oracle(dz == 0, "C16.%s.passive_larva_moves" % name, site,
                               "swim_speed 0 but dZ=%r (light at depth %r, preferred %r)" % (dz, Eb, des), cs)
                continue
            if abs(Eb - des) < 1e-9 * max(1, des):
                continue
            ctx.branch("swim.%s.larva_judged" % name)
            if abs(Eb - des) < 0.2 * des:
                ctx.branch("swim.%s.larva_near_isolume" % name)
            if Eb > des and b["z"][i] < hi:
                ctx.oracle(dz > 0, "C16.%s.light_at_depth" % name, site,
                           "light at depth %r > preferred %r (surface %r, k=%r, Z=%r) but dZ=%r" % (Eb, des, res["meta"]["light0"][i], case["k"], b["z"][i], dz), cs)
            if Eb < des and b["z"][i] > lo:
                ctx.oracle(dz < 0, "C16.%s.light_at_depth" % name, site,
                           "light at depth %r < preferred %r (surface %r, k=%r, Z=%r) but dZ=%r" % (Eb, des, res["meta"]["light0"][i], case["k"], b["z"][i], dz), cs)
        elif name == "egg":
            if not no_mixing(case, res, i):
                continue
            v, rw, re_ = egg_speed(a["temp"][i], a["salt"][i], case["buoy"][i], case["diam"])
            step = v * dt
            csd = dict(cs, dens_water=rw, dens_egg=re_, speed=v)
            if re_ == rw:
                ctx.branch("swim.egg.neutral")
                ctx.oracle(dz == 0, "C16.egg.direction", site, "neutrally buoyant egg moved: dZ=%r" % dz, csd)
                continue
            if abs(step) <= 1e-9 * (1 + abs(z0)):
                ctx.branch("swim.egg.step_below_resolution"); continue
            ctx.branch("swim.egg.judged")
            if re_ > rw and z0 + step < 200.0 * (1 - 1e-9):          # (from 200 m on the egg is put back to 199 m)
                ctx.oracle(dz > 0, "C16.egg.direction", site,
                           "egg denser than the water (%r > %r) at Z=%r but dZ=%r" % (re_, rw, z0, dz), csd)
            if re_ < rw and z0 > abs(step) * (1 + 1e-9):             # (closer to the surface the egg is mirrored back below it)
                ctx.oracle(dz < 0, "C16.egg.direction", site,
                           "egg lighter than the water (%r < %r) at Z=%r but dZ=%r" % (re_, rw, z0, dz), csd)
        elif name == "salmon_lice":
            if not no_mixing(case, res, i) or not (1e-3 < b["z"][i] < 18.9):
                continue
            Eb = res["meta"]["light0"][i] * math.exp(-0.2 * b["z"][i])
            salt = a["salt"][i]
            below_step = not (b["z"][i] > 5e-4 * case["dt"] + 1e-9)
            if abs(Eb - 0.01) < 0.2 * 0.01:
                ctx.branch("swim.salmon_lice.near_light_threshold")
            if salt < 20:
                ctx.oracle(dz > 0, "C16.salmon_lice.down_in_fresh", site, "salt %r but dZ=%r" % (salt, dz), cs)
            elif salt >= 32 and Eb >= 0.0100001 and b["z"][i] > 5e-4 * case["dt"] + 1e-9:
                # (closer to the surface than one swimming step the louse is mirrored back below it)
                ctx.oracle(dz < 0, "C16.salmon_lice.up_in_light", site, "light %r, salt %r but dZ=%r" % (Eb, salt, dz), cs)
            elif salt >= 32 and Eb < 0.0099999:
                ctx.oracle(dz == 0, "C16.salmon_lice.moves_in_dark", site, "light %r, salt %r but dZ=%r" % (Eb, salt, dz), cs)
            elif 20 <= salt < 32:
                # inside the tolerance windows.  The stage is the one after the ageing of this update; the tolerance of
                # a copepodid lies in (20, 28], that of a nauplius in (30, 32] (documented: 28 - 8r, 32 - 2r, r uniform)
                naup = bool(a["age"][i] < 40)
                t_lo, t_hi = (30.0, 32.0) if naup else (20.0, 28.0)
                r = res.get("r")
                csd = dict(cs, nauplius=naup, light=Eb, r=None if r is None else float(r[i]))

                def by_light(pred, why):
                    if Eb >= 0.0100001 and not below_step:
                        ctx.oracle(dz < 0, pred, site, "%s, light %r: must swim up, dZ=%r" % (why, Eb, dz), csd)
                    elif Eb < 0.0099999:
                        ctx.oracle(dz == 0, pred, site, "%s, light %r: must not move, dZ=%r" % (why, Eb, dz), csd)
                if salt < t_lo:
                    ctx.branch("swim.salmon_lice.nauplius_below_30")
                    ctx.oracle(dz > 0, "C16.salmon_lice.down_in_fresh", site,
                               "nauplius (age' %r) in salt %r < 30 but dZ=%r" % (a["age"][i], salt, dz), csd)
                elif salt >= t_hi:
                    ctx.branch("swim.salmon_lice.copepodid_from_28")
                    by_light("C16.salmon_lice.up_in_light" if Eb >= 0.01 else "C16.salmon_lice.moves_in_dark",
                             "copepodid (age' %r) in salt %r >= 28 is not too fresh" % (a["age"][i], salt))
                elif r is not None:
                    tol = (32 - r[i] * 2) if naup else (28 - r[i] * 8)
                    ctx.branch("swim.salmon_lice.inside_tolerance_window")
                    if salt < tol:
                        ctx.oracle(dz > 0, "C16.salmon_lice.tolerance_rule", site,
                                   "salt %r below the tolerance %r (nauplius=%r, r=%r) but dZ=%r" % (salt, tol, naup, r[i], dz), csd)
                    else:
                        by_light("C16.salmon_lice.tolerance_rule", "salt %r not below the tolerance %r (nauplius=%r, r=%r)" % (salt, tol, naup, r[i]))
        elif name == "shrimp":
            if "pref" not in res["meta"]:
                continue
            k = int(res["meta"]["int_stage"][i])
            # position after the module's own mixing step (recorded draw, the code's expression, reflected at the
            # surface); with mixing off this is the position before the update
            xi = res.get("xi")
            z1 = z0
            if case["vm"][k] != 0:
                if xi is None:
                    continue
                z1 = z0 + float(np.sqrt(2 * np.float64(case["vm"][k]) * res["ibm"].dt)) * float(xi[i])
                z1 = -z1 if z1 < 0 else z1
                ctx.branch("swim.shrimp.judged_after_mixing")
            # day or night from the light model (the day band starts at sun height 0), not from the module's own copy
            pref = res["meta"]["pref"][i]
            lon, lat = case["env"].lonlat(case["x"][i:i + 1], case["y"][i:i + 1])
            L0 = float(M("utils.light").surface_light(case["ts"], lon, lat)[0])
            if abs(L0 - 5.76) > 1e-9:
                day = L0 > 5.76
                mind = (case["mind_d"] if day else case["mind_n"])[k]; maxd = (case["maxd_d"] if day else case["maxd_n"])[k]
                pref_l = mind + (maxd - mind) * a["q"][i]
                if pref_l != pref:
                    ctx.branch("swim.shrimp.day_night_differs_between_copies")
                pref = pref_l
                ctx.branch("swim.shrimp.day" if day else "swim.shrimp.night")
            ctx.oracle(abs(a["z"][i] - pref) <= abs(z1 - pref) + 1e-12, "C16.shrimp.away_from_preferred", site,
                       "Z %r (after mixing %r) -> %r, preferred %r" % (b["z"][i], z1, a["z"][i], pref), cs)
            if case["vs"][k] > 0 and abs(z1 - pref) > 1e-9:
                ctx.oracle(abs(a["z"][i] - pref) < abs(z1 - pref), "C16.shrimp.not_toward_preferred", site,
                           "Z %r (after mixing %r) -> %r, preferred %r" % (b["z"][i], z1, a["z"][i], pref), cs)


# ------------------------------------------------------------------------------------------ generators of this check
def when(rng):
    """a timestamp as LADiM hands it out (`datetime64[s]`): any day of the year, any hour, minutes and seconds"""
    return rnd_ts(rng)[0].astype("datetime64[s]")


def scatter(rng, case, keep_xy=False):
    """per-particle positions on a stub grid whose longitude and latitude vary with them (both hemispheres, the
    antimeridian); `keep_xy`: saithe with extra_spreading moves X, Y itself, only the origin is varied then"""
    env = case["env"]; n = len(case["x"])
    env.lat0 = rng.choice([-80.0, -66.0, -45.0, -10.0, 0.0, 45.0, 60.0, 70.0, 80.0])
    env.lon0 = rng.choice([-180.0, -170.0, -30.0, 5.0, 20.0, 170.0, 180.0])
    if keep_xy:
        return
    env.laty = rng.choice([0.0, 0.25, -0.25])
    env.lonx = rng.choice([0.0, 0.5, -0.5])
    if env.lon0 == 180.0 and env.lonx > 0 or env.lon0 == -180.0 and env.lonx < 0:
        env.lonx = -env.lonx                                    # longitudes stay inside [-180, 180]
    case["x"] = np.array([rng.choice([5.0, rng.uniform(1, 19), rng.uniform(1, 19)]) for _ in range(n)])
    case["y"] = np.array([rng.choice([5.0, rng.uniform(1, 19), rng.uniform(1, 19)]) for _ in range(n)])


def near_isolume(ctx, rng, case, thr, k, lo, hi, who=None, p=0.35):
    """moves particles next to the depth where the surface light attenuated with `k` equals `thr`"""
    n = len(case["x"])
    if not n or not k > 0 or not thr > 0:
        return
    lon, lat = case["env"].lonlat(case["x"], case["y"])
    L0 = M("utils.light").surface_light(case["ts"], lon, lat)
    for i in range(n):
        if (who is None or who[i]) and L0[i] > thr and rng.random() < p:
            zs = math.log(L0[i] / thr) / k
            if lo < zs < hi:
                # next to it, or up to twice / half as deep (where a wrong extinction coefficient changes the answer)
                case["z"][i] = min(hi, max(lo, rng.choice([zs - 0.5, zs - 1e-3, zs - 1e-6, zs + 1e-6, zs + 1e-3, zs + 0.5,
                                                           zs * rng.uniform(0.5, 1.0), zs * rng.uniform(1.0, 2.0)])))
                ctx.branch("gen.%s.placed_next_to_isolume" % case["kind"])


def make_gens(ctx):
    def lice_gen(rng, n=None):
        case = ibmrun.lice_case(rng, n)
        case["ts"] = when(rng)
        if rng.random() < 0.6:
            env = case["env"]
            env.s0 = rng.choice([20.0, 22.0, 24.0, 25.0, 26.0, 27.9, 28.0, 29.0, 30.0, 30.5, 31.0, 31.9, 32.0])
            env.sz = rng.choice([0.0, 0.0, 0.01])
            if rng.random() < 0.6:
                case["D"] = 0.0
            ctx.branch("gen.salmon_lice.salinity_in_tolerance_windows")
        scatter(rng, case)
        if rng.random() < 0.35:
            # twilight: a longitude (at this time and latitude) where the surface light is such that the 0.01 threshold
            # is reached inside the 0..19 m band; no mixing, so that the lice next to that depth are judged
            env = case["env"]
            lons = np.linspace(-180.0, 180.0, 1441)
            L = M("utils.light").surface_light(case["ts"], lons, np.full_like(lons, env.lat0))
            idx = np.flatnonzero((L > 0.0102) & (L < 0.44))
            if len(idx):
                env.lon0 = float(lons[rng.choice(idx.tolist())]); env.lonx = 0.0; env.laty = 0.0
                case["D"] = 0.0
                if rng.random() < 0.6:
                    env.s0 = rng.choice([33.0, 34.5, 36.0]); env.sz = 0.0
                ctx.branch("gen.salmon_lice.twilight")
                near_isolume(ctx, rng, case, 0.01, 0.2, 0.0, 19.0, p=0.9)
                return case
        near_isolume(ctx, rng, case, 0.01, 0.2, 0.0, 19.0, p=0.6)
        return case

    def larvae_gen(module):
        def gen(rng, n=None):
            case = ibmrun.larvae_case(rng, n, module)
            case["ts"] = when(rng)
            if module == "saithe":
                if rng.random() < 0.6:
                    case["force_normal"] = 0.0          # every normal draw 0: the hard-coded mixing adds nothing
                    ctx.branch("gen.saithe.normal_draws_zero")
            elif rng.random() < 0.3:
                # a parameter overridden with the boundary value 0 (int or float): no preferred light (every lit depth is
                # too bright), passive larvae, a band that starts at the surface
                over = dict(case["over"]); sp = dict(case["sp"])
                key = rng.choice(["light", "min_depth", "swim_speed"])
                old_lo = float(sp["min_depth"])
                over[key] = sp[key] = rng.choice([0, 0.0])
                case["over"] = over; case["sp"] = sp
                if key == "min_depth":
                    for i in range(len(case["z"])):
                        if rng.random() < 0.5:
                            case["z"][i] = rng.choice([0.0, 1e-9, rng.uniform(0.0, max(old_lo, 1.0))])
                ctx.branch("gen.larvae.zero_override.%s" % key)
            elif not case["over"] and rng.random() < 0.8:
                # single parameters overridden, the others at the species default
                over = {}; sp = dict(case["sp"])
                for key, vals in rng.sample([("light", [0.01, 0.5, 50]), ("swim_speed", [0.05, 0.5]),
                                             ("egg_diam", [0.0005, 0.003]), ("init_larvae_weight", [0.05, 0.2])],
                                            rng.choice([1, 1, 2])):
                    over[key] = sp[key] = rng.choice(vals)
                    ctx.branch("gen.larvae.single_override.%s" % key)
                case["over"] = over; case["sp"] = sp
            scatter(rng, case, keep_xy=bool(case.get("spread")))
            sp = case["sp"]
            near_isolume(ctx, rng, case, float(sp["light"]), case["k"], float(sp["min_depth"]), float(sp["max_depth"]),
                         who=case["age"] > float(sp["hatch_day"]))
            return case
        return gen

    def shrimp_gen(rng, n=None):
        case = ibmrun.shrimp_case(rng, n)
        case["ts"] = when(rng)
        scatter(rng, case)
        return case
    return dict(salmon_lice=lice_gen, larvae=larvae_gen("larvae"), saithe=larvae_gen("saithe"), shrimp=shrimp_gen)


def shrimp_time_fallback(ctx, gen):
    """`diel_migration` reads `state.timestamp` and, for a state without that attribute, `state['time']`: the same
    particles, draws and time through the fallback must end at the same depths"""
    from .stubs import NumState
    for c in range(ctx.n(20, 300)):
        case = gen(ctx.rng, n=ctx.rng.randrange(1, 7))
        n = len(case["x"])
        seed = ctx.sub_seed()
        res = ibmrun.shrimp_run(case, seed, None, None)
        st = NumState(X=case["x"].copy(), Y=case["y"].copy(), Z=case["z"].copy(), stage=case["stage"].copy(),
                      depth_quantile=case["q"].copy(), age=case["age"].copy(), temp=np.zeros(n), salt=np.zeros(n),
                      length=np.zeros(n), alive=np.ones(n, dtype=bool), active=np.ones(n, dtype=bool), time=case["ts"])
        res2 = ibmrun.shrimp_run(case, seed, None, None, state=st)
        ctx.case(key=("shrimp_time_fallback", repr(ibmrun.case_summary(case))), nontrivial=True)
        ctx.branch("oracle.shrimp.time_fallback")
        swim_oracle(ctx, "shrimp", case, res2)
        ctx.oracle(np.array_equal(res["after"]["z"], res2["after"]["z"]), "C16.shrimp.time_fallback_differs",
                   "ladim_plugins/shrimp/ibm.py", "with state.timestamp: Z' %r, with state['time']: %r"
                   % (res["after"]["z"].tolist(), res2["after"]["z"].tolist()), dict(case=ibmrun.case_summary(case)))


# ------------------------------------------------------------------- histories of ONE IBM object in a changing world
# The formulas of the property are functions of the water, the light and the particle the update is called with NOW.
# LADiM calls `update_ibm` of one IBM object once per time step for the whole simulation: between two calls the
# particles have drifted into other water (temperature, salinity), the clock has advanced (light), particles have
# been removed and others released (the array slots change owner, with or without a change of the particle count).
# Every clause must hold at every step of such a history, and nothing but the state and the environment of the
# current call may enter: a fresh IBM object given the same state, environment and draws must give the same result.
HIST_MODULES = ("egg", "larvae", "saithe", "salmon_lice", "shrimp")
CASE_TO_STATE = dict(x="X", y="Y", z="Z", age="age", buoy="egg_buoy", weight="weight", days="days", super="super",
                     stage="stage", q="depth_quantile", direction="direction")
T_VALUES = [-2.0, -1.0, 0.0, 2.0, 4.0, 6.0, 6.5, 8.0, 9.0, 12.0, 14.0, 18.0, 25.0, 32.0, 40.0]
S_VALUES = [0.0, 5.0, 15.0, 19.9, 20.0, 24.0, 27.9, 28.0, 29.0, 30.0, 31.0, 31.9, 32.0, 33.0, 34.0, 34.5, 35.0, 36.0, 38.0, 42.0]


def _is_stub(state):
    from .stubs import NumState
    return isinstance(state, NumState)


def state_arrays(state):
    """{variable: per-particle array} of the real State / of the stub state"""
    d = state.__dict__["_d"] if _is_stub(state) else state._data
    return {k: v for k, v in d.items() if isinstance(v, np.ndarray) and v.ndim == 1}


def clone_state(state):
    """an independent copy of a state (same container type, copied arrays, same dt / timestep / timestamp)"""
    from .stubs import NumState
    if _is_stub(state):
        return NumState(**{k: (v.copy() if isinstance(v, np.ndarray) else v) for k, v in state.__dict__["_d"].items()})
    from ladim.state import State
    s = State()
    s._data = {k: np.array(v).copy() for k, v in state._data.items()}
    s._num_released = state._num_released
    s._varnames = set(state._varnames)
    for k in ("dt", "timestep", "timestamp"):
        if k in state.__dict__:
            setattr(s, k, state.__dict__[k])
    return s


def hist_state(name, case, stub, time_key="timestamp"):
    """the state of step 0: the real LADiM State or the stub state of the repository's own tests (item and attribute
    access, arrays keep their dtype), with the variables the module's ladim.yaml lists"""
    from .stubs import NumState, real_state
    n = len(case["x"])
    arr = dict(X=case["x"].copy(), Y=case["y"].copy(), Z=case["z"].copy(), age=case["age"].copy(),
               temp=np.zeros(n), salt=np.zeros(n))
    if name == "egg":
        arr.update(egg_buoy=case["buoy"].copy()); dt = ibmrun.state_dt(case)
    elif name == "salmon_lice":
        arr.update(days=case["days"].copy(), super=case["super"].copy()); dt = case["sdt"]
    elif name in ("larvae", "saithe"):
        direction = case["direction"].copy() if (case.get("spread") and "direction" in case) else np.zeros(n)
        arr.update(weight=case["weight"].copy(), egg_buoy=case["buoy"].copy(), direction=direction); dt = case["sdt"]
    else:
        arr.update(stage=case["stage"].copy(), depth_quantile=case["q"].copy(), length=np.zeros(n)); dt = ibmrun.state_dt(case)
    if stub:
        kw = dict(arr, alive=np.ones(n, dtype=bool), active=np.ones(n, dtype=bool), pid=np.arange(n), dt=dt, timestep=0,
                  released=n)
        if name != "egg":
            kw[time_key] = case["ts"]
        return NumState(**kw)
    return real_state(dt=dt, timestamp=None if name == "egg" else case["ts"], **arr)


def st_remove(state, drop):
    if _is_stub(state):
        d = state.__dict__["_d"]
        for k, v in list(d.items()):
            if isinstance(v, np.ndarray) and v.ndim == 1 and len(v) == len(drop):
                d[k] = v[~drop].copy()
    else:
        state.remove(drop)


def st_append(state, new):
    """release particles: `new` maps variable names to arrays; variables not given start at 0 (as State.append has it)"""
    if not _is_stub(state):
        state.append({k: np.asarray(v) for k, v in new.items()})
        return
    d = state.__dict__["_d"]
    m = len(next(iter(new.values())))
    n = len(d["X"])
    for k, v in list(d.items()):
        if not (isinstance(v, np.ndarray) and v.ndim == 1 and len(v) == n):
            continue
        if k in new:
            add = np.asarray(new[k], dtype=v.dtype)
        elif k == "pid":
            add = np.arange(m) + d["released"]
        elif k in ("alive", "active"):
            add = np.ones(m, dtype=v.dtype)
        else:
            add = np.zeros(m, dtype=v.dtype)
        d[k] = np.concatenate([v, add])
    d["released"] = d["released"] + m


def sync_case(case, state):
    """the per-particle arrays of the case are those of the state (after an update / a move / a removal / a release)"""
    c = dict(case)
    for kc, ks in CASE_TO_STATE.items():
        if kc in c and ks in state:
            c[kc] = np.array(state[ks]).copy()
    return c


def z_band(name, case, is_egg=False):
    """depth band in which the tracker stand-in and the releases of a history place particles"""
    if name == "egg":
        return 0.0, 199.9
    if name == "salmon_lice":
        return 0.0, 19.9
    if name == "shrimp":
        return 0.0, 80.0
    if name == "saithe" and is_egg:
        return 0.0, 199.9
    return float(case["sp"]["min_depth"]), float(case["sp"]["max_depth"])


def keep_in_quantifier(case, state):
    """temperature in [-2, 40] and salinity in [0, 42] at every particle (the gradients of the stub fields are kept,
    the offsets are shifted)"""
    env = case["env"]
    if not len(state["X"]):
        return
    for nm, off, lo, hi in (("temp", "t0", -2.0, 40.0), ("salt", "s0", 0.0, 42.0)):
        v = env.field(state["X"], state["Y"], state["Z"], nm)
        if float(np.min(v)) < lo:
            setattr(env, off, getattr(env, off) + (lo - float(np.min(v))) + 1e-9)
        elif float(np.max(v)) > hi:
            setattr(env, off, getattr(env, off) - (float(np.max(v)) - hi) - 1e-9)


def buoy_near(rng, S):
    """an egg buoyancy (salinity equivalent) next to the salinity S of the water: neutral, slightly / clearly lighter
    or denser (0.2 salinity units are about 0.15 kg/m3, the effect of one degree of temperature)"""
    return max(0.0, S + rng.choice([0.0, 0.0, -0.02, 0.02, -0.1, 0.1, -0.2, 0.2, -0.5, 0.5, -1.0, 1.0, -3.0, 3.0]))


def new_particles(rng, name, case, m):
    """`m` particles as a release file would give them (variables of the module's ladim.yaml)"""
    env = case["env"]
    xs = np.array([rng.choice([5.0, rng.uniform(1, 19)]) for _ in range(m)])
    ys = np.array([rng.choice([5.0, rng.uniform(1, 19)]) for _ in range(m)])
    A = lambda f: np.array([float(f()) for _ in range(m)])
    new = dict(X=xs, Y=ys)
    if name == "egg":
        new["Z"] = A(lambda: rng.uniform(0.0, 199.0))
        new["age"] = A(lambda: rng.choice([0.0, rng.uniform(0, 100)]))
    elif name == "salmon_lice":
        new["Z"] = A(lambda: rng.choice([0.5, 5.0, rng.uniform(0.0, 19.9)]))
        new["age"] = A(lambda: rng.choice([0.0, 0.0, 39.99, 40.0, 100.0, rng.uniform(0, 160)]))
        new["days"] = np.zeros(m); new["super"] = A(lambda: rng.choice([1.0, 100.0]))
    elif name in ("larvae", "saithe"):
        hd = float(case["sp"]["hatch_day"])
        new["age"] = A(lambda: rng.choice([0.0, 0.0, hd - 1e-9, hd + 1.0, rng.uniform(0, 2 * hd)]))
        z = []
        for i in range(m):
            lo, hi = z_band(name, case, is_egg=new["age"][i] <= hd)
            z.append(rng.choice([lo, hi, rng.uniform(lo, hi), rng.uniform(lo, hi)]))
        new["Z"] = np.array(z)
        new["weight"] = A(lambda: rng.choice([0.0, 0.093, 0.5, 5.0]))
        new["direction"] = np.zeros(m)
    else:
        new["Z"] = A(lambda: rng.choice([0.0, 5.45, rng.uniform(0, 80)]))
        new["stage"] = A(lambda: rng.choice([0.0, 0.0, 1.0, 2.5, 5.0, rng.uniform(1, 6)]))
        new["depth_quantile"] = A(lambda: rng.choice([0.0, 0.0, 0.5, rng.uniform(0.001, 1)]))
        new["age"] = A(lambda: rng.choice([0.0, rng.uniform(0, 50)]))
    if name in ("egg", "larvae", "saithe"):
        S = env.field(new["X"], new["Y"], new["Z"], "salt")
        new["egg_buoy"] = np.array([rng.choice([buoy_near(rng, float(S[i])), buoy_near(rng, float(S[i])), 25.0, 31.0, 34.0, 36.0])
                                    for i in range(m)])
    return new


def hist_case(ctx, rng, name, gens):
    """step 0 of a history: a case of the module's generator (this check's own generators for the modules that have
    one), 1..6 particles, mixing mostly off so that every step is judged, eggs next to neutral buoyancy, particles
    spread over a grid whose water also varies horizontally"""
    gen = gens.get(name, ibmrun.MODULES[name][0])
    case = gen(rng, n=rng.randrange(1, 7))
    n = len(case["x"])
    env = case["env"]
    if name == "egg":
        case["x"] = np.array([rng.choice([5.0, rng.uniform(1, 19)]) for _ in range(n)])
        case["y"] = np.array([rng.choice([5.0, rng.uniform(1, 19)]) for _ in range(n)])
        case["z"] = np.array([rng.choice([rng.uniform(5, 195), rng.uniform(5, 195), 100.0, 0.5, 199.0]) for _ in range(n)])
    if rng.random() < 0.7:
        if name == "saithe":
            case["force_normal"] = 0.0
        elif name in ("egg", "salmon_lice", "larvae"):
            case["D"] = 0.0
    if rng.random() < 0.5:
        env.tx = rng.choice([0.1, -0.1, 0.2]); ctx.branch("hist.%s.horizontal_temperature_gradient" % name)
    if rng.random() < 0.5:
        env.sx = rng.choice([0.05, -0.05, 0.1]); ctx.branch("hist.%s.horizontal_salinity_gradient" % name)
    if rng.random() < 0.6:
        env.s0 = rng.choice([30.0, 33.0, 34.0, 34.5, 35.0])
    keep_in_quantifier(case, dict(X=case["x"], Y=case["y"], Z=case["z"]))
    if "buoy" in case:
        S = env.field(case["x"], case["y"], case["z"], "salt")
        case["buoy"] = np.array([buoy_near(rng, float(S[i])) if rng.random() < 0.7 else float(case["buoy"][i]) for i in range(n)])
    return case


def world_changes(ctx, rng, name, case, state, log):
    """what happens between two calls of `update_ibm`; returns the case of the next call"""
    env = case["env"]
    n = len(state["X"])
    what = []
    # -- the water: other temperature / salinity (the particles have drifted, the season advances), other stratification
    r = rng.random()
    if r < 0.55:
        env.t0 = rng.choice(T_VALUES + [rng.uniform(-2, 40)]); what.append("t0=%r" % env.t0)
        ctx.branch("hist.%s.temperature_changed" % name)
    if rng.random() < 0.45:
        env.s0 = rng.choice(S_VALUES + [rng.uniform(0, 42)]); what.append("s0=%r" % env.s0)
        ctx.branch("hist.%s.salinity_changed" % name)
    if rng.random() < 0.2:
        env.tz = rng.choice([0.0, -0.01, -0.05, 0.02]); env.sz = rng.choice([0.0, 0.01, 0.03])
        what.append("tz=%r sz=%r" % (env.tz, env.sz)); ctx.branch("hist.%s.stratification_changed" % name)
    # -- the clock (light, day / night): one time step later, or any other time of the year
    if name != "egg":
        if rng.random() < 0.5:
            ts = case["ts"] + np.timedelta64(int(case["dt"]), "s"); ctx.branch("hist.%s.clock_advanced_by_dt" % name)
        else:
            ts = when(rng); ctx.branch("hist.%s.other_time_of_year" % name)
        case = dict(case, ts=ts)
        if "time" in state:
            state["time"] = ts
        else:
            state.timestamp = ts
        what.append("time=%s" % ts)
    # -- removals and releases: with a change of the particle count, or with the same count (slots change owner)
    r = rng.random()
    if n and r < 0.30:
        k = n if rng.random() < 0.25 else 1
        drop = np.zeros(n, bool)
        drop[rng.sample(range(n), k)] = True
        st_remove(state, drop)
        st_append(state, new_particles(rng, name, case, k))
        what.append("removed %r, released %d (same count)" % (np.flatnonzero(drop).tolist(), k))
        ctx.branch("hist.%s.slots_change_owner_same_count" % name)
    elif n >= 2 and r < 0.40:
        drop = np.zeros(n, bool); drop[rng.randrange(n)] = True
        st_remove(state, drop)
        what.append("removed %r" % np.flatnonzero(drop).tolist()); ctx.branch("hist.%s.particle_removed" % name)
    elif r < 0.50:
        k = rng.choice([1, 1, 2])
        st_append(state, new_particles(rng, name, case, k))
        what.append("released %d" % k); ctx.branch("hist.%s.particle_released" % name)
    else:
        ctx.branch("hist.%s.same_particles" % name)
    # -- the tracker: horizontal and vertical advection of the particles that are there
    n = len(state["X"])
    if n and rng.random() < 0.6:
        hd = float(case["sp"]["hatch_day"]) if name in ("larvae", "saithe") else None
        for i in range(n):
            if rng.random() < 0.6:
                state["X"][i] = min(19.0, max(1.0, state["X"][i] + rng.uniform(-1.5, 1.5)))
                state["Y"][i] = min(19.0, max(1.0, state["Y"][i] + rng.uniform(-1.5, 1.5)))
                lo, hi = z_band(name, case, is_egg=(hd is not None and state["age"][i] <= hd))
                state["Z"][i] = min(hi, max(lo, state["Z"][i] + rng.choice([0.0, rng.uniform(-3, 3), rng.uniform(-30, 30)])))
        what.append("advected"); ctx.branch("hist.%s.advected_between_steps" % name)
    keep_in_quantifier(case, state)
    state.timestep = state.timestep + 1
    log.append("; ".join(what) or "nothing changed")
    return sync_case(case, state)


def egg_history_oracle(ctx, name, case, res, pre, cs):
    """Eggs (egg module; eggs inside larvae / saithe) at one step of a history, from the water at the egg's position
    when the update is called (the stub field itself, not what the module stored): egg_buoy is a salinity equivalent
    and density increases with salinity, so an egg with egg_buoy < salinity is lighter than the water and must not
    move down, one with egg_buoy > salinity must not move up, one with egg_buoy == salinity must stay; the movement is
    strict where the step is above the rounding of Z; the egg module moves by dt x the sinking speed of the larvae
    module's copy of the formula."""
    env = case["env"]
    b, a = res["before"], res["after"]
    site = "ladim_plugins/%s/ibm.py" % name
    dt = float(case["dt"])
    X, Y, Z0 = pre["X"], pre["Y"], pre["Z"]
    T = env.field(X, Y, Z0, "temp"); S = env.field(X, Y, Z0, "salt")
    pred = "C16.egg.direction" if name == "egg" else "C16.%s.egg_direction" % name
    diam = case["diam"] if name == "egg" else case["sp"]["egg_diam"]
    for i in range(res["n"]):
        if name != "egg" and not res["meta"]["is_egg"][i]:
            continue
        if not no_mixing(case, res, i):
            continue
        z0 = float(Z0[i]); dz = float(a["z"][i]) - z0
        buoy = float(pre["egg_buoy"][i])
        if name == "egg":
            floor, ceil = 0.0, 200.0
        elif name == "saithe":
            floor, ceil = 0.0, float("inf")
        else:
            floor, ceil = float(case["sp"]["min_depth"]), float(case["sp"]["max_depth"])
        if not (floor <= z0 <= ceil):
            continue
        v, rw, re_ = egg_speed(float(T[i]), float(S[i]), buoy, diam)
        step = v * dt
        csd = dict(cs, particle=i, Z=z0, dZ=dz, temp=float(T[i]), salt=float(S[i]), egg_buoy=buoy, egg_diam=diam, dt=dt,
                   speed_of_larvae_copy=v)
        ctx.branch("hist.%s.egg_judged" % name)
        resolvable = abs(step) > 1e-9 * (1 + abs(z0))
        if buoy == float(S[i]):
            ctx.branch("hist.%s.egg_neutral" % name)
            ctx.oracle(dz == 0, pred, site, "neutrally buoyant egg (egg_buoy == salinity == %r, T=%r) moved: dZ=%r"
                       % (buoy, float(T[i]), dz), csd)
        elif buoy < float(S[i]):
            # lighter: never down; up, unless it is at the top of its band.  (The egg module mirrors an egg that would
            # pass the surface back below it: |Z'| < Z still holds unless the step is more than twice the depth.)
            mirrored = name == "egg" and z0 + step < 0
            if not mirrored:
                ctx.oracle(dz <= 0, pred, site, "egg lighter than the water (egg_buoy %r < salinity %r, T=%r) moved down: "
                           "Z=%r dZ=%r" % (buoy, float(S[i]), float(T[i]), z0, dz), csd)
                if resolvable and z0 > floor:
                    ctx.oracle(dz < 0, pred, site, "egg lighter than the water (egg_buoy %r < salinity %r, T=%r) does not "
                               "rise: Z=%r dZ=%r" % (buoy, float(S[i]), float(T[i]), z0, dz), csd)
        else:
            capped = name == "egg" and z0 + step >= 200.0 * (1 - 1e-9)        # put back to 199 m
            if not capped:
                ctx.oracle(dz >= 0, pred, site, "egg denser than the water (egg_buoy %r > salinity %r, T=%r) moved up: "
                           "Z=%r dZ=%r" % (buoy, float(S[i]), float(T[i]), z0, dz), csd)
                if resolvable and z0 < ceil:
                    ctx.oracle(dz > 0, pred, site, "egg denser than the water (egg_buoy %r > salinity %r, T=%r) does not "
                               "sink: Z=%r dZ=%r" % (buoy, float(S[i]), float(T[i]), z0, dz), csd)
        if name == "egg" and 0 < z0 + step < 200.0 * (1 - 1e-9):
            # egg module vs larvae module (sinkvel_egg on utils.density / utils.viscosity), at this step's water.
            # 1e-9 relative: libm pow, the 1e-16 regulariser of the larvae copy; 2^-50 (|Z| + |step|): Z' = Z + W dt and
            # dZ = Z' - Z are two roundings of at most 2^-53 (|Z| + |step|) each
            ctx.oracle(abs(dz - step) <= 1e-9 * abs(step) + 2.0 ** -50 * (abs(z0) + abs(step)), "C16.sink_speed.copies_differ", site,
                       "egg module moved the egg by %r in dt=%r; larvae.sinkvel_egg with utils density / viscosity at "
                       "T=%r, S=%r, egg_buoy=%r, diameter %r gives %r m/s, i.e. %r" % (dz, dt, float(T[i]), float(S[i]), buoy, diam, v, step), csd)


def histories(ctx, gens):
    import random as _random
    drv = Driver()
    use_drv = drv.available and not getattr(ctx, "widened", False)
    pending = []
    for name in HIST_MODULES:
        runner = ibmrun.MODULES[name][1]
        for h in range(ctx.n(30, 500)):
            case = hist_case(ctx, ctx.rng, name, gens)
            stub = ctx.rng.random() < 0.3
            time_key = "time" if (name == "shrimp" and stub and ctx.rng.random() < 0.4) else "timestamp"
            state = hist_state(name, case, stub, time_key)
            keep_in_quantifier(case, state)
            ctx.branch("hist.%s.%s" % (name, "stub_state" if stub else "real_state"))
            steps = ctx.rng.randrange(3, 9)
            if ctx.tier == "thorough" and ctx.rng.random() < 0.15:
                steps = ctx.rng.randrange(9, 25); ctx.branch("hist.%s.long_history" % name)
            ibm = None
            log = []
            for s in range(steps):
                if not len(state["X"]):
                    break
                seed = ctx.sub_seed(); iseed = ctx.sub_seed()
                inject = (lambda: ibmrun.tail_injector(_random.Random(iseed), 0.1)) if ctx.rng.random() < 0.5 else (lambda: None)
                pre = {k: v.copy() for k, v in state_arrays(state).items()}
                twin = clone_state(state)
                env_now = case["env"].asdict()
                res = runner(case, seed, drv if use_drv else None, inject(), ibm=ibm, state=state)
                ibm = res["ibm"]
                cs = dict(module=name, history=h, step=s, changes_before_each_step=list(log), container="stub" if stub else "State",
                          case=ibmrun.case_summary(case), env_at_this_step=env_now, state_before={k: v.tolist() for k, v in pre.items()},
                          draws_seed=seed, injector_seed=iseed)
                ctx.case(key=(name, "world_hist", h, s, repr(env_now), repr(pre["Z"].tolist())), nontrivial=True)
                ctx.branch("hist.%s.step" % name)
                if s:
                    ctx.branch("hist.%s.later_step" % name)
                # (1) the clauses of the property at this step
                swim_oracle(ctx, name, case, res)
                if name in ("egg", "larvae", "saithe"):
                    egg_history_oracle(ctx, name, case, res, pre, cs)
                # (2) nothing but the current state and environment enters: a fresh IBM object, same state, same draws
                res2 = runner(case, seed, None, inject(), ibm=None, state=twin)
                got = state_arrays(state); want = state_arrays(twin)
                for k in sorted(want):
                    same = k in got and got[k].shape == want[k].shape and (
                        np.array_equal(got[k], want[k], equal_nan=True) if want[k].dtype.kind == "f" else np.array_equal(got[k], want[k]))
                    ctx.oracle(same, "C16.%s.depends_on_history" % name, "ladim_plugins/%s/ibm.py" % name,
                               "step %d of a history of one IBM object (changes since the previous call: %s): %s after the "
                               "update %r, a fresh IBM object on the same state, water, time and draws gives %r"
                               % (s, log[-1] if log else "-", k, got.get(k, np.zeros(0)).tolist(), want[k].tolist()), cs)
                if use_drv:
                    pending.append((name, case, res))
                case = world_changes(ctx, ctx.rng, name, sync_case(case, state), state, log)
    if use_drv:
        replies = drv.run()
        for name, case, res in pending:
            if "finish" in res:
                res["finish"](replies)
            c05.compare(ctx, name, case, res, c05.KEYS[name])


def run(ctx):
    drv = Driver()
    if getattr(ctx, "widened", False):
        drv.available = False
    translator_validation(ctx, drv)
    oracles(ctx)
    gens = make_gens(ctx)
    shrimp_time_fallback(ctx, gens["shrimp"])
    c05.run(ctx, modules=["larvae", "saithe", "salmon_lice", "shrimp", "egg"], oracle=swim_oracle, gens=gens)
    histories(ctx, gens)


def replay(payload):
    print("predicate:", payload.get("predicate"), "|", payload.get("detail"))
    return False
