"""Synthetic ROMS-style NetCDF files for the chemicals / sedimentation Grid and Forcing classes."""
import numpy as np


def write_roms(path, rng, nx=8, ny=7, N=4, frame_times=(0, 3600, 7200), t0="2015-09-07 01:00:00", fields=("temp", "AKs"),
               dtype="f8", mask=None, flat=None, values=None, write_grid=True, time_unit="seconds", epoch=None, pack=None):
    """frame_times: seconds since t0.  Returns dict with the arrays written.
    values: optional dict name -> array to use instead of random values.
    time_unit / epoch: encode ocean_time as '<time_unit> since <epoch>' (seconds | hours | days; epoch defaults to t0);
      the frames stay at t0 + frame_times.
    pack: optional dict name -> (scale_factor, add_offset): that variable is stored as int16 with the CF packing
      attributes (as in the shipped forcing.nc); out[name] then holds the *decoded* values raw*scale_factor + add_offset
      (float64) and out['raw_' + name] the stored integers."""
    import netCDF4
    nt = len(frame_times)
    ds = netCDF4.Dataset(path, "w")
    ds.createDimension("ocean_time", None)
    ds.createDimension("s_rho", N); ds.createDimension("s_w", N + 1)
    ds.createDimension("eta_rho", ny); ds.createDimension("xi_rho", nx)
    ds.createDimension("eta_u", ny); ds.createDimension("xi_u", nx - 1)
    ds.createDimension("eta_v", ny - 1); ds.createDimension("xi_v", nx)
    out = {}
    R = np.random.RandomState(rng.randrange(2 ** 31))
    if write_grid:
        h = np.full((ny, nx), flat) if flat is not None else 20.0 + 80.0 * R.rand(ny, nx)
        M = np.ones((ny, nx)) if mask is None else np.asarray(mask, dtype=float)
        pm = 1.0 / (700.0 + 200.0 * R.rand(ny, nx)); pn = 1.0 / (700.0 + 200.0 * R.rand(ny, nx))
        lon = 5.0 + 0.01 * np.arange(nx)[None, :] + 0.001 * np.arange(ny)[:, None]
        lat = 60.0 + 0.005 * np.arange(ny)[:, None] + 0.0005 * np.arange(nx)[None, :]
        for name, arr in (("h", h), ("mask_rho", M), ("pm", pm), ("pn", pn), ("lon_rho", lon), ("lat_rho", lat), ("angle", 0.1 * R.rand(ny, nx))):
            v = ds.createVariable(name, "f8", ("eta_rho", "xi_rho")); v[:] = arr; out[name] = arr
        hc = ds.createVariable("hc", "f8", ()); hc[...] = 10.0
        sw = np.linspace(-1.0, 0.0, N + 1); sr = -1.0 + (0.5 + np.arange(N)) / N
        Cs_w = -(sw ** 2) * np.sign(-sw) * 1.0; Cs_w = -np.abs(sw) ** 1.5
        Cs_r = -np.abs(sr) ** 1.5
        v = ds.createVariable("Cs_r", "f8", ("s_rho",)); v[:] = Cs_r
        v = ds.createVariable("Cs_w", "f8", ("s_w",)); v[:] = Cs_w
        out.update(hc=10.0, Cs_r=Cs_r, Cs_w=Cs_w)
    if epoch is None and time_unit == "seconds":
        tv = ds.createVariable("ocean_time", "f8", ("ocean_time",)); tv.units = "seconds since %s" % t0
        tv[:] = np.array(frame_times, dtype=float)
    else:
        ep = t0 if epoch is None else epoch
        base = int((np.datetime64(t0.replace(" ", "T"), "s") - np.datetime64(ep.replace(" ", "T"), "s")) / np.timedelta64(1, "s"))
        per = {"seconds": 1, "hours": 3600, "days": 86400}[time_unit]
        tv = ds.createVariable("ocean_time", "f8", ("ocean_time",)); tv.units = "%s since %s" % (time_unit, ep)
        tv[:] = (base + np.array(frame_times, dtype=np.int64)).astype(float) / per
    pack = pack or {}

    def put(name, dims, arr):
        if name in pack:
            sf, off = pack[name]
            raw = np.clip(np.rint((np.asarray(arr, dtype=float) - off) / sf), -32000, 32000).astype("i2")
            var = ds.createVariable(name, "i2", dims)
            var.set_auto_maskandscale(False)
            var.scale_factor = float(sf); var.add_offset = float(off)
            var[:] = raw
            out["raw_" + name] = raw
            return raw.astype(float) * float(sf) + float(off)
        var = ds.createVariable(name, dtype, dims); var[:] = arr
        return arr
    values = values or {}
    u = values.get("u", R.uniform(-0.5, 0.5, (nt, N, ny, nx - 1))).astype(dtype)
    v_ = values.get("v", R.uniform(-0.5, 0.5, (nt, N, ny - 1, nx))).astype(dtype)
    u = put("u", ("ocean_time", "s_rho", "eta_u", "xi_u"), u)
    v_ = put("v", ("ocean_time", "s_rho", "eta_v", "xi_v"), v_)
    out["u"] = u; out["v"] = v_
    for name in fields:
        lev = "s_w" if name == "AKs" else "s_rho"
        n_l = N + 1 if name == "AKs" else N
        arr = values.get(name, R.uniform(0.0, 10.0, (nt, n_l, ny, nx)) if name != "AKs" else R.uniform(-1e-3, 1e-2, (nt, n_l, ny, nx))).astype(dtype)
        arr = put(name, ("ocean_time", lev, "eta_rho", "xi_rho"), arr)
        out[name] = arr
    out["frame_times"] = list(frame_times)
    ds.close()
    return out
