"""C05 — particles stay inside the water column / the module's depth band.

Correspondence: every IBM module's real `update_ibm` (stub grid/forcing with analytic fields, real LADiM
State, recorded draws with injected tails) against the Lean per-particle model, bit-exact where only
correctly rounded operations are involved.  Oracle: the module's documented band on the implementation's
own output, under the property's precondition."""
import numpy as np
from . import ibmrun
from .common import Driver, DriverUnavailable

RULE = ("per module: random configuration x 0..8 heterogeneous particles placed at/near surface, bed and band "
        "limits; draws recorded from a seeded generator with ~15% of entries replaced by tails/boundary values "
        "(u=0, 1-2^-53, +-8 sigma); single updates and 2..6-step histories (thorough: up to 20 steps) in which the "
        "tracker moves suspended particles +-0.3 cells over the sloping bed between updates and particles are removed / "
        "released (real State). Configurations: keys at their default value left out (~30%), integer dt (~30%), "
        "integer / equal band limits (larvae 30/30, eel hi=lo), sedimentation `vertical_mixing: 0` and taucrit as a "
        "{method: constant} mapping. chemicals: histories with land_collision reposition (stuck particles re-seeded in "
        "their cell, sloping bed) and coastal_diffusion (stub coastal mask), judged against the bed at the new "
        "position; mine: states without an `active` variable (taucrit >= 1000); mine histories of 2..7 updates "
        "(thorough: up to 20) with land_collision reposition (given or left to its default) on one IBM object: bed sloping "
        "in x and / or y inside every cell (|hx| up to h0/16, |hy| h0/64, or flat), taucrit in {0.06, 0.12, 0.32, 1, 0} "
        "(resuspension) or 1000, mostly calm bottom current relative to that threshold, about half of the suspended "
        "particles within 0.25..3.5 sinking steps of the bed (they settle during the history and stay settled), stub "
        "state (flags 0/1/2) and real State, the tracker stand-in moves suspended particles only (x and y, or leaves "
        "them: those are re-seeded in their cell); every particle - suspended, re-seeded, settled - judged against the "
        "bed where the update leaves it; egg: neutrally buoyant eggs with a "
        "forced draw landing exactly on 200.0 and on the last double below; saithe: eggs anywhere in 0..200 m "
        "(incl. 0, 1e-9, 0.5 m) judged against the surface, larvae hatched in the previous update outside [30,60], "
        "extra_spreading on (30%, no model request), saithe histories; sandeel: all life stages (eggs hatching and "
        "larvae metamorphosing during the update), every particle judged; lunar eel with the moon up (40%). "
        "A case is non-trivial when it has >=1 particle; distinct by (module, configuration, particle arrays).")
ASSUMPTIONS = ["stub grid/forcing fields are analytic (linear bathymetry, linear/step diffusivity profiles)",
               "egg/lice/larvae depths compared with relative tolerance 1e-9 / 1e-6 (libm pow/exp and float32 narrowing)",
               "which chemicals particles the collision handler re-seeds is taken from the handler's own criterion "
               "(remembered == current position / coastal mask); its correctness is C11's subject",
               "which mine particles the collision handler should re-seed (expected draw schedule of a reposition history) "
               "is decided by the harness from its own record of the positions after the previous update and the current "
               "`active` flag (rule as documented: a suspended particle that has not moved); the rule itself is C11's subject",
               "saithe with extra_spreading has no model request (larva.update cannot express the horizontal part): "
               "implementation-side oracle only"]

EXACT = {"chemicals", "sedimentation", "mine", "sandeel", "lunar_eel", "vps", "shrimp"}
TOL = {"egg": 1e-9, "salmon_lice": 1e-9, "larvae": 2e-6, "saithe": 2e-6}


def band_oracle(ctx, name, case, res):
    b, a, n = res["before"], res["after"], res["n"]
    z = a["z"]
    cs = lambda i: dict(module=name, case=ibmrun.case_summary(case), particle=int(i),
                        before={k: v[i] for k, v in b.items()}, after={k: v[i] for k, v in a.items()},
                        draws=[np.asarray(d).tolist() for d in res.get("draws", [])] or
                              (np.asarray(res["xi"]).tolist() if res.get("xi") is not None else None))
    site = "ladim_plugins/%s/ibm.py" % name
    for i in range(n):
        if name == "chemicals":
            Hb = case["env"].depth(b["x"][i], b["y"][i])
            pre = bool(res["meta"]["precond"][i])
            if not pre and "precond_actual" in res["meta"] and res["meta"]["precond_actual"][i]:
                # the step actually drawn is smaller than the local depth although the largest possible one is not
                pre = True
                ctx.branch("chemicals.precondition_met_by_actual_step")
            if not (0 <= b["z"][i] <= Hb) or not pre:
                ctx.branch("chemicals.precondition_not_met"); continue
            Ha = res["meta"]["H_after"][i]
            ctx.oracle(0 <= z[i], "C05.chemicals.above_surface", site, "Z'=%r" % z[i], cs(i))
            reseeded = "stuck" in res["meta"] and bool(res["meta"]["stuck"][i])
            if case["horz"] is None and reseeded:
                # the collision handler moved the particle inside its cell: the local bed is the one at the new position
                ctx.oracle(z[i] <= Ha, "C05.chemicals.below_bed_after_reposition", site,
                           "land_collision=%s moved (X,Y) %r -> %r: Z'=%r H'=%r (H before %r)"
                           % (case["land"], (float(b["x"][i]), float(b["y"][i])), (float(a["x"][i]), float(a["y"][i])),
                              float(z[i]), float(Ha), float(Hb)), cs(i))
            elif case["horz"] is None:
                ctx.oracle(z[i] <= Ha, "C05.chemicals.below_bed", site, "Z'=%r H=%r" % (z[i], Ha), cs(i))
            else:
                ctx.oracle(z[i] <= Ha, "C05.chemicals.below_bed_after_horzdiff", site, "Z'=%r H'=%r" % (z[i], Ha), cs(i))
        elif name in ("sedimentation", "mine"):
            H = res["meta"]["H"][i]
            moved = name == "mine" and (a["x"][i] != b["x"][i] or a["y"][i] != b["y"][i])
            if not (0 <= b["z"][i] <= H):
                # mine's collision handler (`land_collision: reposition`) moves particles inside their grid cell during
                # the update: "inside the band before the update" is about the bed where the particle was when the update
                # began, "never below the local sea bed" about the bed where the update leaves it
                Hb = res["meta"].get("H_before")
                if not (moved and Hb is not None and 0 <= b["z"][i] <= Hb[i]):
                    continue
                ctx.branch("mine.repositioned_over_shallower_bed")
            if moved:
                # the bed clause needs no precondition (see below); stated first under its own predicate for a particle
                # that the update itself moved horizontally
                ctx.oracle(z[i] <= H, "C05.mine.below_bed_after_reposition", site,
                           "land_collision=%s moved (X,Y) %r -> %r during the update (active %r -> %r): Z'=%r, local depth "
                           "there H'=%r (depth where it was: %r, Z before %r)"
                           % (case["land"], (float(b["x"][i]), float(b["y"][i])), (float(a["x"][i]), float(a["y"][i])),
                              int(b["active"][i]), int(a["active"][i]), float(z[i]), float(H),
                              float(res["meta"]["H_before"][i]) if "H_before" in res["meta"] else None, float(b["z"][i])),
                           cs(i))
            # the bed clause needs no precondition: `bury` puts every suspended particle that is below the bed onto
            # it and settled particles do not move; only the surface clause depends on the size of the step
            bed = lambda: ctx.oracle(z[i] <= H, "C05.%s.below_bed" % name, site, "Z'=%r H=%r" % (z[i], H), cs(i))
            if name == "sedimentation":
                mixing = case["mixing"]
                if mixing is not None and not (isinstance(mixing, dict) and mixing["method"] == "bounded_linear"):
                    v = mixing["value"] if isinstance(mixing, dict) else mixing
                    d = np.sqrt(2 * v) * (res["xi"][i] * np.sqrt(case["dt"]))
                    if abs(b["z"][i] + d) > 2 * H:
                        ctx.branch("sed.precondition_not_met"); bed(); continue
            else:
                if case["vadv"] and (b["sink"][i] + case["w"] < 0):
                    ctx.branch("mine.precondition_not_met"); bed(); continue
            ctx.oracle(0 <= z[i], "C05.%s.above_surface" % name, site, "Z'=%r" % z[i], cs(i))
            ctx.oracle(z[i] <= H, "C05.%s.below_bed" % name, site, "Z'=%r H=%r" % (z[i], H), cs(i))
        elif name == "egg":
            ctx.oracle(0 <= z[i] < 200.0, "C05.egg.band", site, "Z'=%r" % z[i], cs(i))
        elif name == "salmon_lice":
            ctx.oracle(0 <= z[i] < 20.0, "C05.salmon_lice.band", site, "Z'=%r" % z[i], cs(i))
        elif name in ("larvae", "saithe"):
            lo, hi = float(case["sp"]["min_depth"]), float(case["sp"]["max_depth"])
            if name == "saithe" and res["meta"]["is_egg"][i]:
                # saithe eggs have no [min,max] band, but like every particle they are "never above the sea surface"
                if b["z"][i] >= 0:
                    ctx.oracle(z[i] >= 0, "C05.saithe.egg_above_surface", site,
                               "egg (age %r <= 60) Z=%r -> Z'=%r" % (float(b["age"][i]), float(b["z"][i]), float(z[i])), cs(i))
                continue
            ctx.oracle(lo <= z[i] <= hi, "C05.%s.band" % name, site, "Z'=%r not in [%r,%r]" % (z[i], lo, hi), cs(i))
        elif name == "sandeel":
            lim = min(case["maxd"], res["meta"]["H"][i])
            if not res["mask_active"][i]:
                # resting particle (egg, settled juvenile): it starts inside the band by construction and must still be there
                if 0 <= b["z"][i] <= lim:
                    ctx.oracle(0 <= z[i] <= lim, "C05.sandeel.band_resting", site, "Z=%r -> Z'=%r lim=%r" % (b["z"][i], z[i], lim), cs(i))
                continue
            ctx.oracle(0 <= z[i] <= lim, "C05.sandeel.band", site, "Z'=%r lim=%r" % (z[i], lim), cs(i))
        elif name == "lunar_eel":
            ctx.oracle(case["lo"] <= z[i] <= case["hi"], "C05.lunar_eel.band", site, "Z'=%r" % z[i], cs(i))
        elif name == "shrimp":
            if b["z"][i] < 0 or "pref" not in res["meta"] or res["meta"]["pref"][i] < 0:
                continue
            ctx.oracle(z[i] >= 0, "C05.shrimp.above_surface", site,
                       "Z=%r preferred=%r dt*speed=%r -> Z'=%r" % (b["z"][i], res["meta"]["pref"][i],
                                                                 case["dt"] * case["vs"][int(res["meta"]["int_stage"][i])], z[i]), cs(i))
        elif name == "vps":
            ctx.oracle(0 <= z[i] <= case["maxd"], "C05.vps.band", site, "Z'=%r" % z[i], cs(i))


def compare(ctx, name, case, res, keys=("z",)):
    exp, got = res["sched"]
    cs = dict(module=name, case=ibmrun.case_summary(case))
    if exp != got:
        ctx.disagreement("%s.draw_schedule" % name, "model declares %r, implementation requested %r" % (exp, got), cs)
        return
    ctx.schedule_matches += 1
    if res.get("model") is None:
        return
    for k in keys:
        if k not in res["model"]:
            continue
        for i in range(res["n"]):
            a = res["after"][k][i]; m = res["model"][k][i]
            c = dict(cs, particle=i, key=k)
            if isinstance(a, (bool, np.bool_)) or k in ("active", "alive"):
                ctx.eq("%s.%s" % (name, k), bool(a) if k == "alive" else int(a), bool(m) if k == "alive" else int(m), c)
            elif name in EXACT:
                ctx.eq_bits("%s.%s" % (name, k), a, m, c)
            else:
                ctx.eq_close("%s.%s" % (name, k), a, m, c, rel=TOL[name], abs_=TOL[name])


KEYS = {"chemicals": ("x", "y", "z", "age", "alive"), "sedimentation": ("z", "active", "alive", "age", "sink"),
        "mine": ("z", "active", "alive", "age", "sink"), "egg": ("z", "age"), "salmon_lice": ("z", "age", "days", "super", "alive"),
        "larvae": ("z", "age", "weight"), "saithe": ("z", "age", "weight"), "sandeel": ("z",), "lunar_eel": ("z",),
        "shrimp": ("z", "stage", "age"), "vps": ("z", "age", "alive")}


def refresh_case(name, case, res):
    """next step of a history: the case arrays become the state after the update"""
    c = dict(case)
    st = res["state"]
    for k_case, k_state in (("x", "X"), ("y", "Y"), ("z", "Z"), ("age", "age"), ("sink", "sink_vel"), ("active", "active"),
                            ("stage", "stage"), ("q", "depth_quantile"), ("weight", "weight"), ("days", "days"),
                            ("super", "super")):
        if k_case in c and k_state in st:
            c[k_case] = np.array(st[k_state]).copy()
    return c


def _per_particle(case, n):
    return [k for k, v in case.items() if isinstance(v, np.ndarray) and v.ndim == 1 and v.shape[0] == n]


def between_steps(ctx, name, case, state):
    """What the rest of LADiM does between two IBM calls, as far as the band is concerned: the tracker moves
    suspended particles horizontally (here +-0.3 cells over the sloping stub bed; a particle carried over shallower
    water is put back inside the band, which is the property's premise for the next update), dead / out-of-area
    particles are removed and new ones are released (here: a copy of an existing particle with a new pid)."""
    n = len(case["x"])
    if name in ("chemicals", "sedimentation", "mine", "sandeel") and n and ctx.rng.random() < 0.7:
        env = case["env"]
        X = state["X"]; Y = state["Y"]; Z = state["Z"]
        mobile = np.ones(n, bool) if (name == "chemicals" or "active" not in state) else (np.asarray(state["active"]) != 0)
        moved = False
        for i in range(n):
            if mobile[i] and ctx.rng.random() < 0.5:
                X[i] = min(19.0, max(2.0, X[i] + ctx.rng.uniform(-0.3, 0.3)))
                lim = float(env.depth(X[i], Y[i]))
                if name == "sandeel":
                    lim = min(lim, case["maxd"])
                if Z[i] > lim:
                    Z[i] = lim
                moved = True
        if moved:
            ctx.branch("%s.moved_between_steps" % name)
    if hasattr(state, "remove") and hasattr(state, "append") and hasattr(state, "_data") and n:
        r = ctx.rng.random()
        if r < 0.15 and n >= 2:
            j = ctx.rng.randrange(n)
            keep = np.ones(n, bool); keep[j] = False
            state.remove(~keep)
            case = dict(case)
            for k in _per_particle(case, n):
                case[k] = case[k][keep].copy()
            ctx.branch("%s.particle_removed" % name)
        elif r < 0.30:
            j = ctx.rng.randrange(n)
            state.append({k: v[j:j + 1].copy() for k, v in state._data.items() if k not in ("pid", "alive")})
            case = dict(case)
            for k in _per_particle(case, n):
                case[k] = np.concatenate([case[k], case[k][j:j + 1]])
            ctx.branch("%s.particle_added" % name)
    return refresh_case(name, case, dict(state=state))


def tag(ctx, name, case, res):
    """evidence that the input classes of RULE are reached"""
    n = res["n"]
    if case.get("omit_defaults") and (name in ("chemicals", "mine") or (name == "vps" and case["maxd"] == 2.0)
                                      or (name == "salmon_lice" and case["D"] == 1e-3)
                                      or (name == "larvae" and (case["k"] == 0.2 or case["D"] == 0.0))
                                      or (name == "saithe" and case.get("spread"))):
        ctx.branch("%s.config_defaults_omitted" % name)
    if case.get("int_dt") and ibmrun.cfg_dt(case) is not case["dt"]:
        ctx.branch("%s.integer_dt" % name)
    if name == "chemicals":
        if case["land"] == "coastal_diffusion":
            ctx.branch("chemicals.coastal_diffusion")
        k = int(np.sum(res["meta"].get("stuck", np.zeros(0, bool))))
        if k:
            ctx.branch("chemicals.reseeded_particles", k)
    elif name == "sedimentation":
        m = case["mixing"]
        if m is not None and not isinstance(m, dict) and m == 0 or (isinstance(m, dict) and m.get("value", 1) == 0):
            ctx.branch("sedimentation.vertical_mixing_zero")
        if case.get("taucrit_dict") and case["taucrit"] is not None:
            ctx.branch("sedimentation.taucrit_mapping")
    elif name == "mine":
        if case.get("no_active"):
            ctx.branch("mine.no_active_variable")
        if case.get("reposition_class") and n:
            m = res["meta"]; b = res["before"]; a = res["after"]
            ctx.branch("mine.reseeded_particles", int(np.sum(m["stuck"])))
            ctx.branch("mine.reseeded_to_shallower_bed", int(np.sum(m["stuck"] & (m["H"] < m["H_before"]))))
            settled = m["remembered"] & (b["active"] == 0)
            ctx.branch("mine.settled_particle_in_later_update", int(np.sum(settled)))
            ctx.branch("mine.settled_particle_stays_settled_over_uneven_bed",
                       int(np.sum(settled & (a["active"] == 0))) if (case["env"].hx != 0 or case["env"].hy != 0) else 0)
            ctx.branch("mine.resuspended_in_later_update", int(np.sum(settled & (a["active"] != 0))))
            ctx.branch("mine.buried_this_update", int(np.sum((b["active"] != 0) & (a["active"] == 0))))
    elif name == "egg":
        if case.get("force_normal") is not None and n:
            a = res["after"]["z"]; b = res["before"]["z"]
            ctx.branch("egg.exact_cap_case")
            ctx.branch("egg.landed_on_200_put_back", int(np.sum((a == 199.0) & (b != 199.0))))
            ctx.branch("egg.landed_one_ulp_below_200", int(np.sum(a == np.nextafter(200.0, 0.0))))
    elif name in ("larvae", "saithe"):
        if float(case["sp"]["min_depth"]) == float(case["sp"]["max_depth"]):
            ctx.branch("larvae.single_depth_band")
        if name == "saithe" and n:
            egg = res["meta"]["is_egg"]; z = res["before"]["z"]
            ctx.branch("saithe.egg_within_5m_of_surface", int(np.sum(egg & (z < 5))))
            ctx.branch("saithe.hatchling_outside_band", int(np.sum(~egg & ((z < 30) | (z > 60)))))
            if case.get("spread"):
                ctx.branch("saithe.extra_spreading")
    elif name == "sandeel" and n:
        bef = res["before"]["active"] != 0; now = res["mask_active"]
        ctx.branch("sandeel.hatched_this_update", int(np.sum(now & ~bef)))
        ctx.branch("sandeel.drifting_larva", int(np.sum((res["before"]["stage"] >= 1) & (res["before"]["stage"] < 2))))
        ctx.branch("sandeel.metamorphosed_this_update", int(np.sum(bef & (res["after"]["active"] == 0))))
    elif name == "lunar_eel":
        if case.get("moon"):
            ctx.branch("lunar_eel.moon_up")
        if case["lo"] == case["hi"]:
            ctx.branch("lunar_eel.single_depth_band")
        if case.get("int_limits"):
            ctx.branch("lunar_eel.integer_limits")


def mine_reposition_case(rng, n=None):
    """mine with the collision handler switched on (`land_collision: reposition`, which is the default) for a
    multi-step history: resuspension enabled (taucrit < 1000) in most cases so that particles that reach the bed stay
    in the state as settled particles, mostly calm water (they stay settled in the following updates), a bed that
    varies inside every grid cell in x and / or y, and about half of the suspended particles within one sinking step
    of the bed so that they settle during the history.  Both containers (stub state with 0/1/2 flags, real State)."""
    c = ibmrun.mine_case(rng, n=n)
    n = len(c["x"])
    c["reposition_class"] = True
    c["land"] = "reposition"
    c["taucrit"] = rng.choice([0.12, 0.12, 0.06, 0.32, 1.0, 0.0, 1000])
    h0 = c["env"].h0
    env = c["env"]
    # depth stays positive on the whole stub grid: h0 * (1 - 20.5/32 - 20.5/64) > 0
    env.hx = rng.choice([h0 / 100, -h0 / 100, h0 / 16, -h0 / 32, h0 / 100, 0.0])
    env.hy = rng.choice([0.0, 0.0, h0 / 64, -h0 / 64])
    if rng.random() < 0.7:
        c["lifespan"] = 1e6
        c["age"] = np.array([rng.choice([0.0, 0.0, 50.0]) for _ in range(n)])
    # bottom current relative to THIS module's threshold: mostly calm
    tc = c["taucrit"] if c["taucrit"] < 1000 else 0.12
    s_at = (tc / 3.0) ** 0.5
    c["ub"] = np.array([rng.choice([0.0, 0.0, 0.3 * s_at, 0.3 * s_at, s_at * (1 - 1e-9), s_at, 2 * s_at + 0.01]) for _ in range(n)])
    c["vb"] = np.array([rng.choice([0.0, 0.0, 0.0, 1e-3]) for _ in range(n)])
    H = env.depth(c["x"], c["y"])
    z = np.minimum(c["z"], H)
    act = np.asarray(c["active"])
    for i in range(n):
        if act[i] == 0:
            z[i] = H[i]                              # a settled particle lies on the bed
        elif rng.random() < 0.5:
            c["sink"][i] = rng.choice([1e-3, 0.01, 0.1])
            step = c["dt"] * c["sink"][i]
            z[i] = max(0.0, H[i] - step * rng.choice([0.25, 0.9, 1.5, 3.5]))   # settles in the 1st / 2nd / 4th update
    c["z"] = z
    return c


def tracker_y_move(ctx, name, case, state):
    """the tracker also carries suspended particles along y (the shared `between_steps` moves them along x only, which
    is all a bed sloping in x needs); settled particles stay where they are; a particle carried over shallower water
    is put back inside the band (the premise of the next update)"""
    n = len(case["x"])
    env = case["env"]
    act = np.asarray(state["active"]) != 0 if "active" in state else np.ones(n, bool)
    for i in range(n):
        if act[i] and ctx.rng.random() < 0.3:
            state["Y"][i] = min(19.0, max(2.0, state["Y"][i] + ctx.rng.choice([ctx.rng.uniform(-0.3, 0.3), 1e-9, -1e-9])))
            lim = float(env.depth(state["X"][i], state["Y"][i]))
            if state["Z"][i] > lim:
                state["Z"][i] = lim
            ctx.branch("mine.moved_along_y_between_steps")


# opt-in input classes of the shared generators (drawn from the check's own generator)
GEN_KW = {"egg": lambda rng: dict(exact_cap=rng.random() < 0.3)}


def run(ctx, modules=None, oracle=band_oracle, keys=KEYS, extras=None, gens=None, hist_extra=(), between=None):
    """`extras`: the input classes that only C05's own oracle can judge (collision handling of chemicals over a
    sloping bed, mine without an `active` variable, tracker moves / removals / releases between the steps of a
    history).  Default: on when the oracle is C05's band oracle, off for the other properties that share this runner.
    `gens` (optional): {module: generator(rng, n=None, **kw)} replacing the shared generator of a module for this
    caller (a property adds its own input classes by post-processing the shared generator's case);
    `hist_extra` (optional): modules that get histories in addition to the standard list;
    `between` (optional): callable(ctx, name, case, state) -> case applied after every step of a history (after the
    tracker move / removal / release of `extras`): a property changes the forcing between the steps with it."""
    modules = modules or list(ibmrun.MODULES)
    gens = gens or {}
    extras = (oracle is band_oracle) if extras is None else extras
    ncases = ctx.n(60, 1500)
    nhist = ctx.n(8, 150)
    drv = Driver()
    use_drv = drv.available
    pending = []

    def history(name, runner, case, h, steps, label="hist", pre_move=None):
        ibm = None; state = None
        for s in range(steps):
            res = runner(case, ctx.sub_seed(), drv if use_drv else None, ibmrun.tail_injector(ctx.rng, 0.1),
                         ibm=ibm, state=state)
            ibm, state = res["ibm"], res["state"]
            if hasattr(state, "timestep"):
                state.timestep = state.timestep + 1
            ctx.case(key=(name, label, h, s, repr(ibmrun.case_summary(case))), nontrivial=True)
            ctx.branch("%s.history_step" % name)
            tag(ctx, name, case, res)
            oracle(ctx, name, case, res)
            pending.append((name, case, res))
            case = refresh_case(name, case, res)
            if extras:
                if pre_move is not None:
                    pre_move(ctx, name, case, state)
                case = between_steps(ctx, name, case, state)
                if len(case["x"]) == 0:
                    break
            if between is not None:
                case = between(ctx, name, case, state)

    for name in modules:
        gen0, runner = ibmrun.MODULES[name]
        gen0 = gens.get(name, gen0)
        gen = (lambda rng, n=None, _g=gen0, _k=GEN_KW[name]: _g(rng, n=n, **_k(rng))) if name in GEN_KW else gen0
        for c in range(ncases):
            case = gen(ctx.rng)
            inj = ibmrun.tail_injector(ctx.rng) if ctx.rng.random() < 0.6 else None
            res = runner(case, ctx.sub_seed(), drv if use_drv else None, inj)
            n = res["n"]
            ctx.case(key=(name, repr(ibmrun.case_summary(case))), nontrivial=n > 0,
                     sample=dict(module=name, n=n, dt=case["dt"]) if c == 0 else None)
            ctx.size(name, n)
            ctx.branch("%s.single" % name)
            tag(ctx, name, case, res)
            oracle(ctx, name, case, res)
            pending.append((name, case, res))
        # histories
        if name in ("chemicals", "sedimentation", "mine", "egg", "sandeel", "shrimp", "salmon_lice", "larvae", "saithe") \
                or name in hist_extra:
            for h in range(nhist):
                case = gen(ctx.rng, n=ctx.rng.randrange(1, 7))
                if name in ("chemicals", "mine"):
                    case["land"] = "freeze"     # collision handling across steps is C11's subject
                steps = ctx.rng.randrange(2, 7)
                if ctx.tier == "thorough" and ctx.rng.random() < 0.2:
                    steps = ctx.rng.randrange(7, 21)
                    ctx.branch("%s.long_history" % name)
                history(name, runner, case, h, steps)
        if extras and name == "chemicals":
            # collision handling moves particles inside their cell BEFORE the vertical steps: the bed that counts is
            # the one at the new position.  `reposition`: under the real State the remembered arrays are the state's
            # arrays, so from the second update on every particle is re-seeded; `coastal_diffusion`: stub coastal mask.
            for h in range(ctx.n(50, 500)):
                quiet = ctx.rng.random() < 0.35       # no vertical process at all after the handler: nothing re-checks the bed
                case = ibmrun.chem_case(ctx.rng, n=ctx.rng.randrange(1, 7), horz=False if quiet else None,
                                        mix=0 if quiet else None,
                                        land=ctx.rng.choice(["reposition", "coastal_diffusion"]))
                if quiet:
                    case["vertadv"] = False
                    ctx.branch("chemicals.collision_without_vertical_process")
                env = case["env"]
                if env.hx == 0.0 and ctx.rng.random() < 0.7:
                    env.hx = env.h0 / 64                      # sloping bed (depth stays positive on the stub grid)
                    case["z"] = np.minimum(case["z"], env.depth(case["x"], case["y"]))
                history(name, runner, case, h, ctx.rng.randrange(2, 5), label="collision")
                ctx.branch("chemicals.collision_history")
        if extras and name == "mine":
            for c in range(ctx.n(25, 400)):
                case = ibmrun.mine_case(ctx.rng, no_active=True)
                res = runner(case, ctx.sub_seed(), drv if use_drv else None, ibmrun.tail_injector(ctx.rng))
                ctx.case(key=(name, "no_active", repr(ibmrun.case_summary(case))), nontrivial=res["n"] > 0)
                ctx.branch("mine.single")
                tag(ctx, name, case, res)
                oracle(ctx, name, case, res)
                pending.append((name, case, res))
            for h in range(ctx.n(4, 60)):
                case = ibmrun.mine_case(ctx.rng, n=ctx.rng.randrange(1, 7), no_active=True)
                case["land"] = "freeze"
                history(name, runner, case, h, ctx.rng.randrange(2, 5), label="no_active_hist")
            # collision handling over a history (the standard histories above run with `freeze`): from the second
            # update on the handler re-seeds suspended particles the tracker has not moved somewhere in their grid cell,
            # BEFORE resuspension / mixing / sinking / burial; over an uneven bed the bed that counts afterwards is the
            # one at the new position.  Settled particles are not the tracker's to move and must stay inside the band
            # too.  The tracker stand-in (`between_steps`, `tracker_y_move`) moves suspended particles only.
            for h in range(ctx.n(60, 800)):
                case = mine_reposition_case(ctx.rng, n=ctx.rng.randrange(1, 7))
                steps = ctx.rng.randrange(2, 8)
                if ctx.tier == "thorough" and ctx.rng.random() < 0.1:
                    steps = ctx.rng.randrange(8, 21)
                history(name, runner, case, h, steps, label="reposition_hist", pre_move=tracker_y_move)
                ctx.branch("mine.reposition_history")
    if use_drv:
        replies = drv.run()
        for name, case, res in pending:
            if "finish" in res:
                res["finish"](replies)
            compare(ctx, name, case, res, keys[name])
    else:
        for name, case, res in pending:
            exp, got = res["sched"]
            if exp != got:
                ctx.disagreement("%s.draw_schedule" % name, "model declares %r, implementation requested %r" % (exp, got),
                                 dict(module=name, case=ibmrun.case_summary(case)))
        ctx.note("model driver not available: correspondence skipped, oracle only")


def replay(payload):
    """re-evaluate the band on the recorded particle (implementation output is in the payload)"""
    c = payload.get("case") or {}
    print("predicate:", payload.get("predicate"), "|", payload.get("detail"))
    print("module:", c.get("module"), "particle before:", c.get("before"), "after:", c.get("after"))
    return False
