"""C05 — particles stay inside the water column / the module's depth band.

Correspondence: every IBM module's real `update_ibm` (stub grid/forcing with analytic fields, real LADiM
State, recorded draws with injected tails) against the Lean per-particle model, bit-exact where only
correctly rounded operations are involved.  Oracle: the module's documented band on the implementation's
own output, under the property's precondition."""
import numpy as np
from . import ibmrun
from .common import Driver, DriverUnavailable

RULE = ("per module: random configuration x 0..8 heterogeneous particles placed at/near surface, bed and band "
        "limits; draws recorded from a seeded generator with ~15% of entries replaced by tails/boundary values "
        "(u=0, 1-2^-53, +-8 sigma); single updates and 2..6-step histories. A case is non-trivial when it has "
        ">=1 particle; distinct by (module, configuration, particle arrays).")
ASSUMPTIONS = ["stub grid/forcing fields are analytic (linear bathymetry, linear/step diffusivity profiles)",
               "egg/lice/larvae depths compared with relative tolerance 1e-9 / 1e-6 (libm pow/exp and float32 narrowing)"]

EXACT = {"chemicals", "sedimentation", "mine", "sandeel", "lunar_eel", "vps", "shrimp"}
TOL = {"egg": 1e-9, "salmon_lice": 1e-9, "larvae": 2e-6, "saithe": 2e-6}


def band_oracle(ctx, name, case, res):
    b, a, n = res["before"], res["after"], res["n"]
    z = a["z"]
    cs = lambda i: dict(module=name, case=ibmrun.case_summary(case), particle=int(i),
                        before={k: v[i] for k, v in b.items()}, after={k: v[i] for k, v in a.items()},
                        draws=[np.asarray(d).tolist() for d in res.get("draws", [])] or
                              (np.asarray(res["xi"]).tolist() if res.get("xi") is not None else None))
    site = "ladim_plugins/%s/ibm.py" % name
    for i in range(n):
        if name == "chemicals":
            Hb = case["env"].depth(b["x"][i], b["y"][i])
            if not (0 <= b["z"][i] <= Hb) or not res["meta"]["precond"][i]:
                ctx.branch("chemicals.precondition_not_met"); continue
            Ha = res["meta"]["H_after"][i]
            ctx.oracle(0 <= z[i], "C05.chemicals.above_surface", site, "Z'=%r" % z[i], cs(i))
            if case["horz"] is None:
                ctx.oracle(z[i] <= Ha, "C05.chemicals.below_bed", site, "Z'=%r H=%r" % (z[i], Ha), cs(i))
            else:
                ctx.oracle(z[i] <= Ha, "C05.chemicals.below_bed_after_horzdiff", site, "Z'=%r H'=%r" % (z[i], Ha), cs(i))
        elif name in ("sedimentation", "mine"):
            H = res["meta"]["H"][i]
            if not (0 <= b["z"][i] <= H):
                continue
            if name == "sedimentation":
                mixing = case["mixing"]
                if mixing is not None and not (isinstance(mixing, dict) and mixing["method"] == "bounded_linear"):
                    v = mixing["value"] if isinstance(mixing, dict) else mixing
                    d = np.sqrt(2 * v) * (res["xi"][i] * np.sqrt(case["dt"]))
                    if abs(b["z"][i] + d) > 2 * H:
                        ctx.branch("sed.precondition_not_met"); continue
            else:
                if case["vadv"] and (b["sink"][i] + case["w"] < 0):
                    ctx.branch("mine.precondition_not_met"); continue
            ctx.oracle(0 <= z[i], "C05.%s.above_surface" % name, site, "Z'=%r" % z[i], cs(i))
            ctx.oracle(z[i] <= H, "C05.%s.below_bed" % name, site, "Z'=%r H=%r" % (z[i], H), cs(i))
        elif name == "egg":
            ctx.oracle(0 <= z[i] < 200.0, "C05.egg.band", site, "Z'=%r" % z[i], cs(i))
        elif name == "salmon_lice":
            ctx.oracle(0 <= z[i] < 20.0, "C05.salmon_lice.band", site, "Z'=%r" % z[i], cs(i))
        elif name in ("larvae", "saithe"):
            lo, hi = float(case["sp"]["min_depth"]), float(case["sp"]["max_depth"])
            if name == "saithe" and res["meta"]["is_egg"][i]:
                continue
            ctx.oracle(lo <= z[i] <= hi, "C05.%s.band" % name, site, "Z'=%r not in [%r,%r]" % (z[i], lo, hi), cs(i))
        elif name == "sandeel":
            if not res["mask_active"][i]:
                continue
            lim = min(case["maxd"], res["meta"]["H"][i])
            ctx.oracle(0 <= z[i] <= lim, "C05.sandeel.band", site, "Z'=%r lim=%r" % (z[i], lim), cs(i))
        elif name == "lunar_eel":
            ctx.oracle(case["lo"] <= z[i] <= case["hi"], "C05.lunar_eel.band", site, "Z'=%r" % z[i], cs(i))
        elif name == "shrimp":
            if b["z"][i] < 0 or "pref" not in res["meta"] or res["meta"]["pref"][i] < 0:
                continue
            ctx.oracle(z[i] >= 0, "C05.shrimp.above_surface", site,
                       "Z=%r preferred=%r dt*speed=%r -> Z'=%r" % (b["z"][i], res["meta"]["pref"][i],
                                                                 case["dt"] * case["vs"][int(res["meta"]["int_stage"][i])], z[i]), cs(i))
        elif name == "vps":
            ctx.oracle(0 <= z[i] <= case["maxd"], "C05.vps.band", site, "Z'=%r" % z[i], cs(i))


def compare(ctx, name, case, res, keys=("z",)):
    exp, got = res["sched"]
    cs = dict(module=name, case=ibmrun.case_summary(case))
    if exp != got:
        ctx.disagreement("%s.draw_schedule" % name, "model declares %r, implementation requested %r" % (exp, got), cs)
        return
    ctx.schedule_matches += 1
    if res.get("model") is None:
        return
    for k in keys:
        if k not in res["model"]:
            continue
        for i in range(res["n"]):
            a = res["after"][k][i]; m = res["model"][k][i]
            c = dict(cs, particle=i, key=k)
            if isinstance(a, (bool, np.bool_)) or k in ("active", "alive"):
                ctx.eq("%s.%s" % (name, k), bool(a) if k == "alive" else int(a), bool(m) if k == "alive" else int(m), c)
            elif name in EXACT:
                ctx.eq_bits("%s.%s" % (name, k), a, m, c)
            else:
                ctx.eq_close("%s.%s" % (name, k), a, m, c, rel=TOL[name], abs_=TOL[name])


KEYS = {"chemicals": ("x", "y", "z", "age", "alive"), "sedimentation": ("z", "active", "alive", "age", "sink"),
        "mine": ("z", "active", "alive", "age"), "egg": ("z", "age"), "salmon_lice": ("z", "age", "days", "super", "alive"),
        "larvae": ("z", "age", "weight"), "saithe": ("z", "age", "weight"), "sandeel": ("z",), "lunar_eel": ("z",),
        "shrimp": ("z", "stage", "age"), "vps": ("z", "age", "alive")}


def refresh_case(name, case, res):
    """next step of a history: the case arrays become the state after the update"""
    c = dict(case)
    st = res["state"]
    for k_case, k_state in (("x", "X"), ("y", "Y"), ("z", "Z"), ("age", "age"), ("sink", "sink_vel"), ("active", "active"),
                            ("stage", "stage"), ("q", "depth_quantile"), ("weight", "weight"), ("days", "days"),
                            ("super", "super")):
        if k_case in c and k_state in st:
            c[k_case] = np.array(st[k_state]).copy()
    return c


def run(ctx, modules=None, oracle=band_oracle, keys=KEYS):
    modules = modules or list(ibmrun.MODULES)
    ncases = ctx.n(60, 1500)
    nhist = ctx.n(8, 150)
    drv = Driver()
    use_drv = drv.available
    pending = []
    for name in modules:
        gen, runner = ibmrun.MODULES[name]
        for c in range(ncases):
            case = gen(ctx.rng)
            inj = ibmrun.tail_injector(ctx.rng) if ctx.rng.random() < 0.6 else None
            res = runner(case, ctx.sub_seed(), drv if use_drv else None, inj)
            n = res["n"]
            ctx.case(key=(name, repr(ibmrun.case_summary(case))), nontrivial=n > 0,
                     sample=dict(module=name, n=n, dt=case["dt"]) if c == 0 else None)
            ctx.size(name, n)
            ctx.branch("%s.single" % name)
            oracle(ctx, name, case, res)
            pending.append((name, case, res))
        # histories
        if name in ("chemicals", "sedimentation", "mine", "egg", "sandeel", "shrimp", "salmon_lice", "larvae"):
            for h in range(nhist):
                case = gen(ctx.rng, n=ctx.rng.randrange(1, 7))
                if name in ("chemicals", "mine"):
                    case["land"] = "freeze"     # collision handling across steps is C11's subject
                ibm = None; state = None
                steps = ctx.rng.randrange(2, 7)
                for s in range(steps):
                    res = runner(case, ctx.sub_seed(), drv if use_drv else None, ibmrun.tail_injector(ctx.rng, 0.1),
                                 ibm=ibm, state=state)
                    ibm, state = res["ibm"], res["state"]
                    if hasattr(state, "timestep"):
                        state.timestep = state.timestep + 1
                    ctx.case(key=(name, "hist", h, s, repr(ibmrun.case_summary(case))), nontrivial=True)
                    ctx.branch("%s.history_step" % name)
                    oracle(ctx, name, case, res)
                    pending.append((name, case, res))
                    case = refresh_case(name, case, res)
    if use_drv:
        replies = drv.run()
        for name, case, res in pending:
            if "finish" in res:
                res["finish"](replies)
            compare(ctx, name, case, res, keys[name])
    else:
        for name, case, res in pending:
            exp, got = res["sched"]
            if exp != got:
                ctx.disagreement("%s.draw_schedule" % name, "model declares %r, implementation requested %r" % (exp, got),
                                 dict(module=name, case=ibmrun.case_summary(case)))
        ctx.note("model driver not available: correspondence skipped, oracle only")


def replay(payload):
    """re-evaluate the band on the recorded particle (implementation output is in the payload)"""
    c = payload.get("case") or {}
    print("predicate:", payload.get("predicate"), "|", payload.get("detail"))
    print("module:", c.get("module"), "particle before:", c.get("before"), "after:", c.get("after"))
    return False
