"""C10 — particles do not influence each other; bookkeeping follows particle identity.

(i) metamorphic relations on the implementation: update(perm(S)) = perm(update(S)), update(sub(S)) =
sub(update(S)), update(empty) raises nothing and warns nothing — with identical draws (every draw of a
given kind has the same value for all particles of the paired runs) and the environment attached to the
particle; (ii) histories with additions, removals and re-orderings between updates for the modules that
remember the previous step: each particle's trajectory in the community equals its trajectory alone;
(iii) the Lean memory model (`Memory.stuck`) against the implementation's reposition decisions."""
import warnings, zlib
import numpy as np
from . import ibmrun
from .common import Driver, F, I, B, same_bits, RngRecorder
from .stubs import NumState, real_state, LinEnv, Obj

RULE = ("per IBM module: heterogeneous sets of 2..8 particles, a random permutation, a random sub-selection (in the "
        "original order and re-ordered) and the empty set; draws constant per kind within a paired run, and for the "
        "permutation also draws attached to the particle (each particle keeps its own value of every full-size draw); "
        "~60% of the sets live in a horizontally heterogeneous environment (own x, y per particle, lon/lat, temperature, "
        "salinity and grid metric depending on the position; sandeel: bottom-temperature field varying per cell, all "
        "life stages, hatch rate 0 = drawn in this update); chemicals with land_collision freeze / reposition / "
        "coastal_diffusion (stub coastal mask), mine also without an `active` variable; the empty set for every "
        "configuration branch of a module (mixing schemes x resuspension x collision handling x carriers, saithe with "
        "extra_spreading). Histories of 3..6 updates with moves, removals, additions and re-orderings: "
        "chemicals/mine remembered positions (fresh-array state) comparing (x,y); and full-state histories (every "
        "state variable compared, community vs alone) for chemicals (vertical mixing, horizontal diffusion, lifespan, "
        "three collision settings), sedimentation and mine with resuspension on (bottom current re-drawn per particle "
        "and step around the critical stress, so the cached bottom stress matters; settled/suspended/resuspended "
        "particles, numeric and boolean `active`, mine without `active`), particles killed by the module removed by the "
        "tracker, pids non-contiguous and large (up to 2^33), empty states in the middle of a history under "
        "warnings-as-errors. Memory look-up: each particle's reposition decision and new position in the set vs alone "
        "(state and memory reduced to the particle), mine with settled particles. saithe directed swimming (eggs / "
        "non-directed / directed larvae staying, leaving the grid, meeting land). Histories for the modules that are NOT "
        "supposed to remember anything (egg, salmon_lice, larvae, saithe with/without extra_spreading, sandeel, lunar_eel, "
        "shrimp, vps; cases of the modules' own generators, ~70% in the heterogeneous environment): 3..6 updates of ONE "
        "IBM object on a pool of 2..6 particles with non-contiguous pids, each released at step 0 or later (~50%) and "
        "removed early (~50%) or when the module marks it dead; survivors keep their order and releases are appended "
        "(LADiM's order) or the arrays are re-ordered before every update; the tracker moves active particles; the time "
        "stamp advances by dt; ~60% of the particles are released with lazily initialised variables at 0 (shrimp "
        "depth_quantile / stage, sandeel hatch_rate, saithe direction); empty states inside the history under "
        "warnings-as-errors; every state variable of every particle compared bit for bit: community vs alone with the same "
        "updates vs alone with an IBM object created at the particle's release. "
        "Non-trivial: set with >=2 distinct particles.")
ASSUMPTIONS = ["'identical random draws' is realised by serving one constant per draw kind to all particles of the "
               "paired runs; in the particle-attached variant (permutation only) a draw whose size is the whole set is "
               "served per particle and smaller (masked) draws stay constant",
               "environment values are attached to the particle (function of its position or identity)",
               "between the updates of a history the tracker moves only suspended particles (active != 0) and removes "
               "the particles the module marked dead",
               "a particle 'alone' is a history in which nobody else is ever present: the same updates with empty states "
               "while the particle is absent, or an IBM object that is created when the particle is released (both are "
               "histories inside the quantifier; time step number and time stamp are those of the community run)"]


def const_inj(rng):
    u0 = rng.choice([0.0, 0.25, 0.5, 0.81, 1 - 2.0 ** -53])
    x0 = rng.choice([-2.5, -0.3, 0.0, 0.7, 3.0])
    e0 = rng.choice([0.0, 0.5, 3.0])

    def inj(kind, params, v):
        c = u0 if kind in ("rand", "uniform") else x0 if kind in ("randn", "normal") else e0
        return np.full(v.shape, c)
    return inj


def reindex(case, idx):
    n = len(case["x"])
    c = {}
    for k, v in case.items():
        if isinstance(v, np.ndarray) and v.shape[:1] == (n,) and k not in ():
            c[k] = v[idx].copy()
        else:
            c[k] = v
    return c


def arrays_equal(a, b):
    if len(a) != len(b):
        return False
    for x, y in zip(a, b):
        if isinstance(x, (bool, np.bool_)) or isinstance(y, (bool, np.bool_)):
            if bool(x) != bool(y):
                return False
        elif not same_bits(x, y):
            return False
    return True


POOL = {"u": [0.0, 0.25, 0.5, 0.81, 1 - 2.0 ** -53], "n": [-2.5, -0.3, 0.0, 0.7, 3.0], "e": [0.0, 0.5, 3.0]}


def ident_inj(seed, n):
    """draws attached to the particle: a draw whose size is the whole set gives particle `ids[i]` its own value (the
    same in every run that uses the same table), a smaller (masked) draw one constant per kind.  Sound for a
    permutation: the k-th draw of a kind has the same size in both runs, and it is the whole set in both or in none."""
    import random
    r = random.Random(seed)
    const = dict(u=r.choice(POOL["u"]), n=r.choice(POOL["n"]), e=r.choice(POOL["e"]))
    tab = {}

    def make(ids):
        ids = np.asarray(ids, dtype=int)
        cnt = {}

        def inj(kind, params, v):
            g = "u" if kind in ("rand", "uniform") else "n" if kind in ("randn", "normal") else "e"
            c = cnt.get(kind, 0); cnt[kind] = c + 1
            if v.shape != (len(ids),):
                return np.full(v.shape, const[g])
            key = (kind, c % 8)
            if key not in tab:
                rr = random.Random(seed * 31 + zlib.crc32(repr(key).encode()))
                tab[key] = np.array([rr.choice(POOL[g] + [rr.random() if g == "u" else rr.gauss(0, 1)]) for _ in range(n)])
            return tab[key][ids].copy()
        return inj
    return make


TS_MODULES = ("egg", "salmon_lice", "larvae", "saithe", "shrimp", "vps")


def hetero(ctx, name, case):
    """horizontally heterogeneous environment: every particle at its own (x, y); lon/lat, temperature, salinity and the
    grid metric depend on the position (the stub fields are functions of the position, so the environment stays
    attached to the particle under permutation and sub-selection)"""
    rng = ctx.rng
    n = len(case["x"])
    if name not in TS_MODULES and case.get("env") is None:
        return case                                         # lunar eel: no environment is sampled
    if name in TS_MODULES:
        if not (name == "saithe" and case.get("spread")):
            case["x"] = np.array([rng.uniform(2, 19) for _ in range(n)])
        case["y"] = np.array([rng.uniform(2, 19) for _ in range(n)])
    env = case.get("env")
    if env is not None:
        # 150 .. 300 degrees of longitude over the grid: some particles in daylight, some in the dark
        env.lonx = rng.choice([9.0, -7.5, 18.0, 18.0])
        if name == "salmon_lice" and rng.random() < 0.5:
            env.s0 = rng.choice([34.5, 36.0])              # salty enough for the light (not the salinity) to steer the lice
        env.laty = rng.choice([0.0, -1.5, 0.5])            # latitudes stay inside (-90, 90) for lat0 in 45..80
        if name in TS_MODULES or name == "sandeel":
            env.tx = rng.choice([0.5, -0.25, 0.05])
            env.sx = rng.choice([0.0, 0.3, -0.2])          # salinity stays positive (s0 >= 5)
        if name in ("chemicals", "saithe"):
            env.dxx = rng.choice([0.0, 10.0, 25.0])
    if name == "sandeel":
        env.t0 = rng.choice([0.0, 6.0, 12.0]); env.tz = rng.choice([0.0, 0.05])
        case["btemp_lin"] = (rng.choice([1.0, 4.0, 8.0]), rng.choice([0.37, -0.1]), rng.choice([0.21, -0.05]))
        for i in range(n):
            if rng.random() < 0.3:
                case["hatch"][i] = 0.0                      # not yet initialised: drawn in this update
    ctx.branch("%s.hetero_env" % name)
    return case


def metamorphic(ctx, name, gen=None, label=None):
    gen0, runner = ibmrun.MODULES[name]
    gen = gen or gen0
    label = label or name
    site = "ladim_plugins/%s/ibm.py" % name
    for _ in range(ctx.n(40, 400)):
        n = ctx.rng.randrange(2, 9)
        case = gen(ctx.rng, n=n)
        if name in ("chemicals", "mine"):
            case["land"] = ctx.rng.choice(["freeze", "reposition"])
        if name == "chemicals" and ctx.rng.random() < 0.3:
            case["land"] = "coastal_diffusion"
            case["env"].coastx = ctx.rng.choice([4.5, 10.5, 25.0])     # some / about half / all particles are coastal
            ctx.branch("chemicals.coastal_diffusion")
        if ctx.rng.random() < 0.6:
            case = hetero(ctx, name, case)
        inj = const_inj(ctx.rng)
        seed = ctx.sub_seed()
        full = runner(case, seed, None, inj)
        ctx.case(key=(label, repr(ibmrun.case_summary(case))), nontrivial=True,
                 sample=dict(module=label, n=n) if _ == 0 else None)
        ctx.size(label, n)
        # permutation
        perm = list(range(n)); ctx.rng.shuffle(perm); perm = np.array(perm)
        rp = runner(reindex(case, perm), seed, None, inj)
        for k, v in full["after"].items():
            ok = arrays_equal(v[perm], rp["after"][k])
            ctx.oracle(ok, "C10.%s.permutation" % name, site,
                       "%s differs after permuting the particle arrays with %r" % (k, perm.tolist()),
                       dict(module=name, case=ibmrun.case_summary(case), perm=perm.tolist(), key=k,
                            full=v, permuted=rp["after"][k]))
        ctx.branch("%s.perm" % label)
        # sub-selection
        m = ctx.rng.randrange(1, n)
        sel = np.array(sorted(ctx.rng.sample(range(n), m)))
        rs = runner(reindex(case, sel), seed, None, inj)
        for k, v in full["after"].items():
            ok = arrays_equal(v[sel], rs["after"][k])
            ctx.oracle(ok, "C10.%s.subselection" % name, site,
                       "%s of particles %r differs when the others are absent" % (k, sel.tolist()),
                       dict(module=name, case=ibmrun.case_summary(case), sel=sel.tolist(), key=k,
                            full=v, alone=rs["after"][k]))
        ctx.branch("%s.subset" % label)
        # sub-selection in another order (a sub-selection and a permutation at once)
        sel2 = np.array(ctx.rng.sample(range(n), ctx.rng.randrange(1, n + 1)))
        rs2 = runner(reindex(case, sel2), seed, None, inj)
        for k, v in full["after"].items():
            ok = arrays_equal(v[sel2], rs2["after"][k])
            ctx.oracle(ok, "C10.%s.subselection" % name, site,
                       "%s of particles %r (re-ordered sub-selection) differs when the others are absent" % (k, sel2.tolist()),
                       dict(module=name, case=ibmrun.case_summary(case), sel=sel2.tolist(), key=k,
                            full=v, alone=rs2["after"][k]))
        ctx.branch("%s.subset_reordered" % label)
        # permutation with draws attached to the particle
        mk = ident_inj(seed, n)
        fi = runner(case, seed, None, mk(np.arange(n)))
        pi = runner(reindex(case, perm), seed, None, mk(perm))
        for k, v in fi["after"].items():
            ok = arrays_equal(v[perm], pi["after"][k])
            ctx.oracle(ok, "C10.%s.permutation" % name, site,
                       "%s differs after permuting the particle arrays (and each particle's own draws) with %r" % (k, perm.tolist()),
                       dict(module=name, case=ibmrun.case_summary(case), perm=perm.tolist(), key=k, draws="per particle",
                            full=v, permuted=pi["after"][k]))
        ctx.branch("%s.perm_own_draws" % label)
    # empty set: no error, no warning
    def empty_run(case, tagk):
        ok = True; msg = ""
        with warnings.catch_warnings():
            warnings.simplefilter("error")
            try:
                with np.errstate(all="warn"):
                    runner(case, ctx.sub_seed(), None, None)
            except Exception as e:       # noqa
                ok = False; msg = repr(e)
        ctx.case(key=(label, "empty", tagk), nontrivial=False)
        ctx.branch("%s.empty" % label)
        ctx.oracle(ok, "C10.%s.empty_set" % name, site, "empty particle set: " + msg,
                   dict(module=name, case=ibmrun.case_summary(case)))
    for _ in range(ctx.n(3, 20)):
        empty_run(gen(ctx.rng, n=0), _)
    if gen is gen0:
        for j, case in enumerate(empty_variants(name, ctx.rng)):
            empty_run(case, ("variant", j))
            ctx.branch("%s.empty_config_branch" % label)


def empty_variants(name, rng):
    """the empty set in every configuration branch of a module (instead of three random configurations)"""
    g = ibmrun.MODULES[name][0]
    if name == "chemicals":
        for mix in (0, 1, 2):
            for horz in (False, True):
                for land in ("freeze", "reposition", "coastal_diffusion"):
                    yield ibmrun.chem_case(rng, n=0, horz=horz, mix=mix, land=land)
    elif name == "sedimentation":
        for mixing in (None, 1e-2, 0, dict(method="constant", value=1e-2), dict(method="bounded_linear", max_diff=1e-2)):
            for tc in (None, 0.12, 0.0):
                for carrier in ("numeric", "bool"):
                    c = ibmrun.sed_case(rng, n=0, carrier=carrier)
                    c["mixing"] = mixing; c["taucrit"] = tc
                    yield c
    elif name == "mine":
        for land in ("freeze", "reposition"):
            for tc in (1000, 0.12, 0.0):
                for vadv in (False, True):
                    for carrier in ("numeric", "bool"):
                        c = ibmrun.mine_case(rng, n=0)
                        c["land"] = land; c["taucrit"] = tc; c["vadv"] = vadv; c["carrier"] = carrier
                        c["active"] = np.zeros(0) if carrier == "numeric" else np.zeros(0, bool)
                        yield c
            c = ibmrun.mine_case(rng, n=0, no_active=True)
            c["land"] = land
            yield c
    elif name == "saithe":
        for spread in (False, True):
            c = g(rng, n=0)
            c["spread"] = spread; c["direction"] = np.zeros(0)
            yield c
    elif name in ("egg", "salmon_lice", "larvae"):
        for D in (0.0, 1e-2):
            c = g(rng, n=0)
            c["D"] = D
            yield c
    elif name == "sandeel":
        c = g(rng, n=0)
        c["btemp_lin"] = (4.0, 0.37, 0.21)
        yield c
    else:
        yield g(rng, n=0)


# ------------------------------------------------------------------ histories (identity-based memory)
def make_script(rng, steps, npart):
    """per pid: birth step, death step, per-step move (dx, dy) or None (= stuck on land)"""
    sc = {}
    for pid in range(npart):
        birth = rng.randrange(0, max(1, steps - 1)) if rng.random() < 0.4 else 0
        death = rng.randrange(birth + 1, steps + 1) if rng.random() < 0.4 else steps + 1
        moves = [None if rng.random() < 0.35 else (rng.uniform(-0.4, 0.4), rng.uniform(-0.4, 0.4)) for _ in range(steps)]
        sc[pid] = dict(birth=birth, death=death, moves=moves, x0=rng.uniform(3, 18), y0=rng.uniform(3, 18),
                       z0=rng.uniform(0, 5))
    return sc


def run_history(modname, script, pids, steps, seed, inj, shuffle_rng=None):
    """community of `pids` living through `steps` updates; returns {pid: [(x,y) after each update it lived]}"""
    M = ibmrun.mod(modname)
    env = LinEnv(h0=50.0)
    if modname == "chemicals":
        ibm = M.IBM(dict(dt=60.0, ibm=dict(land_collision="reposition", vertical_advection=False)))
    else:
        ibm = M.IBM(dict(dt=60.0, ibm=dict(lifespan=1e9, vertical_mixing=0.0, taucrit=1000, land_collision="reposition"),
                         output_instance=[], nc_attributes={}))
    cur = {}      # pid -> dict(x,y,z)
    traj = {p: [] for p in pids}
    for t in range(steps):
        # tracker: move the living particles, retire / release
        for p in list(cur):
            if script[p]["death"] <= t:
                del cur[p]
        for p in pids:
            if script[p]["birth"] == t:
                cur[p] = dict(x=script[p]["x0"], y=script[p]["y0"], z=script[p]["z0"])
        order = [p for p in pids if p in cur]
        if shuffle_rng is not None:
            shuffle_rng.shuffle(order)
        if t > 0:
            for p in order:
                mv = script[p]["moves"][t]
                if mv is not None and script[p]["birth"] < t:
                    cur[p]["x"] += mv[0]; cur[p]["y"] += mv[1]
        n = len(order)
        st = NumState(X=np.array([cur[p]["x"] for p in order]), Y=np.array([cur[p]["y"] for p in order]),
                      Z=np.array([cur[p]["z"] for p in order]), pid=np.array(order, dtype=int),
                      alive=np.ones(n, bool), active=np.ones(n), age=np.zeros(n), sink_vel=np.full(n, 1e-9),
                      dt=60.0, timestep=t)
        with RngRecorder(seed + t, inj):
            ibm.update_ibm(env.grid(), st, env.forcing())
        for i, p in enumerate(order):
            cur[p]["x"] = float(st.X[i]); cur[p]["y"] = float(st.Y[i]); cur[p]["z"] = float(st.Z[i])
            traj[p].append((cur[p]["x"], cur[p]["y"]))
    return traj


def histories(ctx, modname):
    site = "ladim_plugins/%s/ibm.py" % modname
    for h in range(ctx.n(12, 200)):
        steps = ctx.rng.randrange(3, 7)
        npart = ctx.rng.randrange(2, 7)
        script = make_script(ctx.rng, steps, npart)
        inj = const_inj(ctx.rng)
        seed = ctx.sub_seed()
        import random
        comm = run_history(modname, script, list(range(npart)), steps, seed, inj, random.Random(seed))
        ctx.case(key=(modname, "history", repr(script)), nontrivial=True)
        ctx.branch("%s.history" % modname)
        for p in range(npart):
            solo = run_history(modname, script, [p], steps, seed, inj)
            ok = len(solo[p]) == len(comm[p]) and all(same_bits(a[0], b[0]) and same_bits(a[1], b[1])
                                                     for a, b in zip(solo[p], comm[p]))
            ctx.oracle(ok, "C10.%s.history_identity" % modname, site,
                       "trajectory of pid %d in the community differs from its trajectory alone" % p,
                       dict(module=modname, script=script, pid=p, community=comm[p], alone=solo[p]))


# ------------------------------------------------------------------ full-state histories (memory, caches, masks)
def full_conf(rng, modname):
    """configuration + stub environment of a full-state history"""
    dt = rng.choice([60.0, 600.0])
    h0 = rng.choice([5.0, 40.0])
    if modname == "chemicals":
        env = LinEnv(h0=h0, hx=rng.choice([0.0, h0 / 64]), w0=rng.choice([0.0, 1e-4, -1e-4]), kkind=rng.randrange(3),
                     k0=rng.choice([1e-4, 1e-3]), k1=rng.choice([1e-5, 1e-3]), zs=2.0,
                     a0=rng.choice([0.0, 5.0, 50.0]), ax=rng.choice([0.0, 1.0]), dx=rng.choice([160.0, 800.0]),
                     coastx=rng.choice([6.5, 10.5]))
        ibm = dict(land_collision=rng.choice(["reposition", "reposition", "reposition", "freeze", "coastal_diffusion"]),
                   vertical_advection=rng.random() < 0.5)
        mix = rng.randrange(3)
        if mix == 1:
            ibm["vertical_mixing"] = rng.choice([1e-5, 1e-3])
        elif mix == 2:
            ibm.update(vertical_mixing="AKs", vertdiff_dt=dt / 2, vertdiff_dz=rng.choice([0.0, 0.5]))
        if rng.random() < 0.5:
            ibm.update(horzdiff_type="smagorinsky", horzdiff_max=rng.choice([float("inf"), 20.0]))
        if rng.random() < 0.5:
            ibm["lifespan"] = rng.choice([2 * dt, 3 * dt, 1e6])
        return dict(dt=dt, env=env, ibm=ibm, has_active=False, has_sink=False, tc=None)
    env = LinEnv(h0=h0, hx=rng.choice([0.0, h0 / 100]))
    carrier = rng.choice(["numeric", "numeric", "bool"])
    if modname == "sedimentation":
        tc = rng.choice([None, 0.12, 0.12, 0.0, 0.06])
        ibm = dict(lifespan=rng.choice([3 * dt, 1e6, 1e6]))
        mix = rng.randrange(3)
        if mix:
            ibm["vertical_mixing"] = [None, rng.choice([1e-4, 1e-2]), dict(method="bounded_linear", max_diff=rng.choice([1e-3, 1e-2]))][mix]
        if tc is not None:
            ibm["taucrit"] = tc
        return dict(dt=dt, env=env, ibm=ibm, has_active=True, has_sink=True, tc=tc, carrier=carrier)
    # mine
    no_active = rng.random() < 0.15
    tc = rng.choice([1000, 2000.0]) if no_active else rng.choice([0.12, 0.12, 0.06, 0.0, 1000])
    ibm = dict(lifespan=rng.choice([3 * dt, 1e6, 1e6]), vertical_mixing=rng.choice([0.0, 1e-4, 1e-2]), taucrit=tc,
               land_collision=rng.choice(["reposition", "reposition", "freeze"]), vertical_advection=rng.random() < 0.3)
    env.w0 = rng.choice([0.0, 1e-3, -1e-4])
    return dict(dt=dt, env=env, ibm=ibm, has_active=not no_active, has_sink=True, tc=None if tc >= 1000 else tc,
                carrier=carrier, top=dict(output_instance=[], nc_attributes={}))


def make_full_script(rng, steps, npart, modname, conf):
    """per pid (non-contiguous labels, possibly large): birth, death, per-step tracker move or None (not moved),
    start position / depth / flag / sinking velocity / age, per-step bottom current around the critical stress"""
    env = conf["env"]
    base = rng.choice([0, 0, 1000, 2 ** 33])
    labels = rng.sample(range(base, base + 40), npart)
    tc = conf["tc"] if conf["tc"] is not None else 0.12
    s_at = (tc / 3.0) ** 0.5 if tc > 0 else 0.0
    sc = {}
    for pid in labels:
        birth = rng.randrange(0, max(1, steps - 1)) if rng.random() < 0.4 else 0
        death = rng.randrange(birth + 1, steps + 1) if rng.random() < 0.4 else steps + 1
        moves = [None if rng.random() < 0.35 else (rng.uniform(-0.4, 0.4), rng.uniform(-0.4, 0.4)) for _ in range(steps)]
        x0 = rng.uniform(3, 18); y0 = rng.uniform(3, 18)
        H = float(env.depth(x0, y0))
        if conf["has_active"]:
            a0 = rng.choice([0, 1, 1, 2]) if conf["carrier"] == "numeric" else rng.choice([0, 1, 1])
        else:
            a0 = 1
        z0 = H if a0 == 0 else rng.choice([0.0, H, H * (1 - 2.0 ** -40), rng.uniform(0, H)])
        sc[pid] = dict(birth=birth, death=death, moves=moves, x0=x0, y0=y0, z0=z0, active0=a0,
                       sink=rng.choice(([0.0] if modname == "sedimentation" else []) + [1e-9, 1e-3, 0.01, 0.1]),
                       age0=rng.choice([0.0, 0.0, conf["dt"], 5e5]),
                       ub=[rng.choice([0.0, s_at, s_at * (1 - 1e-9), s_at * (1 + 1e-9), 2 * s_at + 0.01, 0.3 * s_at]) for _ in range(steps)],
                       vb=[rng.choice([0.0, 0.0, 0.01]) for _ in range(steps)])
    return sc


FULL_VARS = ("X", "Y", "Z", "age", "alive", "active", "sink_vel")


def run_full_history(modname, conf, script, pids, steps, seed, inj, shuffle_rng=None):
    """community of `pids` living through `steps` updates of ONE IBM object (its remembered positions and its cached
    bottom stress live across the steps).  Returns ({pid: [state of the particle after each update it lived]},
    [(step, message) for every empty state that raised or warned])."""
    M = ibmrun.mod(modname)
    env = conf["env"]
    cfg = dict(dt=conf["dt"], ibm=dict(conf["ibm"]))
    cfg.update(conf.get("top", {}))
    ibm = M.IBM(cfg)
    mobile_needs_active = conf["has_active"]
    cur = {}
    traj = {p: [] for p in pids}
    empties = []
    for t in range(steps):
        # tracker: retire (scripted, or marked dead by the module in the previous update), release
        for p in list(cur):
            if script[p]["death"] <= t or not cur[p]["alive"]:
                del cur[p]
        for p in pids:
            if script[p]["birth"] == t:
                sp = script[p]
                cur[p] = dict(X=sp["x0"], Y=sp["y0"], Z=sp["z0"], age=sp["age0"], alive=True, active=sp["active0"],
                              sink_vel=sp["sink"])
        order = [p for p in pids if p in cur]
        if shuffle_rng is not None:
            shuffle_rng.shuffle(order)
        if t > 0:
            for p in order:
                mv = script[p]["moves"][t]
                if mv is not None and script[p]["birth"] < t and (not mobile_needs_active or cur[p]["active"] != 0):
                    cur[p]["X"] += mv[0]; cur[p]["Y"] += mv[1]
        n = len(order)
        arr = dict(X=np.array([cur[p]["X"] for p in order], dtype=float), Y=np.array([cur[p]["Y"] for p in order], dtype=float),
                   Z=np.array([cur[p]["Z"] for p in order], dtype=float), age=np.array([cur[p]["age"] for p in order], dtype=float),
                   alive=np.ones(n, bool), pid=np.array(order, dtype=np.int64))
        if conf["has_active"]:
            arr["active"] = np.array([cur[p]["active"] for p in order], dtype=float if conf["carrier"] == "numeric" else bool)
        if conf["has_sink"]:
            arr["sink_vel"] = np.array([cur[p]["sink_vel"] for p in order], dtype=float)
        st = NumState(dt=conf["dt"], timestep=t, **arr)
        ub = np.array([script[p]["ub"][t] for p in order], dtype=float)
        vb = np.array([script[p]["vb"][t] for p in order], dtype=float)
        f = env.forcing()
        f.velocity = lambda x, y, z, tstep=0, _u=ub, _v=vb: (_u.copy(), _v.copy())
        if n == 0:
            with warnings.catch_warnings():
                warnings.simplefilter("error")
                try:
                    with np.errstate(all="warn"):
                        with RngRecorder(seed + t, inj):
                            ibm.update_ibm(env.grid(), st, f)
                except Exception as e:       # noqa
                    empties.append((t, repr(e)))
                    return traj, empties
            continue
        with RngRecorder(seed + t, inj):
            ibm.update_ibm(env.grid(), st, f)
        for i, p in enumerate(order):
            for k in FULL_VARS:
                if k in st:
                    v = st[k][i]
                    cur[p][k] = bool(v) if k == "alive" else float(v)
            traj[p].append(tuple(cur[p][k] for k in FULL_VARS))
    return traj, empties


def full_histories(ctx, modname):
    """every state variable of every particle, in the community (re-ordered before every update) and alone"""
    import random
    site = "ladim_plugins/%s/ibm.py" % modname
    for h in range(ctx.n(30, 300)):
        steps = ctx.rng.randrange(3, 7)
        npart = ctx.rng.randrange(2, 7)
        conf = full_conf(ctx.rng, modname)
        script = make_full_script(ctx.rng, steps, npart, modname, conf)
        pids = list(script)
        inj = const_inj(ctx.rng)
        seed = ctx.sub_seed()
        summ = dict(module=modname, dt=conf["dt"], ibm=conf["ibm"], env=conf["env"].asdict(), carrier=conf.get("carrier"),
                    has_active=conf["has_active"], script=script)
        ctx.case(key=(modname, "full_history", repr(summ)), nontrivial=True)
        ctx.branch("%s.full_history" % modname)
        comm, emp = run_full_history(modname, conf, script, pids, steps, seed, inj, random.Random(seed))
        for t, msg in emp:
            ctx.oracle(False, "C10.%s.empty_set" % modname, site,
                       "empty particle set at update %d of a history (module has remembered state): %s" % (t, msg), summ)
        if conf["tc"] is not None:
            ctx.branch("%s.full_history.resuspension_on" % modname)
        if not conf["has_active"] and modname == "mine":
            ctx.branch("mine.full_history.no_active_variable")
        if conf.get("carrier") == "bool" and conf["has_active"]:
            ctx.branch("%s.full_history.boolean_active" % modname)
        if modname == "chemicals":
            ctx.branch("chemicals.full_history.%s" % conf["ibm"]["land_collision"])
            if "horzdiff_type" in conf["ibm"]:
                ctx.branch("chemicals.full_history.horzdiff")
        ia = FULL_VARS.index("active"); il = FULL_VARS.index("alive")
        if conf["has_active"]:
            flags = [[s_[ia] for s_ in tr] for tr in comm.values()]
            ctx.branch("%s.full_history.settled_particle" % modname, sum(1 for fl in flags if 0 in fl))
            ctx.branch("%s.full_history.resuspended_particle" % modname,
                       sum(1 for p, fl in zip(comm, flags) if any(a == 0 and b != 0 for a, b in zip([script[p]["active0"]] + fl, fl))))
        ctx.branch("%s.full_history.killed_by_module" % modname, sum(1 for tr in comm.values() if tr and not tr[-1][il]))
        for p in pids:
            solo, emp1 = run_full_history(modname, conf, script, [p], steps, seed, inj)
            for t, msg in emp1:
                ctx.branch("%s.full_history.empty_state_failed" % modname)
                ctx.oracle(False, "C10.%s.empty_set" % modname, site,
                           "empty particle set at update %d of a history (module has remembered state): %s" % (t, msg),
                           dict(summ, pid=p))
            if emp1:
                continue
            a, b = solo[p], comm[p]
            ok = len(a) == len(b)
            what = "number of updates lived %d vs %d" % (len(b), len(a))
            if ok:
                for t_, (sa, sb) in enumerate(zip(a, b)):
                    for k, va, vb_ in zip(FULL_VARS, sa, sb):
                        same = (va == vb_) if isinstance(va, bool) else same_bits(va, vb_)
                        if not same:
                            ok = False
                            what = "%s after its update no. %d: %r in the community, %r alone" % (k, t_, vb_, va)
                            break
                    if not ok:
                        break
            ctx.oracle(ok, "C10.%s.history_identity" % modname, site,
                       "pid %d in the community differs from the same particle alone: %s" % (p, what),
                       dict(summ, pid=p, community=comm[p], alone=solo[p], vars=FULL_VARS))
        ctx.branch("%s.full_history.empty_state_inside" % modname,
                   sum(1 for p in pids if script[p]["birth"] > 0 or script[p]["death"] < steps))


# ------------------------------------------------------------------ histories for EVERY module (one IBM object, many updates)
# state variable -> case key (None: the variable starts at 0, which is what LADiM's State.append gives a variable the
# release file does not carry).  `alive` / `active` are carried along for every module.
MH_VARS = {
    "egg": dict(X="x", Y="y", Z="z", age="age", egg_buoy="buoy", temp=None, salt=None),
    "salmon_lice": dict(X="x", Y="y", Z="z", age="age", days="days", super="super", temp=None, salt=None),
    "larvae": dict(X="x", Y="y", Z="z", age="age", weight="weight", egg_buoy="buoy", temp=None, salt=None, direction=None),
    "saithe": dict(X="x", Y="y", Z="z", age="age", weight="weight", egg_buoy="buoy", temp=None, salt=None,
                   direction="direction"),
    "sandeel": dict(X="x", Y="y", Z="z", stage="stage", hatch_rate="hatch"),
    "lunar_eel": dict(X="x", Y="y", Z="z"),
    "shrimp": dict(X="x", Y="y", Z="z", stage="stage", depth_quantile="q", age="age", temp=None, salt=None, length=None),
    "vps": dict(X="x", Y="y", Z="z", age="age"),
}
# variables a module initialises lazily ("0 = not yet initialised, draw / set it in this update"): a freshly released
# particle carries 0 there
MH_LAZY = {"shrimp": ("q", "stage"), "sandeel": ("hatch",), "saithe": ("direction",)}


def mh_case(ctx, name):
    """a pool of 2..6 heterogeneous particles of module `name` (the module's own case generator), mostly in a
    horizontally heterogeneous environment, freshly released particles with their lazily initialised variables at 0"""
    rng = ctx.rng
    gen = ibmrun.MODULES[name][0]
    n = rng.randrange(2, 7)
    case = gen(rng, n=n)
    if rng.random() < 0.7:
        case = hetero(ctx, name, case)
    lazy = [k for k in MH_LAZY.get(name, ()) if k in case and not (k == "direction" and not case.get("spread"))]
    fresh = 0
    for i in range(n):
        if lazy and rng.random() < 0.6:
            for k in lazy:
                if rng.random() < 0.8:
                    case[k][i] = 0.0
            fresh += 1
    return case, n, fresh


def mh_script(rng, steps, n):
    """per particle: label (pid), step of release, step of removal by the tracker, per-step tracker move or None"""
    base = rng.choice([0, 0, 1000, 2 ** 33])
    labels = rng.sample(range(base, base + 40), n)
    sc = []
    for i in range(n):
        birth = rng.randrange(1, max(2, steps)) if rng.random() < 0.5 else 0
        death = rng.randrange(birth + 1, steps + 1) if rng.random() < 0.5 else steps + 1
        moves = [None if rng.random() < 0.35 else (rng.uniform(-0.4, 0.4), rng.uniform(-0.4, 0.4)) for _ in range(steps)]
        sc.append(dict(pid=labels[i], birth=birth, death=death, moves=moves))
    return sc


def mh_run(name, case, script, members, steps, seed, inj, mode, shuffle_rng=None, fresh_ibm_at=None):
    """the particles `members` (indices into the pool `case`) living through `steps` updates of ONE IBM object of module
    `name`.  Between the updates the tracker removes the particles whose time has come and those the module marked
    dead, releases the new ones (appended behind the survivors, as LADiM does), re-orders the arrays when `mode` is
    'reorder' (the particles carry their values along), and moves the mobile particles.  The environment is a function of
    the particle's own position / identity, the time stamp advances by the time step.  `fresh_ibm_at`: the updates
    before that step are skipped altogether (the IBM object is created at that step).
    Returns ({i: [every state variable of particle i after each update it lived]}, [(step, message)] for the empty
    states that raised or warned, number of releases behind a removal / re-ordering)"""
    runner = ibmrun.MODULES[name][1]
    vmap = dict(MH_VARS[name])
    if name == "saithe" and not case.get("spread"):
        vmap["direction"] = None                            # not read without `extra_spreading`
    names = list(vmap) + ["active", "alive"]
    sdt = case.get("sdt", case.get("state_dt", case["dt"]))
    ts0 = case.get("ts", ibmrun.TS if name == "lunar_eel" else None)
    ibm = None
    cur = {}
    prev_order = []
    traj = {i: [] for i in members}
    empties = []
    mixed = 0
    for t in range(steps):
        gone = [i for i in list(cur) if script[i]["death"] <= t or not cur[i]["alive"]]
        for i in gone:
            del cur[i]
        born = [i for i in members if script[i]["birth"] == t]
        for i in born:
            d = {k: (0.0 if ck is None else case[ck][i]) for k, ck in vmap.items()}
            d["alive"] = True
            d["active"] = bool(case["active"][i]) if isinstance(case.get("active"), np.ndarray) else True
            cur[i] = d
        order = [i for i in prev_order if i in cur] + born
        if mode == "reorder" and shuffle_rng is not None:
            shuffle_rng.shuffle(order)
        if born and prev_order and order[:len(prev_order)] != prev_order:
            mixed += 1
        prev_order = list(order)
        if t > 0:
            for i in order:
                mv = script[i]["moves"][t]
                if mv is not None and script[i]["birth"] < t and cur[i]["active"]:
                    cur[i]["X"] = float(cur[i]["X"]) + mv[0]; cur[i]["Y"] = float(cur[i]["Y"]) + mv[1]
        if fresh_ibm_at is not None and t < fresh_ibm_at:
            continue
        idx = np.array(order, dtype=int)
        sub = reindex(case, idx)
        ts = None if ts0 is None else ts0 + np.timedelta64(int(round(case["dt"] * t)), "s")
        if ts is not None:
            sub["ts"] = ts
        n = len(order)
        if n == 0:
            # the runner builds the (empty) state itself
            with warnings.catch_warnings():
                warnings.simplefilter("error")
                try:
                    with np.errstate(all="warn"):
                        res = runner(sub, seed + t, None, inj, ibm=ibm)
                    ibm = res["ibm"]
                except Exception as e:       # noqa
                    empties.append((t, repr(e)))
                    return traj, empties, mixed, names
            continue
        arrays = {k: np.array([cur[i][k] for i in order], dtype=bool if k == "active" else float) for k in names if k != "alive"}
        kw = {} if ts is None else dict(timestamp=ts)
        st = real_state(dt=sdt, timestep=t, **kw, **arrays)
        st["pid"] = np.array([script[i]["pid"] for i in order], dtype=np.int64)
        res = runner(sub, seed + t, None, inj, ibm=ibm, state=st)
        ibm = res["ibm"]
        for j, i in enumerate(order):
            for k in names:
                v = st[k][j]
                cur[i][k] = bool(v) if k in ("alive", "active") else float(v)
            traj[i].append(tuple(cur[i][k] for k in names))
    return traj, empties, mixed, names


def module_histories(ctx, name):
    """every state variable of every particle over a history of 3..6 updates of one IBM object: in the community
    (releases, removals, re-orderings between the updates) and alone - once with the IBM object living through the
    same updates (empty states while the particle is not there) and once with an IBM object created when the particle
    is released.  The module keeps nothing that should survive an update except what it remembers BY IDENTITY, so the
    three must agree bit for bit (identical draws: one constant per kind; environment attached to the particle)."""
    import random
    site = "ladim_plugins/%s/ibm.py" % name
    for h in range(ctx.n(14, 150)):
        steps = ctx.rng.randrange(3, 7)
        case, n, fresh = mh_case(ctx, name)
        script = mh_script(ctx.rng, steps, n)
        mode = ctx.rng.choice(["reorder", "release_order"])
        inj = const_inj(ctx.rng)
        seed = ctx.sub_seed()
        members = list(range(n))
        summ = dict(module=name, case=ibmrun.case_summary(case), script=script, steps=steps, mode=mode)
        ctx.case(key=(name, "module_history", repr(summ)), nontrivial=True)
        ctx.branch("%s.module_history" % name)
        ctx.branch("%s.module_history.%s" % (name, mode))
        ctx.size("%s.module_history" % name, n)
        out = mh_run(name, case, script, members, steps, seed, inj, mode, random.Random(seed))
        comm, emp = out[0], out[1]
        for t, msg in emp:
            ctx.oracle(False, "C10.%s.empty_set" % name, site,
                       "empty particle set at update %d of a history (same IBM object): %s" % (t, msg), summ)
        if emp:
            continue
        names = out[3]
        ctx.branch("%s.module_history.release_behind_removal_or_reordering" % name, out[2])
        ctx.branch("%s.module_history.released_uninitialised" % name, fresh)
        il = names.index("alive")
        ctx.branch("%s.module_history.killed_by_module" % name, sum(1 for tr in comm.values() if tr and not tr[-1][il]))
        ctx.branch("%s.module_history.empty_state_inside" % name,
                   int(any(all(not (s["birth"] <= t < s["death"]) for s in script) for t in range(steps))))
        for i in members:
            for variant, fresh_at in (("alone (same updates, empty states while it is absent)", None),
                                      ("alone, IBM object created at its release", script[i]["birth"])):
                o1 = mh_run(name, case, script, [i], steps, seed, inj, "release_order", None, fresh_at)
                for t, msg in o1[1]:
                    ctx.oracle(False, "C10.%s.empty_set" % name, site,
                               "empty particle set at update %d of a history (same IBM object): %s" % (t, msg),
                               dict(summ, particle=i))
                if o1[1]:
                    continue
                a, b = o1[0][i], comm[i]
                ok = len(a) == len(b)
                what = "number of updates lived %d vs %d" % (len(b), len(a))
                if ok:
                    for t_, (sa, sb) in enumerate(zip(a, b)):
                        for k, va, vb_ in zip(names, sa, sb):
                            same = (va == vb_) if isinstance(va, bool) else same_bits(va, vb_)
                            if not same:
                                ok = False
                                what = "%s after its update no. %d: %r in the community, %r %s" % (k, t_, vb_, va, variant)
                                break
                        if not ok:
                            break
                ctx.oracle(ok, "C10.%s.history_identity" % name, site,
                           "pid %d (particle %d of the pool) in the community differs from the same particle alone: %s"
                           % (script[i]["pid"], i, what),
                           dict(summ, particle=i, pid=script[i]["pid"], variant=variant, community=comm[i], alone=a, vars=names))


def _reposition_once(M, modname, old_p, ox, oy, new_p, nx, ny, act, seed):
    """one call of the module's `reposition` with the given memory and state; returns (x, y) after"""
    if modname == "chemicals":
        ibm = M.IBM(dict(dt=60.0, ibm=dict(land_collision="reposition", vertical_advection=False)))
    else:
        ibm = M.IBM(dict(dt=60.0, ibm=dict(lifespan=1e9, vertical_mixing=0.0, taucrit=1000), output_instance=[],
                         nc_attributes={}))
    n_new = len(new_p)
    ibm.x = np.array(ox, dtype=float); ibm.y = np.array(oy, dtype=float); ibm.pid = np.array(old_p, dtype=int)
    st = NumState(X=np.array(nx, dtype=float), Y=np.array(ny, dtype=float), Z=np.zeros(n_new), pid=np.array(new_p, dtype=int),
                  alive=np.ones(n_new, bool), active=np.array(act, dtype=float), age=np.zeros(n_new),
                  sink_vel=np.full(n_new, 1e-9), dt=60.0, timestep=0)
    ibm.state = st
    with RngRecorder(seed, lambda k, p_, v: np.full(v.shape, 0.3)):
        ibm.reposition()
    return np.array(st.X, dtype=float), np.array(st.Y, dtype=float)


def memory_model(ctx, drv):
    """the implementation's reposition decisions: (i) each particle in the set vs alone (state reduced to the particle;
    memory reduced to the particle's own record), (ii) decided by the particle's own remembered position,
    (iii) Lean `Memory.stuck` (mine: copies; chemicals under fresh arrays)"""
    use_drv = drv.available
    if not use_drv:
        ctx.note("driver unavailable: memory model correspondence skipped")
    pend = []
    for modname in ("chemicals", "mine"):
        M = ibmrun.mod(modname)
        site = "ladim_plugins/%s/ibm.py::reposition" % modname
        for _ in range(ctx.n(40, 600)):
            n_old = ctx.rng.randrange(0, 6); n_new = ctx.rng.randrange(0, 6)
            off = ctx.rng.choice([0, 0, 1000])
            pool = list(range(off, off + 8))
            old_p = ctx.rng.sample(pool, n_old); new_p = ctx.rng.sample(pool, n_new)
            ox = [float(ctx.rng.randrange(3, 8)) + ctx.rng.choice([0.0, 0.25]) for _ in old_p]
            oy = [float(ctx.rng.randrange(3, 8)) + ctx.rng.choice([0.0, 0.25]) for _ in old_p]
            nx, ny = [], []
            for p in new_p:
                if p in old_p and ctx.rng.random() < 0.6:
                    j = old_p.index(p)
                    nx.append(ox[j]); ny.append(oy[j] if ctx.rng.random() < 0.7 else oy[j] + 0.5)
                elif n_old and ctx.rng.random() < 0.3:
                    # exactly where ANOTHER particle was remembered (a particle that is not in the memory, or is there
                    # with another position): only a comparison with somebody else's history finds it "not moved"
                    j = ctx.rng.randrange(n_old)
                    nx.append(ox[j]); ny.append(oy[j])
                    ctx.branch("%s.memory_lookup.at_anothers_remembered_position" % modname, int(old_p[j] != p))
                else:
                    nx.append(float(ctx.rng.randrange(3, 8)) + 0.125); ny.append(float(ctx.rng.randrange(3, 8)))
            # mine: settled particles (flag 0) among suspended (1) and resuspended (2) ones
            act = [ctx.rng.choice([1, 1, 0, 2]) if modname == "mine" else 1 for _ in new_p]
            seed = ctx.sub_seed()
            x_before = np.array(nx, dtype=float); y_before = np.array(ny, dtype=float)
            X1, Y1 = _reposition_once(M, modname, old_p, ox, oy, new_p, nx, ny, act, seed)
            moved = (X1 != x_before) | (Y1 != y_before)
            mem = " ".join("%d %s %s" % (p, F(x), F(y)) for p, x, y in zip(old_p, ox, oy))
            for i, p in enumerate(new_p):
                cs = dict(module=modname, old=list(zip(old_p, ox, oy)), state=list(zip(new_p, nx, ny, act)), pid=p,
                          x=x_before[i], y=y_before[i], after=(X1[i], Y1[i]))
                # (i) the particle alone in the state, the memory unchanged
                xs, ys = _reposition_once(M, modname, old_p, ox, oy, [p], [nx[i]], [ny[i]], [act[i]], seed)
                ctx.oracle(same_bits(xs[0], X1[i]) and same_bits(ys[0], Y1[i]), "C10.%s.memory_identity" % modname, site,
                           "pid %d ends at %r in the set and at %r when the other particles are absent from the state"
                           % (p, (X1[i], Y1[i]), (xs[0], ys[0])), cs)
                # ... and the memory reduced to the particle's own record (none when it was not remembered)
                own = [j for j, q in enumerate(old_p) if q == p]
                xm, ym = _reposition_once(M, modname, [old_p[j] for j in own], [ox[j] for j in own], [oy[j] for j in own],
                                          [p], [nx[i]], [ny[i]], [act[i]], seed)
                ctx.oracle(same_bits(xm[0], X1[i]) and same_bits(ym[0], Y1[i]), "C10.%s.memory_identity" % modname, site,
                           "pid %d ends at %r in the set and at %r when the other particles are absent from state and memory"
                           % (p, (X1[i], Y1[i]), (xm[0], ym[0])), cs)
                if act[i] != 0:
                    # (ii) a suspended particle is compared with its OWN remembered position, and with nothing else
                    want = bool(own) and ox[own[0]] == nx[i] and oy[own[0]] == ny[i]
                    ctx.oracle(bool(moved[i]) == want, "C10.%s.memory_identity" % modname, site,
                               "pid %d at %r, own remembered position %r: re-seeded=%r" %
                               (p, (nx[i], ny[i]), (ox[own[0]], oy[own[0]]) if own else None, bool(moved[i])), cs)
                    if use_drv:
                        j = drv.ask("mem.stuck", I(n_old), mem, I(p), F(x_before[i]), F(y_before[i]))
                        pend.append((j, bool(moved[i]), dict(module=modname, old=list(zip(old_p, ox, oy)), pid=p,
                                                             x=x_before[i], y=y_before[i])))
                else:
                    ctx.branch("mine.memory_lookup.settled_particle")
            ctx.case(key=(modname, "mem", repr((old_p, ox, oy, new_p, nx, ny, act))), nontrivial=n_old > 0 and n_new > 0)
            ctx.branch("%s.memory_lookup" % modname)
    if not use_drv:
        return
    rep = drv.run()
    for j, moved, cs in pend:
        st, t = rep[j]
        if st != "ok":
            ctx.disagreement("mem.stuck", "driver error %r" % (t,), cs); continue
        # reseed with u=0.3 moves unless round(x)-0.5+0.3 == x; positions are chosen so that it always moves
        ctx.eq("memory.stuck", moved, t[0] == "1", cs)


# ------------------------------------------------------------------ saithe: directed horizontal swimming
def saithe_spread(ctx):
    """heterogeneous saithe sets (eggs, non-directed larvae, directed larvae that stay, that would leave the grid, that
    would swim onto land, new particles without a direction): each particle's fate (position, alive, direction) is
    the same in the full set, in a permuted set and in a sub-selection"""
    M = ibmrun.mod("saithe")
    site = "ladim_plugins/saithe/ibm.py::spread"
    for _ in range(ctx.n(30, 400)):
        r = ctx.rng.randrange(5, 9); cc = ctx.rng.randrange(5, 9)
        sea = np.array([[1 if ctx.rng.random() < 0.8 else 0 for _a in range(cc)] for _b in range(r)])
        dt = ctx.rng.choice([3600.0, 86400.0, 43200.0])
        env = LinEnv(h0=100.0, dx=800.0, xmin=0.0, xmax=cc - 1.0, ymin=0.0, ymax=r - 1.0)
        n = ctx.rng.randrange(2, 9)
        X = np.array([ctx.rng.choice([0.2, cc - 1.2, ctx.rng.uniform(0, cc - 1)]) for _a in range(n)])
        Y = np.array([ctx.rng.choice([0.2, r - 1.2, ctx.rng.uniform(0, r - 1)]) for _a in range(n)])
        age = np.array([ctx.rng.choice([10.0, 70.0, 100.0, 150.0]) for _a in range(n)])
        direction = np.array([ctx.rng.choice([float("nan"), 0.0, 0.3, 1.6, 3.1, 4.7, 6.0]) for _a in range(n)])
        inj = const_inj(ctx.rng)
        seed = ctx.sub_seed()

        def go(idx):
            ibm = M.IBM(dict(dt=dt, ibm=dict(extra_spreading=True)))
            g = env.grid()
            g.atsea = lambda x, y: sea[np.clip(np.round(y).astype(int), 0, r - 1), np.clip(np.round(x).astype(int), 0, cc - 1)] > 0
            m = len(idx)
            st = real_state(dt=dt, timestamp=np.datetime64("2020-06-01T12:00:00"), X=X[idx].copy(), Y=Y[idx].copy(), Z=np.full(m, 40.0),
                            age=age[idx].copy(), weight=np.full(m, 1.0), egg_buoy=np.full(m, 33.0), temp=np.zeros(m), salt=np.zeros(m),
                            direction=direction[idx].copy())
            with RngRecorder(seed, inj):
                ibm.update_ibm(g, st, env.forcing())
            return dict(X=np.array(st.X), Y=np.array(st.Y), alive=np.array(st.alive), direction=np.array(st["direction"]))

        full = go(np.arange(n))
        cs = dict(mask=sea.tolist(), dt=dt, X=X, Y=Y, age=age, direction=direction)
        ctx.case(key=("saithe_spread", _, n), nontrivial=True); ctx.branch("saithe.spread"); ctx.size("saithe_spread", n)
        ctx.branch("saithe.spread.someone_dies", int((~full["alive"]).any()))
        perm = list(range(n)); ctx.rng.shuffle(perm); perm = np.array(perm)
        rp = go(perm)
        sel = np.array(sorted(ctx.rng.sample(range(n), ctx.rng.randrange(1, n))))
        rs = go(sel)
        for k, v in full.items():
            ctx.oracle(arrays_equal(v[perm], rp[k]), "C10.saithe.spread.permutation", site,
                       "%s differs after permuting the particle arrays with %r: %r vs %r" % (k, perm.tolist(), v[perm].tolist(), rp[k].tolist()), dict(cs, key=k))
            ctx.oracle(arrays_equal(v[sel], rs[k]), "C10.saithe.spread.subselection", site,
                       "%s of particles %r differs when the others are absent: %r vs %r" % (k, sel.tolist(), v[sel].tolist(), rs[k].tolist()), dict(cs, key=k))


def run(ctx):
    for name in ibmrun.MODULES:
        metamorphic(ctx, name)
    # mine on a state without an `active` variable (every particle counts as suspended; taucrit >= 1000)
    metamorphic(ctx, "mine", gen=lambda rng, n=None: ibmrun.mine_case(rng, n, no_active=True), label="mine.no_active")
    saithe_spread(ctx)
    for m in ("chemicals", "mine"):
        histories(ctx, m)
    for m in ("chemicals", "sedimentation", "mine"):
        full_histories(ctx, m)
    for m in MH_VARS:
        module_histories(ctx, m)
    if not getattr(ctx, "widened", False):
        memory_model(ctx, Driver())


def replay(payload):
    print("predicate:", payload.get("predicate"), "|", payload.get("detail"))
    return False
