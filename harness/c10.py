"""C10 — particles do not influence each other; bookkeeping follows particle identity.

(i) metamorphic relations on the implementation: update(perm(S)) = perm(update(S)), update(sub(S)) =
sub(update(S)), update(empty) raises nothing and warns nothing — with identical draws (every draw of a
given kind has the same value for all particles of the paired runs) and the environment attached to the
particle; (ii) histories with additions, removals and re-orderings between updates for the modules that
remember the previous step: each particle's trajectory in the community equals its trajectory alone;
(iii) the Lean memory model (`Memory.stuck`) against the implementation's reposition decisions."""
import warnings
import numpy as np
from . import ibmrun
from .common import Driver, F, I, B, same_bits, RngRecorder
from .stubs import NumState, real_state, LinEnv, Obj

RULE = ("per IBM module: heterogeneous sets of 2..8 particles, a random permutation, a random sub-selection and the "
        "empty set; draws constant per kind within a paired run; histories of 3..6 updates with moves, removals, "
        "additions and re-orderings for chemicals/mine (remembered positions, fresh-array state) and sedimentation "
        "(bottom-stress cache); saithe directed swimming (eggs / non-directed / directed larvae staying, leaving the grid, meeting land). Non-trivial: set with >=2 distinct particles.")
ASSUMPTIONS = ["'identical random draws' is realised by serving one constant per draw kind to all particles of the "
               "paired runs", "environment values are attached to the particle (function of its position or identity)"]


def const_inj(rng):
    u0 = rng.choice([0.0, 0.25, 0.5, 0.81, 1 - 2.0 ** -53])
    x0 = rng.choice([-2.5, -0.3, 0.0, 0.7, 3.0])
    e0 = rng.choice([0.0, 0.5, 3.0])

    def inj(kind, params, v):
        c = u0 if kind in ("rand", "uniform") else x0 if kind in ("randn", "normal") else e0
        return np.full(v.shape, c)
    return inj


def reindex(case, idx):
    n = len(case["x"])
    c = {}
    for k, v in case.items():
        if isinstance(v, np.ndarray) and v.shape[:1] == (n,) and k not in ():
            c[k] = v[idx].copy()
        else:
            c[k] = v
    return c


def arrays_equal(a, b):
    if len(a) != len(b):
        return False
    for x, y in zip(a, b):
        if isinstance(x, (bool, np.bool_)) or isinstance(y, (bool, np.bool_)):
            if bool(x) != bool(y):
                return False
        elif not same_bits(x, y):
            return False
    return True


def metamorphic(ctx, name):
    gen, runner = ibmrun.MODULES[name]
    site = "ladim_plugins/%s/ibm.py" % name
    for _ in range(ctx.n(25, 400)):
        n = ctx.rng.randrange(2, 9)
        case = gen(ctx.rng, n=n)
        if name in ("chemicals", "mine"):
            case["land"] = ctx.rng.choice(["freeze", "reposition"])
        inj = const_inj(ctx.rng)
        seed = ctx.sub_seed()
        full = runner(case, seed, None, inj)
        ctx.case(key=(name, repr(ibmrun.case_summary(case))), nontrivial=True,
                 sample=dict(module=name, n=n) if _ == 0 else None)
        ctx.size(name, n)
        # permutation
        perm = list(range(n)); ctx.rng.shuffle(perm); perm = np.array(perm)
        rp = runner(reindex(case, perm), seed, None, inj)
        for k, v in full["after"].items():
            ok = arrays_equal(v[perm], rp["after"][k])
            ctx.oracle(ok, "C10.%s.permutation" % name, site,
                       "%s differs after permuting the particle arrays with %r" % (k, perm.tolist()),
                       dict(module=name, case=ibmrun.case_summary(case), perm=perm.tolist(), key=k,
                            full=v, permuted=rp["after"][k]))
        ctx.branch("%s.perm" % name)
        # sub-selection
        m = ctx.rng.randrange(1, n)
        sel = np.array(sorted(ctx.rng.sample(range(n), m)))
        rs = runner(reindex(case, sel), seed, None, inj)
        for k, v in full["after"].items():
            ok = arrays_equal(v[sel], rs["after"][k])
            ctx.oracle(ok, "C10.%s.subselection" % name, site,
                       "%s of particles %r differs when the others are absent" % (k, sel.tolist()),
                       dict(module=name, case=ibmrun.case_summary(case), sel=sel.tolist(), key=k,
                            full=v, alone=rs["after"][k]))
        ctx.branch("%s.subset" % name)
    # empty set: no error, no warning
    for _ in range(ctx.n(3, 20)):
        case = gen(ctx.rng, n=0)
        ok = True; msg = ""
        with warnings.catch_warnings():
            warnings.simplefilter("error")
            try:
                with np.errstate(all="warn"):
                    runner(case, ctx.sub_seed(), None, None)
            except Exception as e:       # noqa
                ok = False; msg = repr(e)
        ctx.case(key=(name, "empty", _), nontrivial=False)
        ctx.branch("%s.empty" % name)
        ctx.oracle(ok, "C10.%s.empty_set" % name, site, "empty particle set: " + msg,
                   dict(module=name, case=ibmrun.case_summary(case)))


# ------------------------------------------------------------------ histories (identity-based memory)
def make_script(rng, steps, npart):
    """per pid: birth step, death step, per-step move (dx, dy) or None (= stuck on land)"""
    sc = {}
    for pid in range(npart):
        birth = rng.randrange(0, max(1, steps - 1)) if rng.random() < 0.4 else 0
        death = rng.randrange(birth + 1, steps + 1) if rng.random() < 0.4 else steps + 1
        moves = [None if rng.random() < 0.35 else (rng.uniform(-0.4, 0.4), rng.uniform(-0.4, 0.4)) for _ in range(steps)]
        sc[pid] = dict(birth=birth, death=death, moves=moves, x0=rng.uniform(3, 18), y0=rng.uniform(3, 18),
                       z0=rng.uniform(0, 5))
    return sc


def run_history(modname, script, pids, steps, seed, inj, shuffle_rng=None):
    """community of `pids` living through `steps` updates; returns {pid: [(x,y) after each update it lived]}"""
    M = ibmrun.mod(modname)
    env = LinEnv(h0=50.0)
    if modname == "chemicals":
        ibm = M.IBM(dict(dt=60.0, ibm=dict(land_collision="reposition", vertical_advection=False)))
    else:
        ibm = M.IBM(dict(dt=60.0, ibm=dict(lifespan=1e9, vertical_mixing=0.0, taucrit=1000, land_collision="reposition"),
                         output_instance=[], nc_attributes={}))
    cur = {}      # pid -> dict(x,y,z)
    traj = {p: [] for p in pids}
    for t in range(steps):
        # tracker: move the living particles, retire / release
        for p in list(cur):
            if script[p]["death"] <= t:
                del cur[p]
        for p in pids:
            if script[p]["birth"] == t:
                cur[p] = dict(x=script[p]["x0"], y=script[p]["y0"], z=script[p]["z0"])
        order = [p for p in pids if p in cur]
        if shuffle_rng is not None:
            shuffle_rng.shuffle(order)
        if t > 0:
            for p in order:
                mv = script[p]["moves"][t]
                if mv is not None and script[p]["birth"] < t:
                    cur[p]["x"] += mv[0]; cur[p]["y"] += mv[1]
        n = len(order)
        st = NumState(X=np.array([cur[p]["x"] for p in order]), Y=np.array([cur[p]["y"] for p in order]),
                      Z=np.array([cur[p]["z"] for p in order]), pid=np.array(order, dtype=int),
                      alive=np.ones(n, bool), active=np.ones(n), age=np.zeros(n), sink_vel=np.full(n, 1e-9),
                      dt=60.0, timestep=t)
        with RngRecorder(seed + t, inj):
            ibm.update_ibm(env.grid(), st, env.forcing())
        for i, p in enumerate(order):
            cur[p]["x"] = float(st.X[i]); cur[p]["y"] = float(st.Y[i]); cur[p]["z"] = float(st.Z[i])
            traj[p].append((cur[p]["x"], cur[p]["y"]))
    return traj


def histories(ctx, modname):
    site = "ladim_plugins/%s/ibm.py" % modname
    for h in range(ctx.n(12, 200)):
        steps = ctx.rng.randrange(3, 7)
        npart = ctx.rng.randrange(2, 7)
        script = make_script(ctx.rng, steps, npart)
        inj = const_inj(ctx.rng)
        seed = ctx.sub_seed()
        import random
        comm = run_history(modname, script, list(range(npart)), steps, seed, inj, random.Random(seed))
        ctx.case(key=(modname, "history", repr(script)), nontrivial=True)
        ctx.branch("%s.history" % modname)
        for p in range(npart):
            solo = run_history(modname, script, [p], steps, seed, inj)
            ok = len(solo[p]) == len(comm[p]) and all(same_bits(a[0], b[0]) and same_bits(a[1], b[1])
                                                     for a, b in zip(solo[p], comm[p]))
            ctx.oracle(ok, "C10.%s.history_identity" % modname, site,
                       "trajectory of pid %d in the community differs from its trajectory alone" % p,
                       dict(module=modname, script=script, pid=p, community=comm[p], alone=solo[p]))


def memory_model(ctx, drv):
    """Lean `Memory.stuck` vs the implementation's reposition decision (mine: copies; chemicals under fresh arrays)"""
    if not drv.available:
        ctx.note("driver unavailable: memory model correspondence skipped")
        return
    pend = []
    for modname in ("chemicals", "mine"):
        M = ibmrun.mod(modname)
        for _ in range(ctx.n(40, 600)):
            n_old = ctx.rng.randrange(0, 6); n_new = ctx.rng.randrange(0, 6)
            pool = list(range(8))
            old_p = ctx.rng.sample(pool, n_old); new_p = ctx.rng.sample(pool, n_new)
            ox = [float(ctx.rng.randrange(3, 8)) + ctx.rng.choice([0.0, 0.25]) for _ in old_p]
            oy = [float(ctx.rng.randrange(3, 8)) + ctx.rng.choice([0.0, 0.25]) for _ in old_p]
            nx, ny = [], []
            for p in new_p:
                if p in old_p and ctx.rng.random() < 0.6:
                    j = old_p.index(p)
                    nx.append(ox[j]); ny.append(oy[j] if ctx.rng.random() < 0.7 else oy[j] + 0.5)
                else:
                    nx.append(float(ctx.rng.randrange(3, 8)) + 0.125); ny.append(float(ctx.rng.randrange(3, 8)))
            if modname == "chemicals":
                ibm = M.IBM(dict(dt=60.0, ibm=dict(land_collision="reposition", vertical_advection=False)))
            else:
                ibm = M.IBM(dict(dt=60.0, ibm=dict(lifespan=1e9, vertical_mixing=0.0, taucrit=1000), output_instance=[],
                                 nc_attributes={}))
            ibm.x = np.array(ox); ibm.y = np.array(oy); ibm.pid = np.array(old_p, dtype=int)
            st = NumState(X=np.array(nx), Y=np.array(ny), Z=np.zeros(n_new), pid=np.array(new_p, dtype=int),
                          alive=np.ones(n_new, bool), active=np.ones(n_new), age=np.zeros(n_new),
                          sink_vel=np.full(n_new, 1e-9), dt=60.0, timestep=0)
            ibm.state = st
            x_before = st.X.copy(); y_before = st.Y.copy()
            with RngRecorder(ctx.sub_seed(), lambda k, p_, v: np.full(v.shape, 0.3)):
                ibm.reposition()
            moved = (st.X != x_before) | (st.Y != y_before)
            mem = " ".join("%d %s %s" % (p, F(x), F(y)) for p, x, y in zip(old_p, ox, oy))
            for i, p in enumerate(new_p):
                j = drv.ask("mem.stuck", I(n_old), mem, I(p), F(x_before[i]), F(y_before[i]))
                pend.append((j, bool(moved[i]), dict(module=modname, old=list(zip(old_p, ox, oy)), pid=p,
                                                     x=x_before[i], y=y_before[i])))
            ctx.case(key=(modname, "mem", repr((old_p, ox, oy, new_p, nx, ny))), nontrivial=n_old > 0 and n_new > 0)
            ctx.branch("%s.memory_lookup" % modname)
    rep = drv.run()
    for j, moved, cs in pend:
        st, t = rep[j]
        if st != "ok":
            ctx.disagreement("mem.stuck", "driver error %r" % (t,), cs); continue
        # reseed with u=0.3 moves unless round(x)-0.5+0.3 == x; positions are chosen so that it always moves
        ctx.eq("memory.stuck", moved, t[0] == "1", cs)


# ------------------------------------------------------------------ saithe: directed horizontal swimming
def saithe_spread(ctx):
    """heterogeneous saithe sets (eggs, non-directed larvae, directed larvae that stay, that would leave the grid, that
    would swim onto land, new particles without a direction): each particle's fate (position, alive, direction) is
    the same in the full set, in a permuted set and in a sub-selection"""
    M = ibmrun.mod("saithe")
    site = "ladim_plugins/saithe/ibm.py::spread"
    for _ in range(ctx.n(30, 400)):
        r = ctx.rng.randrange(5, 9); cc = ctx.rng.randrange(5, 9)
        sea = np.array([[1 if ctx.rng.random() < 0.8 else 0 for _a in range(cc)] for _b in range(r)])
        dt = ctx.rng.choice([3600.0, 86400.0, 43200.0])
        env = LinEnv(h0=100.0, dx=800.0, xmin=0.0, xmax=cc - 1.0, ymin=0.0, ymax=r - 1.0)
        n = ctx.rng.randrange(2, 9)
        X = np.array([ctx.rng.choice([0.2, cc - 1.2, ctx.rng.uniform(0, cc - 1)]) for _a in range(n)])
        Y = np.array([ctx.rng.choice([0.2, r - 1.2, ctx.rng.uniform(0, r - 1)]) for _a in range(n)])
        age = np.array([ctx.rng.choice([10.0, 70.0, 100.0, 150.0]) for _a in range(n)])
        direction = np.array([ctx.rng.choice([float("nan"), 0.0, 0.3, 1.6, 3.1, 4.7, 6.0]) for _a in range(n)])
        inj = const_inj(ctx.rng)
        seed = ctx.sub_seed()

        def go(idx):
            ibm = M.IBM(dict(dt=dt, ibm=dict(extra_spreading=True)))
            g = env.grid()
            g.atsea = lambda x, y: sea[np.clip(np.round(y).astype(int), 0, r - 1), np.clip(np.round(x).astype(int), 0, cc - 1)] > 0
            m = len(idx)
            st = real_state(dt=dt, timestamp=np.datetime64("2020-06-01T12:00:00"), X=X[idx].copy(), Y=Y[idx].copy(), Z=np.full(m, 40.0),
                            age=age[idx].copy(), weight=np.full(m, 1.0), egg_buoy=np.full(m, 33.0), temp=np.zeros(m), salt=np.zeros(m),
                            direction=direction[idx].copy())
            with RngRecorder(seed, inj):
                ibm.update_ibm(g, st, env.forcing())
            return dict(X=np.array(st.X), Y=np.array(st.Y), alive=np.array(st.alive), direction=np.array(st["direction"]))

        full = go(np.arange(n))
        cs = dict(mask=sea.tolist(), dt=dt, X=X, Y=Y, age=age, direction=direction)
        ctx.case(key=("saithe_spread", _, n), nontrivial=True); ctx.branch("saithe.spread"); ctx.size("saithe_spread", n)
        ctx.branch("saithe.spread.someone_dies", int((~full["alive"]).any()))
        perm = list(range(n)); ctx.rng.shuffle(perm); perm = np.array(perm)
        rp = go(perm)
        sel = np.array(sorted(ctx.rng.sample(range(n), ctx.rng.randrange(1, n))))
        rs = go(sel)
        for k, v in full.items():
            ctx.oracle(arrays_equal(v[perm], rp[k]), "C10.saithe.spread.permutation", site,
                       "%s differs after permuting the particle arrays with %r: %r vs %r" % (k, perm.tolist(), v[perm].tolist(), rp[k].tolist()), dict(cs, key=k))
            ctx.oracle(arrays_equal(v[sel], rs[k]), "C10.saithe.spread.subselection", site,
                       "%s of particles %r differs when the others are absent: %r vs %r" % (k, sel.tolist(), v[sel].tolist(), rs[k].tolist()), dict(cs, key=k))


def run(ctx):
    for name in ibmrun.MODULES:
        metamorphic(ctx, name)
    saithe_spread(ctx)
    for m in ("chemicals", "mine"):
        histories(ctx, m)
    if not getattr(ctx, "widened", False):
        memory_model(ctx, Driver())


def replay(payload):
    print("predicate:", payload.get("predicate"), "|", payload.get("detail"))
    return False
