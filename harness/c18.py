"""C18 — release generation is reproducible, whatever way the config is supplied.

Implementation-side metamorphic checks (YAML, CSV and the command line are not in the Lean model): the
same specification as mapping / list of groups / YAML stream / YAML file / `python -m
ladim_plugins.release` gives identical tables; seeded repeated runs are identical, also when the very same mapping object is passed again; the written file
(tab separated, no header) parses back (Python `float`, what LADiM uses) to exactly the returned
table; missing-key configurations are rejected with an error naming exactly what is missing.
Correspondence: `load_config` validation against the Lean `Table.validate` for every missing-key
combination; container normalisation through the table model (shared with C01)."""
import importlib, io, os, sys, tempfile, shutil, subprocess, itertools, re
import numpy as np
from .common import Driver, I, RngRecorder
from . import relgen, c01

RULE = ("YAML-serialisable configurations: 1..4 groups, all location forms except file streams for the CLI, attribute forms "
        "const / list / range / gaussian / exponential / piecewise, seeds; five ways of supplying the config; all 2^3-1 "
        "missing-key combinations over 1..3 groups in the three containers. Non-trivial: every configuration.")
ASSUMPTIONS = ["yaml.safe_load / pandas.to_csv / the CLI are exercised, not modelled"]
SITE = "ladim_plugins/release/makrel.py"


def plain_config(rng):
    import yaml
    ng = rng.randrange(1, 5)
    groups = []
    for g in range(ng):
        form, conf = relgen.gen_group(rng, g, yamlable=True, force_num=rng.choice([1, 2, 3, 7]))
        while form == "geojson":
            form, conf = relgen.gen_group(rng, g, yamlable=True, force_num=conf["num"])
        groups.append(conf)
    return groups


def tables_equal(a, b):
    if list(a.keys()) != list(b.keys()):
        return False, "headers differ: %r vs %r" % (list(a.keys()), list(b.keys()))
    for k in a:
        if len(a[k]) != len(b[k]):
            return False, "column %s lengths differ" % k
        for x, y in zip(a[k], b[k]):
            same = (x == y) or (isinstance(x, float) and isinstance(y, float) and x != x and y != y)
            if not same:
                return False, "column %s: %r vs %r" % (k, x, y)
    return True, ""


def run(ctx):
    import yaml
    mk = importlib.import_module("ladim_plugins.release.makrel")
    tmp = tempfile.mkdtemp(prefix="verif_c18_")
    try:
        for c in range(ctx.n(40, 600)):
            groups = plain_config(ctx.rng)
            seed = ctx.rng.randrange(10000)
            cols = None
            conf = dict(seed=seed, groups=groups)
            cs = dict(config=conf)
            ctx.case(key=repr(conf), nontrivial=True, sample=dict(ngroups=len(groups), seed=seed) if c < 2 else None)
            ctx.branch("containers")
            ref = mk.make_release(dict(conf))
            again = mk.make_release(dict(conf))
            ok, msg = tables_equal(ref, again)
            ctx.oracle(ok, "C18.seed.not_reproducible", SITE + "::make_release", "two seeded runs differ: " + msg, cs)
            # the same specification *object* supplied repeatedly (a caller looping over one config)
            import copy
            for label, obj in (("grouped", copy.deepcopy(conf)),
                               ("flat", dict(copy.deepcopy(groups[0]), seed=seed) if len(groups) == 1 else None)):
                if obj is None:
                    continue
                runs = [mk.make_release(obj) for _ in range(3)]
                for k, r_ in enumerate(runs):
                    ok, msg = tables_equal(ref, r_)
                    ctx.oracle(ok, "C18.seed.same_object_not_reproducible", SITE + "::make_release",
                               "call %d with the same %s mapping object differs from the first seeded run: %s" % (k + 1, label, msg), cs)
            text = yaml.safe_dump(conf, sort_keys=False)
            via_stream = mk.make_release(io.StringIO(text))
            ok, msg = tables_equal(ref, via_stream)
            ctx.oracle(ok, "C18.container.yaml_stream_differs", SITE + "::load_config", msg, cs)
            fn = os.path.join(tmp, "conf%d.yaml" % c)
            with open(fn, "w", encoding="utf8") as f:
                f.write(text)
            out_fn = os.path.join(tmp, "out%d.rls" % c)
            via_file = mk.make_release(fn, out_fn)
            ok, msg = tables_equal(ref, via_file)
            ctx.oracle(ok, "C18.container.yaml_file_differs", SITE + "::load_config", msg, cs)
            if len(groups) == 1:
                flat = dict(groups[0]); flat["seed"] = seed
                ok, msg = tables_equal(ref, mk.make_release(flat))
                ctx.oracle(ok, "C18.container.flat_differs", SITE + "::load_config", msg, cs)
            # list container has no seed: compare under the same recorder stream instead
            s2 = ctx.sub_seed()
            with RngRecorder(s2):
                a = mk.make_release([dict(g) for g in groups])
            with RngRecorder(s2):
                b = mk.make_release(dict(groups=[dict(g) for g in groups]))
            ok, msg = tables_equal(a, b)
            ctx.oracle(ok, "C18.container.list_differs", SITE + "::load_config", msg, cs)
            # file round trip
            with open(out_fn, encoding="utf8") as f:
                lines = [l.rstrip("\n").split("\t") for l in f if l.strip() != ""]
            hdr = list(ref.keys())
            ok = len(lines) == len(ref["date"]) and all(len(l) == len(hdr) for l in lines)
            ctx.oracle(ok, "C18.file.shape", SITE + "::make_release", "file has %d lines for %d rows" % (len(lines), len(ref["date"])), cs)
            if ok:
                for j, k in enumerate(hdr):
                    for r, l in enumerate(lines):
                        v = ref[k][r]
                        if isinstance(v, str):
                            good = l[j] == v
                        elif isinstance(v, (bool, np.bool_)):
                            good = l[j] == str(bool(v))       # booleans are written as True / False
                        else:
                            try:
                                good = float(l[j]) == float(v)
                            except ValueError:
                                good = False
                        ctx.oracle(good, "C18.file.round_trip", SITE + "::make_release",
                                   "column %s row %d: file %r, table %r" % (k, r, l[j], v), dict(cs, column=k, row=r))
            # command line (a sample: process start-up is slow)
            if c < ctx.n(4, 30):
                cli_out = os.path.join(tmp, "cli%d.rls" % c)
                p = subprocess.run([sys.executable, "-m", "ladim_plugins.release", fn, cli_out], stdout=subprocess.PIPE, stderr=subprocess.PIPE)
                ctx.branch("cli")
                good = p.returncode == 0 and os.path.exists(cli_out) and open(cli_out).read() == open(out_fn).read()
                ctx.oracle(good, "C18.container.cli_differs", "ladim_plugins/release/__main__.py",
                           "command line output differs from make_release (rc=%d, %s)" % (p.returncode, p.stderr.decode()[-200:]), cs)
        # ---- error path
        drv = Driver()
        if getattr(ctx, "widened", False):
            drv.available = False
        pend = []
        base = dict(date="2000-01-01", location=[5, 60], num=3)
        keys = ["date", "location", "num"]
        for ng in (1, 2, 3):
            for combo in itertools.product(range(8), repeat=ng):
                if ng == 3 and ctx.tier != "thorough" and ctx.rng.random() < 0.8:
                    continue
                groups = []
                for m in combo:
                    g = {k: v for i, (k, v) in enumerate(base.items()) if not (m >> i) & 1}
                    g["depth"] = 1
                    groups.append(g)
                for container in (["flat", "list", "grouped"] if ng == 1 else ["list", "grouped"]):
                    if container == "flat":
                        conf = dict(groups[0]); conf["seed"] = 1; kind = "0 %d %s" % (len(conf), " ".join(conf.keys()))
                    elif container == "list":
                        conf = [dict(g) for g in groups]
                        kind = "1 %d %s" % (len(groups), " ".join("%d %s" % (len(g), " ".join(g.keys())) for g in groups))
                    else:
                        conf = dict(seed=1, groups=[dict(g) for g in groups])
                        kind = "2 1 seed %d %s" % (len(groups), " ".join("%d %s" % (len(g), " ".join(g.keys())) for g in groups))
                    any_missing = any(m != 0 for m in combo)
                    cs = dict(container=container, groups=groups)
                    ctx.case(key=("err", container, combo), nontrivial=True); ctx.branch("missing_keys")
                    err = None; res = None
                    try:
                        res = mk.make_release(conf)
                    except ValueError as e:
                        err = str(e)
                    except Exception as e:
                        err = "OTHER " + repr(e)
                    if any_missing:
                        ctx.oracle(err is not None and not err.startswith("OTHER"), "C18.invalid.not_rejected",
                                   SITE + "::load_config", "missing keys but result %r / error %r" % (None if res is None else "table", err), cs)
                        if err and not err.startswith("OTHER"):
                            for gi, m in enumerate(combo):
                                for i, k in enumerate(keys):
                                    if (m >> i) & 1:
                                        ctx.oracle(k in err, "C18.invalid.error_does_not_name_key", SITE + "::load_config",
                                                   "group %d lacks %s, error is %r" % (gi, k, err), cs)
                            if ng > 1:
                                for gi, m in enumerate(combo):
                                    ctx.oracle((("in group %d" % gi) in err) == (m != 0), "C18.invalid.error_group_index", SITE + "::load_config",
                                               "error %r, missing masks %r" % (err, combo), cs)
                    else:
                        ctx.oracle(err is None, "C18.valid.rejected", SITE + "::load_config", "complete configuration rejected: %r" % err, cs)
                    if drv.available:
                        pend.append((drv.ask("table.validate", kind), err, combo, cs))
        if drv.available:
            rep = drv.run()
            for j, err, combo, cs in pend:
                st, t = rep[j]
                model_rejects = t[0] == "rejected"
                ctx.eq("load_config.accepts", err is None, not model_rejects, cs)
                if model_rejects and err and not err.startswith("OTHER"):
                    # model lists (index, missing keys); the message enumerates the same
                    mm = {int(x.split(":")[0]): x.split(":")[1].split(",") for x in t[1:]}
                    parts = err.replace("Missing parameters: ", "").split("\n  and ")
                    got = {}
                    for ptxt in parts:
                        m = re.match(r"(.*?)( in group (\d+))?$", ptxt)
                        got[int(m.group(3)) if m.group(3) else 0] = m.group(1).split(", ")
                    ctx.eq("load_config.missing_keys", got, mm, cs)
        # the table part of the containers is shared with C01 (model correspondence)
        if not getattr(ctx, "widened", False):
            saved = ctx.tier; ctx.tier = "quick"
            try:
                c01.run(ctx)
            finally:
                ctx.tier = saved
    finally:
        shutil.rmtree(tmp, ignore_errors=True)


def replay(payload):
    print("predicate:", payload.get("predicate"), "|", payload.get("detail"))
    return False
