"""C18 — release generation is reproducible, whatever way the config is supplied.

Implementation-side metamorphic checks (YAML, CSV and the command line are not in the Lean model): the
same specification as mapping / list of groups / YAML stream / YAML file / `python -m
ladim_plugins.release` gives identical tables; seeded repeated runs are identical, also when the very same mapping object is passed again; the written file
(tab separated, no header) parses back (Python `float`, what LADiM uses) to exactly the returned
table; missing-key configurations are rejected with an error naming exactly what is missing, whatever else the groups
hold (nothing at all: the empty group; a non-mapping in the place of a group is rejected).  The table of a seeded
specification does not depend on the releases made earlier in the process (families of near-identical specifications:
long outlines and tables revised in the middle, changes behind the eighth decimal, a GeoJSON path with new content),
judged against the command line in a process of its own.  The table depends on the content of the specification only:
a configuration in which one sub-object stands at several places (YAML anchors / aliases / merge keys, a re-used Python
variable) gives the table of the same specification written out with separate equal copies, and the caller's object is
after the call what it was before (passed again, it gives the same table again).
Correspondence: `load_config` validation against the Lean `Table.validate` for every missing-key
combination; container normalisation through the table model (shared with C01)."""
import importlib, importlib.util, io, os, sys, tempfile, shutil, subprocess, itertools, re, copy, datetime, math, json
import numpy as np
from .common import Driver, I, RngRecorder
from . import relgen, c01

RULE = ("YAML-serialisable configurations: 1..4 groups, num in {0,1,2,3,7,40}, all location forms (GeoJSON as the name of a "
        "file), attribute forms const / list / range / gaussian / exponential / piecewise / dotted function name, a "
        "non-ASCII attribute name, with and without `columns` (random non-empty subset of the table's columns, shuffled); "
        "seeds 0, 1, 2^32-1, [1, 2] and random; the grouped, flat and list documents each as mapping, YAML stream, YAML file "
        "(ASCII-escaped and UTF-8), re-used config path; dates also as YAML-native timestamps (datetime / date objects); "
        "output path absent / holding stale content / written twice / an open handle; command line: two-argument form for "
        "grouped and flat documents, console script under the C locale, one-argument (print) form, invalid file; all "
        "2^3-1 missing-key combinations over 1..3 groups in the three containers, each also as a YAML stream, always with "
        "an output path; malformed dates, non-mapping documents and malformed YAML. Seedless containers (numpy's real "
        "global generator seeded by the caller with the configuration's seed, no recorder): for every configuration above "
        "the list of groups, the grouped mapping without `seed` and (one group) the flat mapping without `seed`, each as "
        "object, re-used object and YAML stream or file (alternating), against the seeded mapping; twice (repeatability); "
        "the file written for the list; a script seeding once and making two seedless releases / a seeded then a seedless "
        "one, run twice; main() in a process that seeds first (2 quick / 12 thorough, configurations with random content); "
        "plus a matrix of small 1..2-group configurations whose random content is of exactly one kind (polygon, "
        "multipolygon, offset, GeoJSON file, range / gaussian / exponential / piecewise attribute, implicit and under "
        "`attrs`, depth range) x all three seedless containers x object / stream / file, caller seeds special and random "
        "below 2^32. History of the process (6 quick / 42 thorough families, kinds in shuffled rotation): 2..3 seeded "
        "single-group specifications that are revisions of each other, released one after the other in this process, then "
        "two of them as the groups of one configuration (later member first), then all again in reverse order; kinds: "
        "polygon, multipolygon (the other parts unchanged), metric offset, GeoJSON file (Polygon / MultiPolygon features "
        "with properties; own path per member, or one path whose content is rewritten), piecewise attribute with a long "
        "knots table, vector-valued attribute with num = its length; sizes: large (star-shaped outline of 501..899 "
        "vertices / table of 1001..1399 numbers, a stretch revised that mostly lies away from both ends), mid (30..399), "
        "fine (4..39 vertices / numbers, a random subset moved by 1e-12 .. 4e-9 degrees, 1e-7 .. 4e-4 m for offsets); "
        "with probability 0.4 a revision also has another seed and num; supplied as grouped / flat mapping, grouped / "
        "flat YAML stream or YAML file; each release against `python -m ladim_plugins.release` in a process of its own "
        "and against a pristine import of the module. Attribute names with a meaning at another level of the document "
        "(24 quick / 260 thorough configurations of 1..3 small groups, half of them one group; plus, with probability 0.2 "
        "per group, one such attribute with a constant value in the configurations of the main loop): in 1..all groups "
        "1..3 of the names `seed`, `columns`, `groups` (keys of the top-level mapping) and sometimes a key name of the "
        "distribution / location mappings (distribution, mean, min, max, center, offset, knots), at group level or "
        "under `attrs`, value 0 / integer up to 2^32-1 / float / list of num numbers / range / gaussian / dotted "
        "function name; with and without top-level `columns` (random subset of the position columns, group_id and these "
        "names); supplied as grouped mapping with seed, grouped mapping without seed and list of groups (caller seeds "
        "numpy's real generator), flat mapping with / without seed when no top-level name is used at group level, each "
        "as object, YAML stream and YAML file; list against mapping under one recorded draw stream; the file written "
        "for the list; 3 quick / 16 thorough through the command line in a process of its own (list document, the "
        "process seeding first / grouped document). Error path, what else a group holds (the combinations above always "
        "carry the one attribute `depth`): (a) groups holding nothing but their necessary parameters, down to the "
        "completely empty group {} (all three missing, no other key): all 2^3 combinations over 1..2 groups, over 3 "
        "groups those with an empty group (40% quick / all thorough) and 10% / all of the others, in the containers list, "
        "grouped with seed / without seed / with seed and columns, and (one group) flat likewise (a flat mapping of "
        "global parameters only, the empty mapping), each as object and YAML stream or file (all three when a group is "
        "empty and there are at most 2 groups); (b) 150 quick / 2500 thorough random configurations of 1..4 groups, per "
        "group a missing-key mask (empty and complete over-represented) and other keys from: none / depth / depth: 0 / "
        "attrs: {} / attrs with one attribute / three attributes, random container of the above, object and possibly "
        "YAML stream or file; configurations with an empty group also through `python -m ladim_plugins.release` "
        "(up to 5 quick / 24 thorough); (c) a non-mapping in the place of a group (None = a dangling hyphen in the YAML "
        "list, [], '', 0, False) at every position of 1..3 groups, the other groups random as in (b), list / grouped "
        "with / without seed, object / YAML stream (the None as a bare `-`) / YAML file: rejected (ValueError or "
        "TypeError), no file. Aliasing inside a configuration (2 quick / 8 thorough rounds over 23 kinds in shuffled "
        "order): 1..3 groups of 7 / 40 / 100 particles (point or small polygon) in which ONE sub-object stands at several "
        "places: an attribute specification (exponential without / with `max`, gaussian without / with `min` / `max` / "
        "both, explicit uniform, piecewise, two-number range, list of num values; keys in shuffled order; bounds 0.25 .. "
        "1.5 scale units from the mean) under one name in 2..all groups / under two names of one group / at group level "
        "and under `attrs`; an `attrs` mapping, a `depth` range, the `cdf` / `knots` tables of two piecewise "
        "specifications, a location (point, polygon, multipolygon, the coordinate lists of one ring in a polygon and a "
        "multipolygon, centre+offset mapping, a point that is another group's centre with a shared offset), a date span, a "
        "whole group two or three times, a shallow copy of a group (values shared), a list-valued seed that is also an "
        "attribute's range; 50% of the groups with a later attribute of their own; with / without `columns`. Supplied as "
        "grouped mapping with / without seed, list of groups, (one group) flat mapping with / without seed, each as Python "
        "object with the shared objects, YAML stream and YAML file with anchors / aliases (as yaml.safe_dump writes them), "
        "the shallow copy also as a YAML merge key (`<<: *base`) document; seedless containers with the caller seeding "
        "numpy's real generator; against the same specification written out with separate equal copies; the caller's "
        "object compared (content, key order, cell types) before / after every call; one mapping object (sub-objects "
        "shared / written out / flat) passed three times; one `groups` list object handed over as list, grouped, flat, "
        "seedless grouped, list again; the text written to a handle; 8 quick / 46 thorough documents with anchors / merge "
        "key through `python -m ladim_plugins.release` in a process of its own. Non-trivial: every configuration.")
ASSUMPTIONS = ["yaml.safe_load / pandas.to_csv / the CLI are exercised, not modelled",
               "the one-argument command line prints pandas' default rendering of the table: it is compared for tables of "
               "four columns and at most 50 rows (no truncation, no wrapping), numbers at the display precision of 6 digits"]
SITE = "ladim_plugins/release/makrel.py"
MAIN = "ladim_plugins/release/__main__.py"
SPECIAL_SEEDS = [0, 2**32 - 1, [1, 2], 1]
NUMS = [0, 1, 2, 3, 7, 40]
# attribute names that have a meaning at another level of the document: the keys of the top-level mapping (inside a
# group they are ordinary per-particle attributes: the shipped sedimentation/release.yaml has `seed: 0` in a group) and
# the keys of the nested distribution / location mappings
TOP_LEVEL_NAMES = ["seed", "columns", "groups"]
NESTED_NAMES = ["distribution", "mean", "min", "max", "center", "offset", "knots"]


def plain_config(rng, tmp=None, tag="", all_zero=False):
    """groups that survive a YAML round trip; a GeoJSON location is given as the name of a file in `tmp`"""
    ng = rng.randrange(1, 5)
    groups = []
    files = {}
    for g in range(ng):
        form, conf = relgen.gen_group(rng, g, yamlable=True, force_num=0 if all_zero else rng.choice(NUMS))
        while form == "geojson" and tmp is None:
            form, conf = relgen.gen_group(rng, g, yamlable=True, force_num=conf["num"])
        if form == "geojson":
            path = os.path.join(tmp, "area_%s_%d.geojson" % (tag, g))
            with open(path, "w", encoding="utf-8") as f:
                f.write(conf["location"])
            files[path] = conf["location"]
            conf["location"] = path
        # YAML-able forms the shared generator leaves out: a function given by its dotted name, a non-ASCII name
        if rng.random() < 0.15:
            conf["seq"] = "numpy.arange"
        if rng.random() < 0.25:
            conf["størrelse"] = rng.choice([3, 2.5])
        # an attribute whose name has a meaning at another level of the document (see attr_name_checks).  Every
        # container of the main loop must be able to hold the specification: a name of the top level is put at group
        # level only when there are several groups (a flat mapping cannot hold it), otherwise under `attrs`
        if rng.random() < 0.2:
            nm = rng.choice(TOP_LEVEL_NAMES + NESTED_NAMES)
            val = rng.choice([0, 3, 2.5])
            if nm in NESTED_NAMES or (ng > 1 and rng.random() < 0.6):
                conf[nm] = val
            else:
                conf.setdefault("attrs", {})[nm] = val
        groups.append(conf)
    return groups, files


def tables_equal(a, b):
    if list(a.keys()) != list(b.keys()):
        return False, "headers differ: %r vs %r" % (list(a.keys()), list(b.keys()))
    for k in a:
        if len(a[k]) != len(b[k]):
            return False, "column %s lengths differ" % k
        for x, y in zip(a[k], b[k]):
            same = (x == y) or (isinstance(x, float) and isinstance(y, float) and x != x and y != y)
            if not same:
                return False, "column %s: %r vs %r" % (k, x, y)
    return True, ""


def types_equal(a, b):
    """identical tables hold cells of the same type (1, 1.0 and True are equal but not identical)"""
    for k in a:
        if k not in b or len(a[k]) != len(b[k]):
            continue            # reported by tables_equal
        for x, y in zip(a[k], b[k]):
            if type(x) is not type(y):
                return False, "column %s: %r is %s, %r is %s" % (k, x, type(x).__name__, y, type(y).__name__)
    return True, ""


def nrows_of(t):
    return len(next(iter(t.values()))) if t else 0


def native_dates(rng, conf):
    """the same configuration with the date strings as the objects an unquoted YAML timestamp loads to"""
    out = copy.deepcopy(conf)
    changed = [False]

    def one(s):
        if not isinstance(s, str):
            return s
        try:
            d = datetime.datetime.fromisoformat(s)
        except ValueError:
            return s
        changed[0] = True
        if d.time() == datetime.time(0) and (len(s) <= 10 or rng.random() < 0.5):
            return d.date()
        return d
    for g in out["groups"]:
        g["date"] = [one(s) for s in g["date"]] if isinstance(g["date"], list) else one(g["date"])
    return out if changed[0] else None


def caller_seeded(seed, fn):
    """fn() with numpy's *real* global generator seeded by the caller (what a script does for a configuration that
    has no `seed` key: a list of groups has no place for one).  The recorder of common.py serves draws from a private
    stream and ignores `seed(None)`, so it cannot see what happens to the real generator.  The state found is put back."""
    st = np.random.get_state()
    try:
        np.random.seed(seed)
        return fn()
    finally:
        np.random.set_state(st)


def seedless_forms(groups, cols):
    """the specification without a top-level `seed`: (name, factory of a fresh object, keeps `columns`)"""
    out = [("list", lambda: copy.deepcopy(groups), False)]

    def grouped():
        d = {}
        if cols is not None:
            d["columns"] = list(cols)
        d["groups"] = copy.deepcopy(groups)
        return d
    out.append(("grouped", grouped, True))
    if len(groups) == 1:
        def flat():
            d = copy.deepcopy(groups[0])
            if cols is not None:
                d["columns"] = list(cols)
            return d
        out.append(("flat", flat, True))
    return out


def seedless_checks(ctx, mk, yaml, tmp, groups, cols, seed, ref, cs, unicode_yaml=False, vias=("object", "yaml_stream", "yaml_file")):
    """The same specification in the containers that carry no seed, the caller seeding numpy's global generator:
    equal to the seeded mapping (`ref`), repeatable, also as the 2nd release of a script.  Returns True when the
    specification has random content (another caller seed gives another table)."""
    site = SITE + "::make_release"
    ref_nc = ref if cols is None else mk.make_release(dict(seed=copy.deepcopy(seed), groups=copy.deepcopy(groups)))
    first = {}
    for name, make, keeps_cols in seedless_forms(groups, cols):
        want = ref if keeps_cols else ref_nc
        ytext = yaml.safe_dump(make(), sort_keys=False, allow_unicode=unicode_yaml)
        for via in vias:
            if via == "object":
                supply = make
            elif via == "yaml_stream":
                supply = lambda: io.StringIO(ytext)
            else:
                yfn = os.path.join(tmp, "seedless_%s.yaml" % name)
                with open(yfn, "w", encoding="utf8") as f:
                    f.write(ytext)
                supply = lambda: yfn
            scs = dict(cs, seedless_container=name, via=via, caller_seed=seed, supplied=ytext)
            got = caller_seeded(seed, lambda: mk.make_release(supply()))
            ok, msg = tables_equal(want, got)
            ctx.oracle(ok, "C18.seedless.%s.%s_differs" % (name, via), site,
                       "np.random.seed(%r); make_release(<%s without seed, %s>) differs from make_release(dict(seed=%r, ...)): %s"
                       % (seed, name, via, seed, msg), scs)
            again = caller_seeded(seed, lambda: mk.make_release(supply()))
            ok, msg = tables_equal(got, again)
            ctx.oracle(ok, "C18.seedless.not_reproducible", site,
                       "np.random.seed(%r); make_release(<%s without seed, %s>) twice gives different tables: %s" % (seed, name, via, msg), scs)
            ctx.branch("seedless.%s.%s" % (name, via))
            first.setdefault(name, got)
        # the same object supplied again (caller seeds before each call)
        obj = make()
        for k in range(2):
            r_ = caller_seeded(seed, lambda: mk.make_release(obj))
            ok, msg = tables_equal(want, r_)
            ctx.oracle(ok, "C18.seedless.same_object_differs", site,
                       "call %d with the same seedless %s object, np.random.seed(%r) before each call: %s" % (k + 1, name, seed, msg),
                       dict(cs, seedless_container=name, caller_seed=seed))
    # the written file of a seedless container against the text the seeded mapping writes
    h_ref = io.StringIO(); mk.make_release(dict(seed=copy.deepcopy(seed), groups=copy.deepcopy(groups)), h_ref)
    p_out = os.path.join(tmp, "seedless_out.rls")
    if os.path.exists(p_out):
        os.remove(p_out)
    caller_seeded(seed, lambda: mk.make_release(copy.deepcopy(groups), p_out))
    got_text = None
    if os.path.exists(p_out):
        with open(p_out, encoding="utf8") as f:
            got_text = f.read()
    ctx.oracle(got_text == h_ref.getvalue().replace("\r\n", "\n"), "C18.seedless.file_differs", site,
               "np.random.seed(%r); make_release(<list of groups>, path) writes another file than make_release(dict(seed=%r, groups=...), handle)" % (seed, seed),
               dict(cs, seedless_container="list", caller_seed=seed))
    # a script that seeds once and makes releases one after the other: the whole run is repeatable, whether the
    # earlier release was seedless too or carried its own seed (the later one continues the generator's stream)
    def script_two():
        return [mk.make_release(copy.deepcopy(groups)), mk.make_release(copy.deepcopy(groups))]

    def script_after_seeded():
        mk.make_release(dict(seed=copy.deepcopy(seed), groups=copy.deepcopy(groups)))
        return [mk.make_release(dict(groups=copy.deepcopy(groups)))]
    for tag, script, s0 in (("two_seedless", script_two, seed), ("after_seeded", script_after_seeded, 12345)):
        r1 = caller_seeded(s0, script); r2 = caller_seeded(s0, script)
        for k, (x, y) in enumerate(zip(r1, r2)):
            ok, msg = tables_equal(x, y)
            ctx.oracle(ok, "C18.seedless.sequence_not_reproducible", site,
                       "script %s (np.random.seed(%r) once at its start) run twice: seedless release %d differs: %s" % (tag, s0, k + 1, msg),
                       dict(cs, script=tag, caller_seed=s0))
        ctx.branch("seedless.sequence." + tag)
    other = 7 if seed != 7 else 8
    alt = caller_seeded(other, lambda: mk.make_release(copy.deepcopy(groups)))
    random_content = not tables_equal(first["list"], alt)[0]
    ctx.branch("seedless.random_content" if random_content else "seedless.deterministic_content")
    return random_content


RANDOM_KINDS = ["loc.poly", "loc.multi", "loc.offset", "loc.geojson", "attr.range", "attr.gauss", "attr.exp", "attr.piece",
                "attrs.gauss", "depth.range"]


def random_kind_group(rng, kind, g, tmp, tag):
    """a small group whose only random content is of the given kind"""
    num = rng.choice([1, 3, 7])
    date = rng.choice(["2015-04-01 00:00:00", ["2015-04-01T00:00:00", "2015-04-02T06:00:00"]])
    conf = dict(num=num, date=date, location=[round(rng.uniform(-20, 30), 4), round(rng.uniform(50, 75), 4)], group_id=g + 1)
    if kind.startswith("loc."):
        want = kind[4:]
        while True:
            form, loc = relgen.gen_location(rng, True)
            if form == want:
                break
        if form == "geojson":
            path = os.path.join(tmp, "kind_%s_%d.geojson" % (tag, g))
            with open(path, "w", encoding="utf-8") as f:
                f.write(loc)
            loc = path
        conf["location"] = loc
    elif kind == "attr.range":
        conf["age"] = [1.0, 3.0]
    elif kind == "depth.range":
        conf["depth"] = [0, 10]
    elif kind == "attr.gauss":
        conf["weight"] = dict(distribution="gaussian", mean=5.0, std=1.0)
    elif kind == "attrs.gauss":
        conf["attrs"] = dict(weight=dict(distribution="gaussian", mean=40.0, std=10.0))
    elif kind == "attr.exp":
        conf["length"] = dict(distribution="exponential", mean=10.0)
    elif kind == "attr.piece":
        conf["q"] = dict(distribution="piecewise", knots=[0.0, 5.0, 20.0], cdf=[0.0, 0.3, 1.0])
    return conf


# ---- the history of the process: a seeded specification gives the same table in a process that has already made other
# releases (a script looping over areas, several groups in one configuration, a long-running service) as in a process of
# its own (`python -m ladim_plugins.release`).  The earlier releases are *near* the later ones: revised versions of one
# detailed outline, outlines that differ only far behind the decimal point, the same GeoJSON path with new content.
HISTORY_KINDS = ["loc.poly", "loc.multi", "loc.offset", "loc.geojson", "loc.geojson_same_path", "attr.piece_long", "attr.vector_long"]
HISTORY_SIZES = ["large", "fine", "large", "mid"]


def star_outline(rng, n, r):
    """a simple polygon around the origin as (angles, radii): star-shaped (strictly increasing angles with gaps below
    pi, positive radii), so every choice of positive radii is again a simple polygon"""
    th = [2 * math.pi * (i + rng.uniform(-0.4, 0.4)) / n for i in range(n)]
    rad = [r * rng.uniform(0.3, 1.0) for _ in range(n)]
    return th, rad


def outline_xy(th, rad, cx, cy, rev):
    xs = [cx + a * math.cos(t) for a, t in zip(rad, th)]
    ys = [cy + a * math.sin(t) for a, t in zip(rad, th)]
    return (xs[::-1], ys[::-1]) if rev else (xs, ys)


def pick_arc(rng, n):
    """positions [i, j) of a sequence of length n: mostly a stretch away from both ends (a revision somewhere along a
    long outline / table), otherwise any stretch"""
    if n > 8 and rng.random() < 0.7:
        i = rng.randrange(3, n - 4)
        j = rng.randrange(i + 1, n - 2)
    else:
        i = rng.randrange(0, n)
        j = rng.randrange(i + 1, n + 1)
    return i, j


def nudge(rng, xs, scale):
    """the same numbers, a random non-empty subset of them moved by 1e-4 .. 0.4 times `scale` (scale 1e-8: changes
    behind the eighth decimal)"""
    out = list(xs)
    idx = [k for k in range(len(out)) if rng.random() < 0.5] or [rng.randrange(len(out))]
    for k in idx:
        out[k] = out[k] + rng.choice([-1, 1]) * rng.uniform(1e-4, 0.4) * scale
    assert out != list(xs)
    return out


def ring_of(xs, ys):
    return [[x, y] for x, y in zip(xs, ys)] + [[xs[0], ys[0]]]


def history_family(rng, kind, size, tmp, tag):
    """2..3 single-group specifications of one kind that are revisions of each other.  Returns a list of members
    dict(group=<group for this process>, cli_group=<the same group for a process of its own>, files={path: text})."""
    # large: more than 1000 numbers in one outline (500 vertices) / in one table
    n = rng.randrange(501, 900) if size == "large" else rng.randrange(30, 400) if size == "mid" else rng.randrange(4, 40)
    if size == "large" and kind.startswith("attr."):
        n = rng.randrange(1001, 1400)
    nmem = rng.randrange(2, 4)
    num = rng.choice([1, 3, 7, 40, 300])
    date = rng.choice(["2000-01-01 12:00:00", ["2015-04-01T00:00:00", "2015-04-02T06:00:00"]])
    common = dict(num=num, date=date, group_id=1)
    if rng.random() < 0.3:
        common["depth"] = [0, 10]
    members = []
    if kind.startswith("loc."):
        metric = kind == "loc.offset"
        cx, cy = (0.0, 0.0) if metric else (round(rng.uniform(-20, 30), 3), round(rng.uniform(50, 75), 3))
        r = rng.uniform(50.0, 2000.0) if metric else rng.uniform(0.05, 0.5)
        centre = [round(rng.uniform(-20, 30), 3), round(rng.uniform(50, 75), 3)]
        th, rad = star_outline(rng, n, r)
        rev = rng.random() < 0.5
        outlines = [outline_xy(th, rad, cx, cy, rev)]
        for v in range(1, nmem):
            if size == "fine":
                # 1e-8 degrees; 1e-3 m is 1e-8 degrees of latitude
                sc = 1e-3 if metric else 1e-8
                xs, ys = outlines[0]
                both = nudge(rng, xs + ys, sc)
                outlines.append((both[:len(xs)], both[len(xs):]))
            else:
                i, j = pick_arc(rng, n)
                rad2 = list(rad)
                f = rng.uniform(0.2, 0.9)
                for k in range(i, j):
                    rad2[k] = rad[k] * (f if rng.random() < 0.7 else rng.uniform(0.2, 0.9))
                outlines.append(outline_xy(th, rad2, cx, cy, rev))
        # the other parts of a multipolygon / feature collection stay as they are
        others = []
        if kind in ("loc.multi", "loc.geojson", "loc.geojson_same_path"):
            for q in range(rng.randrange(1, 3) if kind == "loc.multi" else rng.randrange(0, 3)):
                th_o, rad_o = star_outline(rng, rng.randrange(3, 12), 0.3)
                others.append(outline_xy(th_o, rad_o, cx + 2.0 * (q + 1), cy, False))
        at = rng.randrange(len(others) + 1)
        for v, (xs, ys) in enumerate(outlines):
            g = dict(common)
            files = {}
            gc = None
            if kind == "loc.poly":
                g["location"] = [xs, ys]
            elif kind == "loc.multi":
                ps = others[:at] + [(xs, ys)] + others[at:]
                g["location"] = [[p[0] for p in ps], [p[1] for p in ps]]
            elif kind == "loc.offset":
                g["location"] = dict(center=centre, offset=[xs, ys])
            else:
                ps = others[:at] + [(xs, ys)] + others[at:]
                feats = []
                for fi, p in enumerate(ps):
                    geometry = (dict(type="Polygon", coordinates=[ring_of(*p)]) if (fi + n) % 2 else
                                dict(type="MultiPolygon", coordinates=[[ring_of(*p)]]))
                    feats.append(dict(type="Feature", properties=dict(region=fi + 1, name="area %d" % fi), geometry=geometry))
                text = json.dumps(dict(type="FeatureCollection", features=feats))
                own = os.path.join(tmp, "hist_%s_%d.geojson" % (tag, v))
                path = os.path.join(tmp, "hist_%s.geojson" % tag) if kind == "loc.geojson_same_path" else own
                g["location"] = path
                files = {path: text, own: text}
                gc = dict(g, location=own)
            members.append(dict(group=g, cli_group=gc or g, files=files))
        return members
    # attributes whose specification is a long table of numbers
    if kind == "attr.piece_long":
        n = max(n, 3)
        knots = [0.0]
        for k in range(n - 1):
            knots.append(knots[-1] + rng.uniform(1.0, 2.0))
        cdf = [k / (n - 1) for k in range(n)]
        tables = [knots]
    else:
        common["num"] = n
        tables = [[round(rng.uniform(0.0, 100.0), 3) for _ in range(n)]]
    for v in range(1, nmem):
        if size == "fine":
            tables.append(nudge(rng, tables[0], 1e-8))
        else:
            i, j = pick_arc(rng, n)
            t2 = list(tables[0])
            for k in range(i, j):
                t2[k] = t2[k] + rng.uniform(0.1, 0.9)       # (knots stay increasing: the steps are at least 1)
            tables.append(t2)
    loc = [round(rng.uniform(-20, 30), 4), round(rng.uniform(50, 75), 4)]
    if rng.random() < 0.5:
        th_o, rad_o = star_outline(rng, rng.randrange(3, 12), 0.3)
        loc = list(outline_xy(th_o, rad_o, loc[0], loc[1], False))
    for t in tables:
        g = dict(common, location=loc)
        if kind == "attr.piece_long":
            g["q"] = dict(distribution="piecewise", knots=t, cdf=cdf)
        else:
            g["age"] = t
        members.append(dict(group=g, cli_group=g, files={}))
    return members


def fresh_import(mk):
    """the module as a process of its own would find it: a second, pristine import of its source (module-level state
    of the first import is not shared)"""
    name = mk.__name__.rsplit(".", 1)[0] + "._verif_pristine_makrel"
    spec = importlib.util.spec_from_file_location(name, mk.__file__)
    mod = importlib.util.module_from_spec(spec)
    sys.modules[name] = mod
    try:
        spec.loader.exec_module(mod)
    finally:
        sys.modules.pop(name, None)
    return mod


def history_checks(ctx, mk, yaml, tmp):
    """Families of near-identical specifications released one after the other in this process; every release is
    compared with the file a process of its own writes for the same specification (command line), with a pristine
    import of the module, and with itself when released again at the end."""
    site = SITE + "::make_release"
    hcli = Cli(limit=6)
    kinds = list(HISTORY_KINDS)
    ctx.rng.shuffle(kinds)
    later = []
    try:
        for f in range(ctx.n(6, 42)):
            kind = kinds[f % len(kinds)]
            size = HISTORY_SIZES[f % len(HISTORY_SIZES)] if f < 2 * len(kinds) else ctx.rng.choice(["large", "mid", "fine"])
            tag = "%d" % f
            members = history_family(ctx.rng, kind, size, tmp, tag)
            seed0 = ctx.rng.choice(SPECIAL_SEEDS) if ctx.rng.random() < 0.3 else ctx.rng.randrange(2**32)
            specs = []        # (label, mapping for this process, mapping for a process of its own, files)
            for v, m in enumerate(members):
                seed = seed0
                g, gc = dict(m["group"]), dict(m["cli_group"])
                if v > 0 and ctx.rng.random() < 0.4:
                    # the revision is released with another seed / number of particles as well
                    seed = ctx.rng.randrange(2**32)
                    if kind != "attr.vector_long":
                        g["num"] = gc["num"] = ctx.rng.choice([1, 3, 7, 40, 300])
                specs.append(("member%d" % v, dict(seed=seed, groups=[g]), dict(seed=seed, groups=[gc]), m["files"]))
            # ... and two of them as the groups of one configuration, the later one first
            # (not for the re-used GeoJSON path: it cannot hold two contents at a time)
            if kind != "loc.geojson_same_path":
                a, b = members[-1], members[0]
                both_files = dict(a["files"]); both_files.update(b["files"])
                specs.append(("two_groups", dict(seed=seed0, groups=[dict(a["group"], group_id=1), dict(b["group"], group_id=2)]),
                              dict(seed=seed0, groups=[dict(a["cli_group"], group_id=1), dict(b["cli_group"], group_id=2)]), both_files))
            history = []
            done = []
            for label, conf, conf_cli, files in specs:
                put_files(hcli, files)
                single = len(conf["groups"]) == 1
                via = ctx.rng.choice(["grouped", "flat", "yaml_stream", "yaml_file", "flat_yaml_stream"] if single
                                     else ["grouped", "yaml_stream", "yaml_file"])
                flat = dict(copy.deepcopy(conf["groups"][0]), seed=copy.deepcopy(conf["seed"])) if single else None
                if via == "grouped":
                    supplied = copy.deepcopy(conf)
                elif via == "flat":
                    supplied = flat
                elif via == "flat_yaml_stream":
                    supplied = io.StringIO(yaml.safe_dump(flat, sort_keys=False))
                elif via == "yaml_stream":
                    supplied = io.StringIO(yaml.safe_dump(conf, sort_keys=False))
                else:
                    supplied = os.path.join(tmp, "hist_conf.yaml")
                    with open(supplied, "w", encoding="utf8") as fh:
                        fh.write(yaml.safe_dump(conf, sort_keys=False))
                cs = dict(config=conf, supplied_as=via, kind=kind, size=size, member=label,
                          released_before_in_this_process=list(history))
                if any(isinstance(g_["location"], str) for g_ in conf["groups"]):
                    cs["geojson_files"] = {g_["location"]: files[g_["location"]] for g_ in conf["groups"] if isinstance(g_["location"], str)}
                ctx.case(key=("history", f, label, repr(conf)), nontrivial=True)
                ctx.branch("history"); ctx.branch("history.kind." + kind); ctx.branch("history.size." + size)
                ctx.branch("history.via." + via); ctx.branch("history." + ("two_groups" if not single else "one_group"))
                p_out = os.path.join(tmp, "hist_out.rls")
                if os.path.exists(p_out):
                    os.remove(p_out)
                tab = mk.make_release(supplied, p_out)
                with open(p_out, encoding="utf8") as fh:
                    text_here = fh.read()
                # the file is the table (the round trip of the main loop, here for the long outlines too)
                hdr = list(tab.keys())
                lines = [l.split("\t") for l in text_here.split("\n") if l != ""]
                ok = len(lines) == nrows_of(tab) and all(len(l) == len(hdr) for l in lines)
                if ok:
                    for j, k in enumerate(hdr):
                        for r_, l in enumerate(lines):
                            v_ = tab[k][r_]
                            if isinstance(v_, str):
                                ok = ok and l[j] == v_
                            else:
                                try:
                                    ok = ok and float(l[j]) == float(v_)
                                except ValueError:
                                    ok = False
                ctx.oracle(ok, "C18.file.round_trip", site, "the file written for a %s release (%s) does not parse back to the returned table" % (kind, label), cs)
                # a process of its own: the command line on the YAML file of the same specification
                p_in = os.path.join(tmp, "hist_cli_%s_%s.yaml" % (tag, label)); p_cli = os.path.join(tmp, "hist_cli_%s_%s.rls" % (tag, label))
                with open(p_in, "w", encoding="utf8") as fh:
                    fh.write(yaml.safe_dump(conf_cli, sort_keys=False))

                def then(rc, out, err, p_cli=p_cli, text_here=text_here, cs=cs, label=label, nhist=len(history)):
                    got = None
                    if os.path.exists(p_cli):
                        with open(p_cli, encoding="utf8") as fh:
                            got = fh.read()
                    detail = ""
                    if got is not None and got != text_here:
                        la, lb = text_here.split("\n"), got.split("\n")
                        d = [i for i in range(min(len(la), len(lb))) if la[i] != lb[i]]
                        detail = "; %d / %d lines, first differing line %d: here %r, command line %r" % (
                            len(la), len(lb), d[0] if d else -1, la[d[0]] if d else "", lb[d[0]] if d else "")
                    ctx.oracle(rc == 0 and got == text_here, "C18.history.cli_differs", MAIN,
                               "the seeded specification (%s), released in this process after %d near-identical releases, writes another "
                               "file than `python -m ladim_plugins.release` writes for it in a process of its own (rc=%d %s)%s"
                               % (label, nhist, rc, err[-200:], detail), cs)
                hcli.launch([sys.executable, "-m", "ladim_plugins.release", p_in, p_cli], then)
                ctx.branch("history.cli")
                done.append((label, conf, files, tab, cs))
                history.append(conf)
            # released again, the last one first (every specification now has all the others behind it)
            for label, conf, files, tab, cs in reversed(done):
                put_files(hcli, files)
                again = mk.make_release(copy.deepcopy(conf))
                ok, msg = tables_equal(tab, again)
                ctx.oracle(ok, "C18.history.not_reproducible", site,
                           "the seeded specification (%s) released again after the other members of its family gives another table: %s" % (label, msg), cs)
                later.append((label, conf, files, tab, cs))
        hcli.drain()
        # a pristine import of the module (no release made with it yet) gives the table this process gave
        for label, conf, files, tab, cs in later:
            put_files(hcli, files)
            pristine = fresh_import(mk).make_release(copy.deepcopy(conf))
            ok, msg = tables_equal(pristine, tab)
            ctx.oracle(ok, "C18.history.pristine_import_differs", site,
                       "the seeded specification (%s) gives another table in this process (near-identical releases made before) than "
                       "with a pristine import of the module: %s" % (label, msg), cs)
            ctx.branch("history.pristine_import")
    finally:
        for p, _ in hcli.pending:
            try:
                p.kill()
            except Exception:
                pass


def put_files(hcli, files):
    """(re)write the auxiliary files of a specification.  Command-line children started earlier may not have read
    their input yet: a file whose content changes is only replaced after they have finished (`drain`), and always
    atomically (temp file + os.replace), so that no reader ever sees a truncated or half-written file."""
    changed = []
    for path, text in files.items():
        try:
            with open(path, encoding="utf-8") as fh:
                same = fh.read() == text
        except OSError:
            same = False
        if not same:
            changed.append((path, text))
    if changed and hcli is not None:
        hcli.drain()
    for path, text in changed:
        tmp = path + ".tmp%d" % os.getpid()
        with open(tmp, "w", encoding="utf-8") as fh:
            fh.write(text)
        os.replace(tmp, path)


class Cli:
    """command-line runs are started in the background (process start-up is slow) and judged later"""

    def __init__(self, limit=4):
        self.pending = []
        self.limit = limit

    def launch(self, args, then, env=None, cwd=None):
        p = subprocess.Popen(args, stdout=subprocess.PIPE, stderr=subprocess.PIPE, env=env, cwd=cwd)
        self.pending.append((p, then))
        while len(self.pending) > self.limit:
            self._finish(self.pending.pop(0))

    def _finish(self, item):
        p, then = item
        out, err = p.communicate()
        then(p.returncode, out.decode("utf-8", "replace"), err.decode("utf-8", "replace"))

    def drain(self):
        while self.pending:
            self._finish(self.pending.pop(0))


# ---- attribute names with a meaning at another level of the document.  Inside a group (of a list of groups or of the
# `groups` of a mapping) `seed`, `columns` and `groups` are ordinary attributes; so are, anywhere, the key names of the
# nested distribution / location mappings.  The specification is the same whatever container holds it.
def named_value(rng, num):
    """a value for an attribute of a group of `num` particles and what the column must hold for that group:
    ("values", multiset) / ("between", lo, hi) / ("numbers",)"""
    form = rng.choice(["zero", "int", "float", "list", "range", "gauss", "fn"])
    if form == "list" and num == 2:
        form = "int"            # (a list of two numbers is a range unless num = 2; kept apart)
    if form == "zero":
        return form, 0, ("values", [0.0] * num)
    if form == "int":
        v = rng.choice([1, 7, 12345, 2**31 - 1, 2**32 - 1, rng.randrange(2**32)])
        return form, v, ("values", [float(v)] * num)
    if form == "float":
        v = round(rng.uniform(-50.0, 50.0), 3)
        return form, v, ("values", [v] * num)
    if form == "list":
        v = [rng.randrange(100) for _ in range(num)]
        return form, v, ("values", [float(x) for x in v])
    if form == "range":
        a = round(rng.uniform(0.0, 10.0), 2)
        b = a + rng.randrange(1, 10)
        if num == 2:
            return form, [a, b], ("values", [a, b])     # (num = 2: the two numbers are the values)
        return form, [a, b], ("between", a, b)
    if form == "gauss":
        return form, dict(distribution="gaussian", mean=5.0, std=1.0), ("numbers",)
    return form, "numpy.arange", ("values", [float(i) for i in range(num)])


def attempt(fn):
    try:
        return fn(), None
    except Exception as e:
        return None, repr(e)


def judge_named_columns(ctx, table, groups, expects, site, what, cs):
    """The table holds, for every attribute a group defines under one of the names above, a column of that name whose
    cells of that group's particles are the specified values (independent of the implementation: the values are
    read off the specification; rows are told apart by the constant attribute `group_id` of each group)."""
    hdr = list(table.keys())
    selected = cs["config"].get("columns") if isinstance(cs.get("config"), dict) else None
    for g, exp_g in expects.items():
        for name, exp in exp_g.items():
            if selected is not None and name not in selected:
                continue
            if not ctx.oracle(name in hdr, "C18.attr_name.column_wrong", site,
                              "%s: group %d defines the attribute %r, the table has no such column (header %r)" % (what, g, name, hdr), cs):
                continue
            if "group_id" in hdr:
                rows = [r for r in range(nrows_of(table)) if float(table["group_id"][r]) == float(groups[g]["group_id"])]
            elif len(groups) == 1:
                rows = list(range(nrows_of(table)))
            else:
                continue
            try:
                vals = sorted(float(table[name][r]) for r in rows)
            except (TypeError, ValueError):
                vals = None
            num = groups[g]["num"]
            if vals is None or len(vals) != num:
                good = False
            elif exp[0] == "values":
                good = vals == sorted(exp[1])
            elif exp[0] == "between":
                # numpy: low + (high - low) * u with u in [0, 1); 1e-9 covers the rounding of the two operations
                good = all(exp[1] - 1e-9 <= v <= exp[2] + 1e-9 for v in vals)
            else:
                good = all(math.isfinite(v) for v in vals)
            ctx.oracle(good, "C18.attr_name.column_wrong", site,
                       "%s: attribute %r of group %d (%d particles, specified %r): column cells of that group %r"
                       % (what, name, g, num, groups[g].get(name, groups[g].get("attrs", {}).get(name)),
                          None if vals is None else vals[:8]), cs)


def attr_name_checks(ctx, mk, yaml, tmp, cli):
    site = SITE + "::load_config"
    n_cli = 0
    for c in range(ctx.n(24, 260)):
        ng = ctx.rng.choice([1, 1, 1, 2, 2, 3])
        groups = []
        for g in range(ng):
            kind = ctx.rng.choice(RANDOM_KINDS) if (g == 0 and ctx.rng.random() < 0.7) else ctx.rng.choice(["none"] + RANDOM_KINDS)
            groups.append(random_kind_group(ctx.rng, kind, g, tmp, "an%d" % c))
        expects = {}
        carriers = [g for g in range(ng) if ctx.rng.random() < 0.6] or [ctx.rng.randrange(ng)]
        implicit_top0 = False
        for g in carriers:
            names = ctx.rng.sample(TOP_LEVEL_NAMES, ctx.rng.choice([1, 1, 2, 3]))
            if ctx.rng.random() < 0.3:
                names.append(ctx.rng.choice(NESTED_NAMES))
            for nm in names:
                form, val, exp = named_value(ctx.rng, groups[g]["num"])
                where = "attrs" if ctx.rng.random() < 0.3 else "group"
                if where == "attrs":
                    groups[g].setdefault("attrs", {})[nm] = val
                else:
                    groups[g][nm] = val
                    if g == 0 and nm in TOP_LEVEL_NAMES:
                        implicit_top0 = True
                expects.setdefault(g, {})[nm] = exp
                ctx.branch("attr_name.%s.%s" % (nm if nm in TOP_LEVEL_NAMES else "nested_key", where))
                ctx.branch("attr_name.value." + form)
        # a flat mapping holds the specification when no top-level name is used at group level
        flat_ok = ng == 1 and not implicit_top0
        seed = ctx.rng.choice(SPECIAL_SEEDS) if ctx.rng.random() < 0.3 else ctx.rng.randrange(2**32)
        cols = None
        if ctx.rng.random() < 0.4:
            # (every name is a column of the table: defined by at least one group)
            pool = ["date", "longitude", "latitude", "depth", "group_id"] + sorted(set(n for e in expects.values() for n in e))
            cols = ctx.rng.sample(pool, ctx.rng.randrange(1, len(pool) + 1))

        def mapping(with_seed, with_cols=True, flat=False):
            d = {}
            if with_seed:
                d["seed"] = copy.deepcopy(seed)
            if with_cols and cols is not None:
                d["columns"] = list(cols)
            if flat:
                d.update(copy.deepcopy(groups[0]))
            else:
                d["groups"] = copy.deepcopy(groups)
            return d
        conf = mapping(True)
        cs = dict(config=conf)
        gj = {}
        for g_ in groups:
            if isinstance(g_["location"], str):
                with open(g_["location"], encoding="utf-8") as f:
                    gj[g_["location"]] = f.read()
        if gj:
            cs["geojson_files"] = gj
        ctx.case(key=("attr_name", repr(conf)), nontrivial=True)
        ctx.branch("attr_name"); ctx.branch("attr_name.ngroups.%d" % ng)
        ctx.branch("attr_name.columns" if cols is not None else "attr_name.default_columns")
        ref, err = attempt(lambda: mk.make_release(mapping(True)))
        ctx.oracle(err is None, "C18.attr_name.valid_rejected", site,
                   "the grouped mapping with a seed is rejected (%s): a group may define an attribute of any name" % err, cs)
        ref_nc, err_nc = (ref, err) if cols is None else attempt(lambda: mk.make_release(mapping(True, with_cols=False)))
        if cols is not None:
            ctx.oracle(err_nc is None, "C18.attr_name.valid_rejected", site,
                       "the grouped mapping with a seed, without `columns`, is rejected (%s)" % err_nc, cs)
        if ref is None or ref_nc is None:
            continue
        judge_named_columns(ctx, ref, groups, expects, site, "grouped mapping with seed", cs)
        # (name, factory of a fresh object, carries the seed, keeps `columns`)
        forms = [("grouped", lambda: mapping(True), True, True),
                 ("grouped_seedless", lambda: mapping(False), False, True),
                 ("list", lambda: copy.deepcopy(groups), False, False)]
        if flat_ok:
            forms += [("flat", lambda: mapping(True, flat=True), True, True),
                      ("flat_seedless", lambda: mapping(False, flat=True), False, True)]
            ctx.branch("attr_name.flat")
        unicode_yaml = bool(c % 2)
        for name, make, seeded, keeps_cols in forms:
            want = ref if keeps_cols else ref_nc
            ytext = yaml.safe_dump(make(), sort_keys=False, allow_unicode=unicode_yaml)
            for via in ("object", "yaml_stream", "yaml_file"):
                if via == "object":
                    supply = make
                elif via == "yaml_stream":
                    supply = lambda: io.StringIO(ytext)
                else:
                    yfn = os.path.join(tmp, "attr_name_%s.yaml" % name)
                    with open(yfn, "w", encoding="utf8") as f:
                        f.write(ytext)
                    supply = lambda: yfn
                # a container that carries the seed does not depend on the generator's state (put to some other
                # state here); for one that does not, the caller seeds (as in seedless_checks)
                s0 = 424242 if seeded else seed
                what = "np.random.seed(%r); make_release(<%s, %s>)" % (s0, name, via)
                scs = dict(cs, container=name, via=via, caller_seed=s0, supplied=ytext)
                got, err = attempt(lambda: caller_seeded(s0, lambda: mk.make_release(supply())))
                ctx.branch("attr_name.%s.%s" % (name, via))
                if not ctx.oracle(err is None, "C18.attr_name.valid_rejected", site,
                                  "%s is rejected (%s), the grouped mapping with seed %r gives a table" % (what, err, seed), scs):
                    continue
                ok, msg = tables_equal(want, got)
                ctx.oracle(ok, "C18.attr_name.%s.%s_differs" % (name, via), site,
                           "%s differs from make_release(dict(seed=%r, %sgroups=...)): %s"
                           % (what, seed, "columns=..., " if (keeps_cols and cols is not None) else "", msg), scs)
                if ok:
                    ok, msg = types_equal(want, got)
                    ctx.oracle(ok, "C18.container.cell_type_differs", site, "%s: %s" % (what, msg), scs)
                judge_named_columns(ctx, got, groups, expects, site, what,
                                    scs if keeps_cols else dict(scs, config={k: v for k, v in conf.items() if k != "columns"}))
        # list of groups against the mapping under one recorded draw stream (as in the main loop)
        s2 = ctx.sub_seed()

        def recorded(make):
            def go():
                with RngRecorder(s2):
                    return mk.make_release(make())
            return attempt(go)
        a, ea = recorded(lambda: copy.deepcopy(groups))
        b, eb = recorded(lambda: dict(groups=copy.deepcopy(groups)))
        ok, msg = (False, "list: %s, mapping: %s" % (ea, eb)) if (a is None or b is None) else tables_equal(a, b)
        ctx.oracle(ok, "C18.container.list_differs", site, msg, dict(cs, draw_seed=s2))
        # the file written for the list of groups against the text the seeded mapping writes
        h_ref = io.StringIO(); mk.make_release(mapping(True, with_cols=False), h_ref)
        want_text = h_ref.getvalue().replace("\r\n", "\n")
        p_out = os.path.join(tmp, "attr_name_out.rls")
        if os.path.exists(p_out):
            os.remove(p_out)
        _, err = attempt(lambda: caller_seeded(seed, lambda: mk.make_release(copy.deepcopy(groups), p_out)))
        got_text = None
        if os.path.exists(p_out):
            with open(p_out, encoding="utf8") as f:
                got_text = f.read()
        ctx.oracle(got_text == want_text, "C18.attr_name.list.file_differs", SITE + "::make_release",
                   "np.random.seed(%r); make_release(<list of groups>, path) writes another file than make_release(dict(seed=%r, groups=...), handle) (%s)"
                   % (seed, seed, err), dict(cs, container="list", caller_seed=seed))
        # the command line in a process of its own: the list document (the process seeds first), the grouped document
        if n_cli < ctx.n(3, 16) and (ng == 1 or n_cli % 3 == 2):
            n_cli += 1
            as_list = n_cli % 2 == 1
            ctx.branch("attr_name.cli." + ("list" if as_list else "grouped"))
            p_in = os.path.join(tmp, "attr_name_cli%d.yaml" % c); p_cli = os.path.join(tmp, "attr_name_cli%d.rls" % c)
            doc = copy.deepcopy(groups) if as_list else mapping(True, with_cols=False)
            dtext = yaml.safe_dump(doc, sort_keys=False, allow_unicode=unicode_yaml)
            with open(p_in, "w", encoding="utf8") as f:
                f.write(dtext)
            if as_list:
                code = ("import sys, runpy, numpy; numpy.random.seed(%r); sys.argv[1:] = [%r, %r]; "
                        "runpy.run_module('ladim_plugins.release', run_name='__main__')" % (seed, p_in, p_cli))
                args = [sys.executable, "-c", code]
            else:
                args = [sys.executable, "-m", "ladim_plugins.release", p_in, p_cli]

            def then(rc, out, serr, p_cli=p_cli, want_text=want_text, as_list=as_list, seed=seed,
                     ccs=dict(cs, cli_yaml=dtext, caller_seed=seed if as_list else None)):
                got = None
                if os.path.exists(p_cli):
                    with open(p_cli, encoding="utf8") as fh:
                        got = fh.read()
                ctx.oracle(rc == 0 and got == want_text, "C18.attr_name.cli_differs", MAIN,
                           "%s on the %s document writes another file than make_release(dict(seed=%r, groups=...), handle) (rc=%d %s)"
                           % ("numpy.random.seed(%r) then `python -m ladim_plugins.release` (run_module)" % (seed,) if as_list
                              else "`python -m ladim_plugins.release`", "list" if as_list else "grouped", seed, rc, serr[-200:]), ccs)
            cli.launch(args, then)
    cli.drain()


def named_keys(text, keys):
    return set(k for k in keys if k in text)


def judge_missing(ctx, err, combo, keys, site, cs):
    """the error names what is missing: every missing key, and no necessary key that is present"""
    ng = len(combo)
    missing = [set(k for i, k in enumerate(keys) if (m >> i) & 1) for m in combo]
    for gi, m in enumerate(combo):
        for i, k in enumerate(keys):
            if (m >> i) & 1:
                ctx.oracle(k in err, "C18.invalid.error_does_not_name_key", site,
                           "group %d lacks %s, error is %r" % (gi, k, err), cs)
    allmissing = set().union(*missing)
    ctx.oracle(named_keys(err, keys) <= allmissing, "C18.invalid.error_names_other_key", site,
               "error %r names %r, but only %r are missing" % (err, sorted(named_keys(err, keys) - allmissing), sorted(allmissing)), cs)
    if ng > 1:
        for gi, m in enumerate(combo):
            ctx.oracle((("in group %d" % gi) in err) == (m != 0), "C18.invalid.error_group_index", site,
                       "error %r, missing masks %r" % (err, combo), cs)
        # per group: the text that leads up to "in group i" names exactly the keys group i lacks
        pieces = re.split(r"in group (\d+)", err)
        for seg, idx in zip(pieces[0::2], pieces[1::2]):
            gi = int(idx)
            if gi < ng:
                ctx.oracle(named_keys(seg, keys) == missing[gi], "C18.invalid.error_names_other_key", site,
                           "error %r says group %d lacks %r, it lacks %r" % (err, gi, sorted(named_keys(seg, keys)), sorted(missing[gi])), cs)


# ---- error path, the dimension "what else the group holds".  A group that lacks necessary parameters may hold any other
# keys — or none at all: the completely empty group (`- {}` in a YAML list, a flat mapping of global parameters only, an
# empty mapping) is the missing-key combination date + location + num with nothing beside it.
OTHER_KEYS = [
    ("none", {}),
    ("depth", {"depth": 1}),
    ("falsy_value", {"depth": 0}),
    ("attrs_empty", {"attrs": {}}),
    ("attrs", {"attrs": {"weight": 2.5}}),
    ("several", {"group_id": 3, "age": [1.0, 3.0], "depth": [0, 10]}),
]
# what stands in the place of a group without being a mapping (a dangling hyphen in a YAML list loads to None)
NON_MAPPING_GROUPS = [("none", None), ("empty_list", []), ("empty_text", ""), ("zero", 0), ("false", False)]


def group_with(base, mask, other):
    """the group lacking the necessary parameters of `mask` (bit i: i-th key of `base`), holding the keys of `other`"""
    g = {k: copy.deepcopy(v) for i, (k, v) in enumerate(base.items()) if not (mask >> i) & 1}
    g.update(copy.deepcopy(other))
    return g


def error_containers(ng):
    """(name, shape, global parameters) of the containers that can hold `ng` groups"""
    out = [("list", "list", {}), ("grouped", "grouped", {"seed": 1}), ("grouped_seedless", "grouped", {}),
           ("grouped_columns", "grouped", {"seed": 1, "columns": ["date", "latitude"]})]
    if ng == 1:
        out += [("flat", "flat", {"seed": 1}), ("flat_seedless", "flat", {}),
                ("flat_columns", "flat", {"columns": ["date", "latitude"], "seed": 1})]
    return out


def build_container(shape, glob, groups):
    """the configuration object and the request to the model's `table.validate` (token list)"""
    def gtoks(g):
        return [len(g)] + list(g.keys())
    if shape == "flat":
        conf = dict(copy.deepcopy(groups[0])); conf.update(copy.deepcopy(glob))
        toks = [0] + gtoks(conf)
    elif shape == "list":
        conf = copy.deepcopy(groups)
        toks = [1, len(groups)] + [t for g in groups for t in gtoks(g)]
    else:
        conf = dict(copy.deepcopy(glob)); conf["groups"] = copy.deepcopy(groups)
        toks = [2] + gtoks(glob) + [len(groups)] + [t for g in groups for t in gtoks(g)]
    return conf, " ".join(str(t) for t in toks)


def other_keys_checks(ctx, mk, yaml, tmp, cli, drv, pend, base, keys):
    """All missing-key combinations x what else the groups hold (nothing at all, one attribute, a falsy value, `attrs`,
    several attributes) x every container (list, grouped with / without seed / with columns, flat likewise) x object /
    YAML stream / YAML file / command line; and lists in which a non-mapping (None: a dangling hyphen) stands for a group."""
    site = SITE + "::load_config"
    err_out = os.path.join(tmp, "err_out2.rls")
    state = dict(n_cli=0, n_file=0)

    def call(supplied):
        if os.path.exists(err_out):
            os.remove(err_out)
        err = None; res = None
        try:
            res = mk.make_release(supplied, err_out)
        except ValueError as e:
            err = str(e)
        except Exception as e:
            err = "OTHER " + repr(e)
        return res, err

    def one(groups, combo, cname, shape, glob, vias, labels, want_cli=False):
        conf, kind = build_container(shape, glob, groups)
        any_missing = any(m != 0 for m in combo)
        ytext = yaml.safe_dump(conf, sort_keys=False)
        empty = [gi for gi, g in enumerate(groups) if len(g) == 0]
        for via in vias:
            cs = dict(container=cname, via=via, config=copy.deepcopy(conf), groups=copy.deepcopy(groups), missing_masks=list(combo),
                      other_keys=labels, yaml=ytext)
            ctx.case(key=("err2", cname, via, combo, tuple(labels)), nontrivial=True)
            ctx.branch("missing_keys.other_keys"); ctx.branch("missing_keys.container." + cname); ctx.branch("missing_keys.via." + via)
            for lb in set(labels):
                ctx.branch("missing_keys.other." + lb)
            if empty:
                ctx.branch("missing_keys.empty_group")
                ctx.branch("missing_keys.empty_group.%s.%s" % (cname, via))
                if len(empty) == len(groups):
                    ctx.branch("missing_keys.empty_group.all_groups")
                elif any(combo[gi] == 0 for gi in range(len(groups))):
                    ctx.branch("missing_keys.empty_group.beside_complete_groups")
            if via == "object":
                supplied = copy.deepcopy(conf)
            elif via == "yaml_stream":
                supplied = io.StringIO(ytext)
            else:
                state["n_file"] += 1
                supplied = os.path.join(tmp, "err2_%d.yaml" % (state["n_file"] % 4))
                with open(supplied, "w", encoding="utf8") as f:
                    f.write(ytext)
            res, err = call(supplied)
            if any_missing:
                ctx.oracle(err is not None and not err.startswith("OTHER"), "C18.invalid.not_rejected", site,
                           "groups lack necessary parameters (masks %r over %r, other keys %r) but the result is %s / the error %r"
                           % (list(combo), keys, labels, "no table" if res is None else
                              "a (partial) table of %d rows, columns %r" % (nrows_of(res), list(res.keys())), err), cs)
                ctx.oracle(not os.path.exists(err_out), "C18.invalid.partial_file", SITE + "::make_release",
                           "missing keys (error %r) but an output file was written" % (err,), cs)
                if err and not err.startswith("OTHER"):
                    judge_missing(ctx, err, combo, keys, site, cs)
            else:
                ctx.oracle(err is None, "C18.valid.rejected", site, "complete configuration rejected: %r" % err, cs)
            if drv.available and via == "object":
                pend.append((drv.ask("table.validate", kind), err, combo, cs))
        # through the command line: failing exit status, no output file, the error names the keys
        if want_cli and any_missing:
            state["n_cli"] += 1
            ctx.branch("cli.invalid"); ctx.branch("cli.invalid.other_keys")
            if empty:
                ctx.branch("cli.invalid.empty_group")
            p_in = os.path.join(tmp, "clierr2_%d.yaml" % state["n_cli"]); p_out = os.path.join(tmp, "clierr2_%d.rls" % state["n_cli"])
            with open(p_in, "w", encoding="utf8") as f:
                f.write(ytext)

            def then(rc, out, serr, p_out=p_out, combo=combo,
                     cs=dict(container=cname, via="command line", config=copy.deepcopy(conf), missing_masks=list(combo), other_keys=labels, yaml=ytext)):
                ctx.oracle(rc != 0, "C18.invalid.cli_exit_status", MAIN,
                           "missing keys (masks %r), but the command line exits with status 0 (%s)" % (list(combo), serr[-200:]), cs)
                ctx.oracle(not os.path.exists(p_out), "C18.invalid.partial_file", MAIN,
                           "missing keys (masks %r), but the command line wrote an output file" % (list(combo),), cs)
                if rc != 0:
                    judge_missing(ctx, serr.split("ValueError: ")[-1], combo, keys, MAIN, cs)
            cli.launch([sys.executable, "-m", "ladim_plugins.release", p_in, p_out], then)

    none = dict(OTHER_KEYS)["none"]
    # -- (a) systematic: the groups hold nothing but (some of) the necessary parameters; every combination over 1..2
    # groups, over 3 groups every combination with an empty group and a sample of the others; every container
    for ng in (1, 2, 3):
        for combo in itertools.product(range(8), repeat=ng):
            if ng == 3 and ctx.tier != "thorough" and ctx.rng.random() < (0.6 if 7 in combo else 0.9):
                continue
            groups = [group_with(base, m, none) for m in combo]
            for cname, shape, glob in error_containers(ng):
                has_empty = 7 in combo
                # an empty group: object, stream and file; otherwise object and one of the YAML forms
                vias = ("object", "yaml_stream", "yaml_file") if (has_empty and ng < 3) else ("object", ctx.rng.choice(["yaml_stream", "yaml_file"]))
                want_cli = has_empty and cname in ("list", "grouped", "flat", "flat_seedless") and state["n_cli"] < ctx.n(3, 14) and \
                    (ng == 1 or ctx.rng.random() < 0.08)
                one(groups, combo, cname, shape, glob, vias, ["none"] * ng, want_cli)
    # -- (b) random: 1..4 groups, each lacking a random subset (empty and complete ones over-represented) and holding a
    # random choice of other keys
    for c in range(ctx.n(150, 2500)):
        ng = ctx.rng.choice([1, 2, 2, 3, 4])
        combo = tuple(ctx.rng.choice([0, 0, 7, 7, ctx.rng.randrange(8)]) for _ in range(ng))
        picks = [ctx.rng.choice(OTHER_KEYS) for _ in range(ng)]
        if all(m == 0 for m in combo) and ctx.rng.random() < 0.8:
            continue
        groups = [group_with(base, m, o) for m, (_, o) in zip(combo, picks)]
        cname, shape, glob = ctx.rng.choice(error_containers(ng))
        via = ctx.rng.choice(["object", "yaml_stream", "yaml_file"])
        want_cli = any(len(g) == 0 for g in groups) and state["n_cli"] < ctx.n(5, 24) and ctx.rng.random() < 0.1
        one(groups, combo, cname, shape, glob, (via,) if via == "object" else ("object", via), [lb for lb, _ in picks], want_cli)
    # -- (c) something that is no mapping stands in the place of a group (`-` with nothing behind it loads to None).
    # The statement: an invalid configuration is rejected with an error instead of producing a partial table (what
    # the error says about a non-mapping is not laid down)
    for ng in (1, 2, 3):
        for at in range(ng):
            for lb, nm in NON_MAPPING_GROUPS:
                others = [ctx.rng.choice([0, 0, 0, 7, ctx.rng.randrange(8)]) for _ in range(ng)]
                groups = [nm if gi == at else group_with(base, others[gi], ctx.rng.choice(OTHER_KEYS)[1]) for gi in range(ng)]
                for cname, glob in (("list", None), ("grouped", {"seed": 1}), ("grouped_seedless", {})):
                    conf = copy.deepcopy(groups) if glob is None else dict(glob, groups=copy.deepcopy(groups))
                    ytext = yaml.safe_dump(conf, sort_keys=False)
                    if nm is None:
                        ytext = ytext.replace("- null\n", "-\n")            # the dangling hyphen
                    for via in ("object", "yaml_stream", "yaml_file"):
                        cs = dict(container=cname, via=via, config=copy.deepcopy(conf), yaml=ytext, non_mapping_group=at)
                        ctx.case(key=("err3", cname, via, ng, at, lb, tuple(others)), nontrivial=True)
                        ctx.branch("invalid.non_mapping_group"); ctx.branch("invalid.non_mapping_group." + lb)
                        ctx.branch("invalid.non_mapping_group.%s.%s" % (cname, via))
                        if via == "object":
                            supplied = copy.deepcopy(conf)
                        elif via == "yaml_stream":
                            supplied = io.StringIO(ytext)
                        else:
                            supplied = os.path.join(tmp, "err3.yaml")
                            with open(supplied, "w", encoding="utf8") as f:
                                f.write(ytext)
                        if os.path.exists(err_out):
                            os.remove(err_out)
                        err = None; res = None
                        try:
                            res = mk.make_release(supplied, err_out)
                        except (ValueError, TypeError) as e:
                            err = repr(e)
                        ctx.oracle(err is not None, "C18.invalid.non_mapping_group_not_rejected", site,
                                   "group %d of %d is %r, no mapping, but a table of %s rows is returned"
                                   % (at, ng, nm, "?" if res is None else nrows_of(res)), cs)
                        ctx.oracle(not os.path.exists(err_out), "C18.invalid.partial_file", SITE + "::make_release",
                                   "group %d of %d is %r (error %r) but an output file was written" % (at, ng, nm, err), cs)


# ---- aliasing inside a configuration.  The table is a function of the specification's *content*: a configuration in
# which one sub-object (a distribution mapping, a range / value list, a location, a date span, an `attrs` mapping, a
# whole group, ...) stands at several places — what a YAML anchor / alias (`w: &a {...}` ... `w: *a`; yaml.safe_load
# builds ONE object for both places, yaml.safe_dump writes anchors by itself for an object met twice), a YAML merge key
# (`<<: *base`) or a Python script re-using one variable gives — is the same specification as the one written out with
# separate equal copies.  And the caller's configuration is not consumed: the object passed is, after the call, what it
# was before, so that passing it again (seeded) gives the same table again.
ALIAS_ATTR_KINDS = ["attr.exp_max", "attr.exp", "attr.gauss", "attr.gauss_min", "attr.gauss_max", "attr.gauss_min_max",
                    "attr.uniform", "attr.piece", "attr.range", "attr.list"]
# (the value kinds an `attrs` mapping / a repeated group carries: those with optional keys twice as often)
ALIAS_PAYLOAD_KINDS = ["attr.exp_max", "attr.exp_max", "attr.gauss_min_max", "attr.gauss_max", "attr.gauss_min", "attr.exp",
                       "attr.gauss", "attr.uniform", "attr.piece", "attr.range"]
ALIAS_KINDS = ALIAS_ATTR_KINDS + ["attrs.mapping", "depth.range", "piece.tables", "loc.point", "loc.poly", "loc.multi", "loc.ring",
                                  "loc.offset", "loc.offset_center", "date.span", "group.twice", "group.shallow_copy",
                                  "seed.list_as_range"]
ALIAS_NAMES = ["w", "len", "depth", "sink_vel", "q"]


def unshared(o):
    """the same content with no object standing at two places (copy.deepcopy keeps shared sub-objects shared)"""
    if isinstance(o, dict):
        return {k: unshared(v) for k, v in o.items()}
    if isinstance(o, list):
        return [unshared(v) for v in o]
    return o


def frozen(o):
    """the content of a configuration object with key order and cell types (the caller's object before / after a call)"""
    if isinstance(o, dict):
        return ("dict", tuple((k, frozen(v)) for k, v in o.items()))
    if isinstance(o, list):
        return ("list", tuple(frozen(v) for v in o))
    return (type(o).__name__, repr(o))


def shared_places(o):
    """number of mappings / lists inside `o` that stand at more than one place"""
    seen = {}

    def walk(x):
        if isinstance(x, (dict, list)):
            seen[id(x)] = seen.get(id(x), 0) + 1
            if seen[id(x)] == 1:
                for v in (x.values() if isinstance(x, dict) else x):
                    walk(v)
    walk(o)
    return sum(1 for n in seen.values() if n > 1)


def shuffled_keys(rng, d):
    ks = list(d)
    rng.shuffle(ks)
    return {k: d[k] for k in ks}


def alias_value(rng, kind, num):
    """an attribute specification of the given kind (a mapping or a list: something that can stand at several places).
    Bounds lie well inside the distribution, so that a draw beyond them is the rule, not the exception."""
    if kind in ("attr.exp", "attr.exp_max"):
        mean = rng.choice([0.01, 1.0, 10.0])
        d = dict(distribution="exponential", mean=mean)
        if kind == "attr.exp_max":
            d["max"] = mean * rng.choice([0.25, 0.5, 1.0, 1.5])         # (a fraction exp(-0.25) .. exp(-1.5) of the draws is cut)
        return shuffled_keys(rng, d)
    if kind.startswith("attr.gauss"):
        mean, std = rng.choice([5.0, 40.0]), rng.choice([1.0, 10.0])
        d = dict(distribution="gaussian", mean=mean, std=std)
        if kind in ("attr.gauss_min", "attr.gauss_min_max"):
            d["min"] = mean - std * rng.choice([0.25, 0.5, 1.0])
        if kind in ("attr.gauss_max", "attr.gauss_min_max"):
            d["max"] = mean + std * rng.choice([0.25, 0.5, 1.0])
        return shuffled_keys(rng, d)
    if kind == "attr.uniform":
        a = round(rng.uniform(0.0, 10.0), 2)
        return shuffled_keys(rng, dict(distribution="uniform", min=a, max=a + rng.randrange(1, 10)))
    if kind == "attr.piece":
        n = rng.randrange(3, 7)
        knots = [0.0]
        for _ in range(n - 1):
            knots.append(round(knots[-1] + rng.uniform(1.0, 5.0), 3))
        # (strictly increasing: interior points move by less than half a step)
        cdf = [0.0] + [round((i + rng.uniform(-0.3, 0.3)) / (n - 1), 4) for i in range(1, n - 1)] + [1.0]
        return shuffled_keys(rng, dict(distribution="piecewise", knots=knots, cdf=cdf))
    if kind == "attr.range":
        a = round(rng.uniform(0.0, 10.0), 2)
        return [a, a + rng.randrange(1, 10)]
    assert kind == "attr.list", kind
    return [float(rng.randrange(50)) for _ in range(num)]


def alias_outline(rng, cx, cy, r):
    """a small simple polygon around (cx, cy) as (lons, lats)"""
    th, rad = star_outline(rng, rng.randrange(3, 9), r)
    xs, ys = outline_xy(th, rad, cx, cy, rng.random() < 0.5)
    return [round(x, 5) for x in xs], [round(y, 5) for y in ys]


def alias_spec(rng, kind):
    """The groups of a configuration in which one sub-object of the given kind stands at several places.
    Returns (groups, placement tag, seed object or None)."""
    place = kind.split(".")[0]
    ng = rng.choice([2, 2, 3])
    if kind in ALIAS_ATTR_KINDS:
        place = rng.choice(["across_groups", "across_groups", "attrs_of_one_group", "group_level_and_attrs"])
        if place == "attrs_of_one_group":
            ng = rng.choice([1, 1, 2])
    elif kind in ("piece.tables", "seed.list_as_range") and rng.random() < 0.3:
        ng = 1
    num0 = rng.choice([7, 40, 100])
    groups = []
    for g in range(ng):
        lon, lat = round(rng.uniform(-20, 30), 4), round(rng.uniform(50, 75), 4)
        loc = [lon, lat]
        if rng.random() < 0.4:
            loc = list(alias_outline(rng, lon, lat, 0.3))
        groups.append(dict(num=num0 if kind == "attr.list" else rng.choice([7, 40, 100]),
                           date=rng.choice(["2015-04-01 00:00:00", ["2015-04-01T00:00:00", "2015-04-02T06:00:00"],
                                            ["2000-01-0%d 00:00" % (g + 1), "2000-01-0%d 12:00" % (g + 2)]]),
                           location=loc, group_id=g + 1))
    seed_obj = None

    def put(g, where, name, v):
        if where == "attrs":
            groups[g].setdefault("attrs", {})[name] = v
        else:
            groups[g][name] = v

    def where():
        return "attrs" if rng.random() < 0.35 else "group"
    if kind in ALIAS_ATTR_KINDS:
        v = alias_value(rng, kind, num0)
        n1, n2 = rng.sample(ALIAS_NAMES, 2)
        if place == "across_groups":
            users = rng.sample(range(ng), rng.randrange(2, ng + 1))
            for g in sorted(users):
                put(g, where(), n1, v)
            for g in range(ng):
                if g not in users and rng.random() < 0.5:
                    put(g, where(), n1, alias_value(rng, kind, num0))        # an equal-kind specification of its own
        elif place == "attrs_of_one_group":
            g = rng.randrange(ng)
            put(g, where(), n1, v)
            put(g, where(), n2, v)
        else:
            put(0, "group", n1, v)
            put(ng - 1, "attrs", n2 if (ng == 1 or rng.random() < 0.5) else n1, v)
            if ng == 3:
                put(1, where(), n1, v)
    elif kind == "attrs.mapping":
        a = {}
        for nm in rng.sample(ALIAS_NAMES, rng.randrange(1, 3)):
            a[nm] = alias_value(rng, rng.choice(ALIAS_PAYLOAD_KINDS), num0)
        if rng.random() < 0.5:
            a["stage"] = rng.choice([0, 3, 2.5])
        for g in range(ng):
            groups[g]["attrs"] = a
    elif kind == "depth.range":
        d = [0, rng.choice([10, 2.5, 100])]
        for g in range(ng):
            groups[g]["depth"] = d
    elif kind == "piece.tables":
        # two piecewise specifications of their own whose `cdf` (and possibly `knots`) tables are one list object
        p1 = alias_value(rng, "attr.piece", num0)
        p2 = dict(p1)
        if rng.random() < 0.5:
            p2["knots"] = [round(k * 2.0 + 1.0, 3) for k in p1["knots"]]
        put(0, where(), "q", p1)
        if ng == 1:
            put(0, where(), "w", p2)
        else:
            put(ng - 1, where(), rng.choice(["q", "w"]), p2)
    elif kind.startswith("loc."):
        lon, lat = round(rng.uniform(-20, 30), 4), round(rng.uniform(50, 75), 4)
        users = sorted(rng.sample(range(ng), rng.randrange(2, ng + 1)))
        if kind == "loc.point":
            shared = [lon, lat]
        elif kind == "loc.poly":
            shared = list(alias_outline(rng, lon, lat, 0.3))
        elif kind == "loc.multi":
            parts = [alias_outline(rng, lon + 2.0 * q, lat, 0.3) for q in range(rng.randrange(2, 4))]
            shared = [[p[0] for p in parts], [p[1] for p in parts]]
        elif kind == "loc.offset":
            xs, ys = alias_outline(rng, 0.0, 0.0, rng.uniform(50.0, 2000.0))
            shared = dict(center=[lon, lat], offset=[xs, ys])
        else:
            shared = None
        if shared is not None:
            for g in users:
                groups[g]["location"] = shared
        elif kind == "loc.ring":
            # the coordinate lists of one outline: a polygon of its own in one group, a part of a multipolygon in another
            xs, ys = alias_outline(rng, lon, lat, 0.3)
            xo, yo = alias_outline(rng, lon + 2.0, lat, 0.3)
            groups[users[0]]["location"] = [xs, ys]
            for g in users[1:]:
                groups[g]["location"] = [[xo, xs], [yo, ys]] if rng.random() < 0.5 else [[xs, xo], [ys, yo]]
        else:
            # loc.offset_center: the point of one group is the centre of another group's metric outline
            c = [lon, lat]
            xs, ys = alias_outline(rng, 0.0, 0.0, rng.uniform(50.0, 2000.0))
            off = [xs, ys]
            groups[users[0]]["location"] = c
            for g in users[1:]:
                groups[g]["location"] = dict(center=c, offset=off)
    elif kind == "date.span":
        d = ["2015-04-01T00:00:00", rng.choice(["2015-04-02T06:00:00", "2015-04-01T00:00:00", "2015-06-01"])]
        for g in range(ng):
            groups[g]["date"] = d
    elif kind in ("group.twice", "group.shallow_copy"):
        pk = rng.choice(ALIAS_PAYLOAD_KINDS)
        put(0, where(), rng.choice(ALIAS_NAMES), alias_value(rng, pk, groups[0]["num"]))
        if rng.random() < 0.5:
            put(0, where(), "stage", alias_value(rng, rng.choice(ALIAS_PAYLOAD_KINDS), groups[0]["num"]))
        if kind == "group.twice":
            # the very same group two or three times (another group possibly in between)
            groups = rng.choice([[groups[0], groups[0]], [groups[0], groups[1], groups[0]], [groups[0]] * 3,
                                 [groups[1], groups[0], groups[0]]])
        else:
            # what `dict(g, group_id=2)` in a script / `<<: *base` in a YAML file gives: a group of its own whose
            # values are the objects of the first
            g2 = dict(groups[0], group_id=2)
            if rng.random() < 0.5:
                g2["num"] = rng.choice([7, 40, 100])
            groups = [groups[0], g2] + ([groups[2]] if ng == 3 else [])
    else:
        assert kind == "seed.list_as_range", kind
        # a list-valued seed (numpy accepts a sequence) that is also the range of an attribute
        a = rng.randrange(0, 50)
        seed_obj = [a, a + rng.randrange(1, 50)]
        for g in rng.sample(range(ng), rng.randrange(1, ng + 1)):
            put(g, where(), rng.choice(ALIAS_NAMES), seed_obj)
    # attributes of their own behind the shared ones (their draws come later in the stream)
    # (not in a shallow-copied pair: the second group differs from the first in `group_id` / `num` only)
    for g_ in groups[2:] if kind == "group.shallow_copy" else groups:
        if "zz" not in g_ and rng.random() < 0.5:
            g_["zz"] = alias_value(rng, rng.choice(["attr.gauss", "attr.range", "attr.exp"]), g_["num"])
    return groups, place, seed_obj


def merge_key_yaml(yaml, conf):
    """the grouped document of a `group.shallow_copy` configuration written with a YAML merge key: the second group is
    `<<: *base` plus the keys in which it differs from the first"""
    g1, g2 = conf["groups"][0], conf["groups"][1]
    assert list(g1) == list(g2) and all(g2[k] is g1[k] or k in ("group_id", "num") for k in g1)
    head = {k: v for k, v in conf.items() if k != "groups"}
    text = yaml.safe_dump(head, sort_keys=False) if head else ""
    text += "groups:\n- &base\n"
    text += "".join("  " + l + "\n" for l in yaml.safe_dump(unshared(g1), sort_keys=False).splitlines())
    text += "- <<: *base\n"
    for k in g1:
        if g2[k] is not g1[k] and g2[k] != g1[k]:
            text += "  %s: %r\n" % (k, g2[k])
    for g in conf["groups"][2:]:
        lines = yaml.safe_dump(unshared(g), sort_keys=False).splitlines()
        text += "- " + lines[0] + "\n" + "".join("  " + l + "\n" for l in lines[1:])
    return text


def alias_checks(ctx, mk, yaml, tmp, cli):
    """Configurations with shared sub-objects against the same specification written out with separate equal copies,
    in every container; the caller's object before / after the call; the same object passed again."""
    site = SITE + "::make_release"
    kinds = list(ALIAS_KINDS)
    ctx.rng.shuffle(kinds)
    n_cli = 0
    for c in range(ctx.n(2, 8) * len(kinds)):
        kind = kinds[c % len(kinds)]
        groups, place, seed_obj = alias_spec(ctx.rng, kind)
        ng = len(groups)
        seed = seed_obj if seed_obj is not None else (ctx.rng.choice(SPECIAL_SEEDS) if ctx.rng.random() < 0.3 else ctx.rng.randrange(2**32))
        master = dict(seed=seed, groups=groups)
        assert shared_places(master) >= 1, (kind, master)
        plain = unshared(master)
        assert shared_places(plain) == 0 and plain == master
        cs = dict(config=plain, shared_kind=kind, placement=place,
                  config_yaml_with_anchors=yaml.safe_dump(master, sort_keys=False))
        ctx.case(key=("alias", repr(plain), kind, place), nontrivial=True)
        ctx.branch("alias"); ctx.branch("alias.kind." + kind); ctx.branch("alias.place." + place); ctx.branch("alias.ngroups.%d" % ng)
        # the reference: the specification written out with separate equal copies
        ref_nc, err = attempt(lambda: mk.make_release(unshared(master)))
        if not ctx.oracle(err is None, "C18.alias.valid_rejected", site, "the specification written out with separate copies is rejected: %s" % err, cs):
            continue
        cols = None
        if ctx.rng.random() < 0.4:
            hdr0 = list(ref_nc.keys())
            cols = ctx.rng.sample(hdr0, ctx.rng.randrange(1, len(hdr0) + 1))
            cs["config"] = dict(seed=plain["seed"], columns=cols, groups=plain["groups"])
        ctx.branch("alias.columns" if cols is not None else "alias.default_columns")

        def make(form, shared=True):
            """a fresh configuration object of the given shape; `shared`: with the sub-objects shared as in `master`
            (copy.deepcopy keeps the sharing, also between the seed and an attribute), otherwise written out"""
            m = copy.deepcopy(master)
            if not shared:
                m = unshared(m)
            if form == "list":
                return m["groups"]
            d = {}
            if not form.endswith("_seedless"):
                d["seed"] = m["seed"]
            if cols is not None:
                d["columns"] = list(cols)
            if form.startswith("flat"):
                d.update(m["groups"][0])
            else:
                d["groups"] = m["groups"]
            return d
        assert shared_places(make("grouped")) == shared_places(master)
        ref = ref_nc if cols is None else mk.make_release(make("grouped", shared=False))
        h_ref = io.StringIO(); mk.make_release(make("grouped", shared=False), h_ref)
        want_text = h_ref.getvalue().replace("\r\n", "\n")
        forms = [("grouped", True, True), ("grouped_seedless", False, True), ("list", False, False)]
        # (a flat mapping holds one group; its keys `seed` / `columns` are the global parameters)
        if ng == 1:
            forms += [("flat", True, True), ("flat_seedless", False, True)]
        for form, seeded, keeps_cols in forms:
            want = ref if keeps_cols else ref_nc
            ytext = yaml.safe_dump(make(form), sort_keys=False, allow_unicode=bool(c % 2))
            # (the YAML text does hold anchors and loads to the same content with shared objects)
            # (a list-valued seed shared with one attribute only: nothing is shared in the containers without a seed)
            loaded = yaml.safe_load(ytext)
            assert loaded == make(form, shared=False), ytext
            if shared_places(make(form)) >= 1:
                assert "&id001" in ytext and "*id001" in ytext and shared_places(loaded) >= 1, ytext
            else:
                ctx.branch("alias.nothing_shared_in_this_container")
            for via in ("object", "yaml_stream", "yaml_file"):
                obj = None
                if via == "object":
                    obj = make(form)
                    supplied = obj
                elif via == "yaml_stream":
                    supplied = io.StringIO(ytext)
                else:
                    supplied = os.path.join(tmp, "alias_%s.yaml" % form)
                    with open(supplied, "w", encoding="utf8") as f:
                        f.write(ytext)
                before = frozen(obj)
                # a container that carries the seed does not depend on the generator's state (put to some other state
                # here); for one that does not, the caller seeds (as in seedless_checks)
                s0 = 424242 if seeded else seed
                what = "np.random.seed(%r); make_release(<%s, %s, sub-objects shared>)" % (s0, form, via)
                scs = dict(cs, container=form, via=via, caller_seed=s0, supplied=ytext)
                got, err = attempt(lambda: caller_seeded(s0, lambda: mk.make_release(supplied)))
                ctx.branch("alias.%s.%s" % (form, via))
                if not ctx.oracle(err is None, "C18.alias.valid_rejected", site,
                                  "%s is rejected (%s), the same specification with separate copies gives a table" % (what, err), scs):
                    continue
                ok, msg = tables_equal(want, got)
                ctx.oracle(ok, "C18.alias.%s.%s_differs" % (form, via), site,
                           "%s differs from the same specification written out with separate equal copies "
                           "(grouped mapping, seed %r): %s" % (what, seed, msg), scs)
                if ok:
                    ok, msg = types_equal(want, got)
                    ctx.oracle(ok, "C18.container.cell_type_differs", site, "%s: %s" % (what, msg), scs)
                if obj is not None:
                    same = frozen(obj) == before
                    ctx.oracle(same, "C18.alias.config_consumed", site,
                               "" if same else "%s: the caller's configuration object is another after the call: %r, before %r"
                               % (what, obj, make(form, shared=False)), scs)
        # the same object passed again and again (a caller looping over one configuration): with sub-objects shared,
        # and written out with separate copies (every sub-object used once per call)
        for label, obj in (("shared", make("grouped")), ("separate", make("grouped", shared=False)),
                           ("flat_shared", make("flat") if len(forms) > 3 else None)):
            if obj is None:
                continue
            before = frozen(obj)
            ctx.branch("alias.same_object." + label)
            for k in range(3):
                r_, err = attempt(lambda: mk.make_release(obj))
                ok, msg = (False, "rejected: %s" % err) if r_ is None else tables_equal(ref, r_)
                ctx.oracle(ok, "C18.alias.same_object_not_reproducible", site,
                           "call %d with one and the same seeded mapping object (sub-objects %s) differs from the seeded run "
                           "of a fresh equal configuration: %s" % (k + 1, label, msg), dict(cs, sub_objects=label, call=k + 1))
                same = frozen(obj) == before
                ctx.oracle(same, "C18.alias.config_consumed", site,
                           "" if same else "after call %d the caller's mapping (sub-objects %s) is %r, it was %r"
                           % (k + 1, label, obj, make("flat" if label == "flat_shared" else "grouped", shared=False)),
                           dict(cs, sub_objects=label, call=k + 1))
        # one `groups` list object handed over in several containers, one after the other
        gl = make("list")
        before = frozen(gl)
        ctx.branch("alias.groups_object_reused")
        uses = [("list", lambda: caller_seeded(seed, lambda: mk.make_release(gl))),
                ("grouped", lambda: mk.make_release(dict(seed=copy.deepcopy(seed), groups=gl))),
                ("grouped_seedless", lambda: caller_seeded(seed, lambda: mk.make_release(dict(groups=gl)))),
                ("list", lambda: caller_seeded(seed, lambda: mk.make_release(gl)))]
        if len(forms) > 3:
            uses.insert(2, ("flat", lambda: mk.make_release(dict(gl[0], seed=copy.deepcopy(seed)))))
        for k, (form, use) in enumerate(uses):
            r_, err = attempt(use)
            ok, msg = (False, "rejected: %s" % err) if r_ is None else tables_equal(ref_nc, r_)
            ucs = dict(cs, config=dict(seed=plain["seed"], groups=plain["groups"]), use=k + 1, container=form)
            ctx.oracle(ok, "C18.alias.groups_object_reused_differs", site,
                       "use %d of one groups object (as %s, seed %r) differs from the seeded run of a fresh equal configuration: %s"
                       % (k + 1, form, seed, msg), ucs)
            same = frozen(gl) == before
            ctx.oracle(same, "C18.alias.config_consumed", site,
                       "" if same else "after use %d (as %s) the caller's groups object is %r, it was %r" % (k + 1, form, gl, make("list", shared=False)), ucs)
        # the file written: the text the written-out specification writes
        h = io.StringIO()
        _, err = attempt(lambda: mk.make_release(make("grouped"), h))
        ctx.oracle(err is None and h.getvalue().replace("\r\n", "\n") == want_text, "C18.alias.file_differs", site,
                   "the text written for the configuration with shared sub-objects differs from the text written for "
                   "separate equal copies (%s)" % err, cs)
        # the merge-key document of a shallow-copied group
        docs = [("anchors", yaml.safe_dump(make("grouped"), sort_keys=False))]
        if kind == "group.shallow_copy":
            mtext = merge_key_yaml(yaml, make("grouped"))
            loaded = yaml.safe_load(mtext)
            assert loaded == make("grouped", shared=False) and [list(g) for g in loaded["groups"]] == [list(g) for g in groups], mtext
            ctx.branch("alias.merge_key")
            docs.append(("merge_key", mtext))
            for via in ("yaml_stream", "yaml_file"):
                if via == "yaml_stream":
                    supplied = io.StringIO(mtext)
                else:
                    supplied = os.path.join(tmp, "alias_merge.yaml")
                    with open(supplied, "w", encoding="utf8") as f:
                        f.write(mtext)
                got, err = attempt(lambda: caller_seeded(424242, lambda: mk.make_release(supplied)))
                ok, msg = (False, "rejected: %s" % err) if got is None else tables_equal(ref, got)
                ctx.oracle(ok, "C18.alias.merge_key.%s_differs" % via, site,
                           "the document with a YAML merge key (%s) differs from the same specification written out: %s" % (via, msg),
                           dict(cs, via=via, supplied=mtext))
        # the command line in a process of its own on the document with anchors / merge key
        # (the first two rounds over the shuffled kinds in the thorough tier; a sample in the quick tier)
        for dname, dtext in docs:
            if n_cli >= ctx.n(8, 46) or (dname == "anchors" and ctx.tier != "thorough" and kind not in kinds[:5]):
                continue
            n_cli += 1
            ctx.branch("alias.cli"); ctx.branch("alias.cli." + dname)
            p_in = os.path.join(tmp, "alias_cli%d_%s.yaml" % (c, dname)); p_cli = os.path.join(tmp, "alias_cli%d_%s.rls" % (c, dname))
            with open(p_in, "w", encoding="utf8") as f:
                f.write(dtext)

            def then(rc, out, serr, p_cli=p_cli, want_text=want_text, dname=dname, ccs=dict(cs, via="command line", cli_yaml=dtext)):
                got = None
                if os.path.exists(p_cli):
                    with open(p_cli, encoding="utf8") as fh:
                        got = fh.read()
                ctx.oracle(rc == 0 and got == want_text, "C18.alias.cli_differs", MAIN,
                           "`python -m ladim_plugins.release` on the YAML document with %s writes another file than make_release writes "
                           "for the same specification written out with separate copies (rc=%d %s)" % (dname, rc, serr[-200:]), ccs)
            cli.launch([sys.executable, "-m", "ladim_plugins.release", p_in, p_cli], then)
    cli.drain()


def run(ctx):
    import yaml
    mk = importlib.import_module("ladim_plugins.release.makrel")
    tmp = tempfile.mkdtemp(prefix="verif_c18_")
    cli = Cli()
    exe_dir = os.path.dirname(sys.executable)
    script = os.path.join(exe_dir, "makrel")
    c_env = dict(os.environ, LC_ALL="C", LANG="C", PYTHONCOERCECLOCALE="0", PYTHONUTF8="0")
    n_flat_cli = n_print = n_locale = n_seedless_cli = 0

    def cli_file_check(path, want, pred, site, what, case):
        def then(rc, out, err):
            got = None
            if os.path.exists(path):
                with open(path, encoding="utf8") as f:
                    got = f.read()
            ctx.oracle(rc == 0 and got == want, pred, site,
                       "%s output differs from make_release (rc=%d, %s)" % (what, rc, err[-200:]), case)
        return then
    try:
        for c in range(ctx.n(40, 600)):
            # cases 6 and 7: an empty table (every num = 0) written to an absent path / over stale content
            groups, files = plain_config(ctx.rng, tmp, str(c), all_zero=c in (6, 7))
            if c < len(SPECIAL_SEEDS):
                seed = SPECIAL_SEEDS[c]
            elif ctx.rng.random() < 0.1:
                seed = ctx.rng.choice(SPECIAL_SEEDS)
            else:
                seed = ctx.rng.randrange(10000)
            cols = None
            if ctx.rng.random() < 0.5:
                hdr0 = list(mk.make_release(dict(seed=1, groups=copy.deepcopy(groups))).keys())
                cols = ctx.rng.sample(hdr0, ctx.rng.randrange(1, len(hdr0) + 1))
            conf = dict(seed=seed)
            if cols is not None:
                conf["columns"] = cols
            conf["groups"] = groups

            def make_flat():
                f_ = dict(copy.deepcopy(groups[0]), seed=copy.deepcopy(seed))
                if cols is not None:
                    f_["columns"] = list(cols)
                return f_
            cs = dict(config=conf)
            if files:
                cs["geojson_files"] = files
            ctx.case(key=repr(conf), nontrivial=True, sample=dict(ngroups=len(groups), seed=seed) if c < 2 else None)
            ctx.branch("containers")
            ctx.branch("columns" if cols is not None else "default_columns")
            ctx.branch("seed.zero" if seed == 0 else "seed.max" if seed == 2**32 - 1 else "seed.list" if isinstance(seed, list) else "seed.other")
            if files: ctx.branch("location.geojson_file")
            if any(g["num"] == 0 for g in groups): ctx.branch("num.zero")
            if all(g["num"] == 0 for g in groups): ctx.branch("num.all_zero")
            ref = mk.make_release(dict(conf))
            again = mk.make_release(dict(conf))
            ok, msg = tables_equal(ref, again)
            ctx.oracle(ok, "C18.seed.not_reproducible", SITE + "::make_release", "two seeded runs differ: " + msg, cs)
            nrows = nrows_of(ref)
            # the same specification *object* supplied repeatedly (a caller looping over one config)
            for label, obj in (("grouped", copy.deepcopy(conf)),
                               ("flat", make_flat() if len(groups) == 1 else None)):
                if obj is None:
                    continue
                runs = [mk.make_release(obj) for _ in range(3)]
                for k, r_ in enumerate(runs):
                    ok, msg = tables_equal(ref, r_)
                    ctx.oracle(ok, "C18.seed.same_object_not_reproducible", SITE + "::make_release",
                               "call %d with the same %s mapping object differs from the first seeded run: %s" % (k + 1, label, msg), cs)
            unicode_yaml = bool(c % 2)
            if unicode_yaml: ctx.branch("yaml.utf8")
            text = yaml.safe_dump(conf, sort_keys=False, allow_unicode=unicode_yaml)
            via_stream = mk.make_release(io.StringIO(text))
            ok, msg = tables_equal(ref, via_stream)
            ctx.oracle(ok, "C18.container.yaml_stream_differs", SITE + "::load_config", msg, cs)
            if ok:
                ok, msg = types_equal(ref, via_stream)
                ctx.oracle(ok, "C18.container.cell_type_differs", SITE + "::load_config", "YAML stream: " + msg, cs)
            # one config path for every case: the file's content of the moment counts, not its name
            fn = os.path.join(tmp, "conf.yaml")
            with open(fn, "w", encoding="utf8") as f:
                f.write(text)
            # the output path does not exist / holds stale content / holds the previous case's table
            out_fn = os.path.join(tmp, "out.rls")
            if c % 3 == 0:
                if os.path.exists(out_fn): os.remove(out_fn)
                ctx.branch("file.absent")
            elif c % 3 == 1:
                with open(out_fn, "w", encoding="utf8") as f:
                    f.write("stale\tcontent\tof\tan\tearlier\trun\n" * 5)
                ctx.branch("file.stale_content")
            else:
                ctx.branch("file.previous_table")
            via_file = mk.make_release(fn, out_fn)
            ok, msg = tables_equal(ref, via_file)
            ctx.oracle(ok, "C18.container.yaml_file_differs", SITE + "::load_config", msg, cs)
            if ok:
                ok, msg = types_equal(ref, via_file)
                ctx.oracle(ok, "C18.container.cell_type_differs", SITE + "::load_config", "YAML file: " + msg, cs)
            if len(groups) == 1:
                ctx.branch("flat")
                flat = make_flat()
                via_flat = mk.make_release(flat)
                ok, msg = tables_equal(ref, via_flat)
                ctx.oracle(ok, "C18.container.flat_differs", SITE + "::load_config", msg, cs)
                if ok:
                    ok, msg = types_equal(ref, via_flat)
                    ctx.oracle(ok, "C18.container.cell_type_differs", SITE + "::load_config", "flat mapping: " + msg, cs)
                # the flat document (seed and columns inline) as YAML stream and file
                ftext = yaml.safe_dump(make_flat(), sort_keys=False, allow_unicode=unicode_yaml)
                fcs = dict(cs, flat_yaml=ftext)
                ok, msg = tables_equal(ref, mk.make_release(io.StringIO(ftext)))
                ctx.oracle(ok, "C18.container.flat_yaml_stream_differs", SITE + "::load_config", msg, fcs)
                ffn = os.path.join(tmp, "flat.yaml")
                with open(ffn, "w", encoding="utf8") as f:
                    f.write(ftext)
                ok, msg = tables_equal(ref, mk.make_release(ffn))
                ctx.oracle(ok, "C18.container.flat_yaml_file_differs", SITE + "::load_config", msg, fcs)
                ctx.branch("flat_yaml")
            # list container has no seed: compare under the same recorder stream instead
            s2 = ctx.sub_seed()
            with RngRecorder(s2):
                a = mk.make_release([dict(g) for g in groups])
            with RngRecorder(s2):
                b = mk.make_release(dict(groups=[dict(g) for g in groups]))
            ok, msg = tables_equal(a, b)
            ctx.oracle(ok, "C18.container.list_differs", SITE + "::load_config", msg, cs)
            # ... the same list object again and again, and the list document as YAML stream and file
            lst = copy.deepcopy(groups)
            for k in range(2):
                with RngRecorder(s2):
                    r_ = mk.make_release(lst)
                ok, msg = tables_equal(a, r_)
                ctx.oracle(ok, "C18.container.list_same_object_differs", SITE + "::load_config",
                           "call %d with the same list object (same draw stream): %s" % (k + 1, msg), cs)
            ltext = yaml.safe_dump(copy.deepcopy(groups), sort_keys=False, allow_unicode=unicode_yaml)
            lcs = dict(cs, list_yaml=ltext, draw_seed=s2)
            if c % 2 == 0:          # (stream and file alternate: keeps the quick tier fast)
                with RngRecorder(s2):
                    r_ = mk.make_release(io.StringIO(ltext))
                ok, msg = tables_equal(a, r_)
                ctx.oracle(ok, "C18.container.list_yaml_stream_differs", SITE + "::load_config", msg, lcs)
                ctx.branch("list_yaml.stream")
            else:
                lfn = os.path.join(tmp, "list.yaml")
                with open(lfn, "w", encoding="utf8") as f:
                    f.write(ltext)
                with RngRecorder(s2):
                    r_ = mk.make_release(lfn)
                ok, msg = tables_equal(a, r_)
                ctx.oracle(ok, "C18.container.list_yaml_file_differs", SITE + "::load_config", msg, lcs)
                ctx.branch("list_yaml.file")
            # dates as YAML-native timestamps (unquoted in the file): mapping with the objects against its YAML forms
            nat = native_dates(ctx.rng, conf) if c % 2 == 0 else None
            if nat is not None:
                ctx.branch("native_dates")
                ntext = yaml.safe_dump(nat, sort_keys=False, allow_unicode=unicode_yaml)
                ncs = dict(config=nat, yaml=ntext)
                nref = mk.make_release(copy.deepcopy(nat))
                ok, msg = tables_equal(nref, mk.make_release(io.StringIO(ntext)))
                ctx.oracle(ok, "C18.container.native_dates_yaml_stream_differs", SITE + "::load_config", msg, ncs)
                nfn = os.path.join(tmp, "native.yaml")
                with open(nfn, "w", encoding="utf8") as f:
                    f.write(ntext)
                ok, msg = tables_equal(nref, mk.make_release(nfn))
                ctx.oracle(ok, "C18.container.native_dates_yaml_file_differs", SITE + "::load_config", msg, ncs)
            # file round trip
            written = os.path.exists(out_fn)
            ctx.oracle(written, "C18.file.not_written", SITE + "::make_release", "an output path was given but no file exists after the call (%d rows)" % nrows, cs)
            if not written:
                continue
            with open(out_fn, encoding="utf8") as f:
                file_text = f.read()
            raw = file_text.split("\n")
            if raw and raw[-1] == "":
                raw.pop()
            ctx.oracle(len(raw) == nrows, "C18.file.line_count", SITE + "::make_release",
                       "file has %d lines (blank ones included) for %d rows" % (len(raw), nrows), cs)
            with open(out_fn, encoding="utf8") as f:
                lines = [l.rstrip("\n").split("\t") for l in f if l.strip() != ""]
            hdr = list(ref.keys())
            ok = len(lines) == nrows and all(len(l) == len(hdr) for l in lines)
            ctx.oracle(ok, "C18.file.shape", SITE + "::make_release", "file has %d lines for %d rows" % (len(lines), nrows), cs)
            if ok:
                for j, k in enumerate(hdr):
                    for r, l in enumerate(lines):
                        v = ref[k][r]
                        if isinstance(v, str):
                            good = l[j] == v
                        elif isinstance(v, (bool, np.bool_)):
                            good = l[j] == str(bool(v))       # booleans are written as True / False
                        else:
                            try:
                                good = float(l[j]) == float(v)
                            except ValueError:
                                good = False
                        ctx.oracle(good, "C18.file.round_trip", SITE + "::make_release",
                                   "column %s row %d: file %r, table %r" % (k, r, l[j], v), dict(cs, column=k, row=r))
            # the same table written again to the same path, and to an open handle
            mk.make_release(copy.deepcopy(conf), out_fn)
            with open(out_fn, encoding="utf8") as f:
                text2 = f.read()
            ctx.oracle(text2 == file_text, "C18.file.rewrite_differs", SITE + "::make_release",
                       "writing the same seeded table a second time to the same path leaves %d characters, the first time %d" % (len(text2), len(file_text)), cs)
            ctx.branch("file.rewrite")
            if c % 2 == 1:
                handle = io.StringIO()
                mk.make_release(copy.deepcopy(conf), handle)
                ctx.oracle(handle.getvalue().replace("\r\n", "\n") == file_text, "C18.file.handle_differs", SITE + "::make_release",
                           "the text written to an open handle differs from the file written by name", cs)
                ctx.branch("file.handle")
            # containers without a seed, numpy's real global generator seeded by the caller
            ctx.branch("seedless")
            has_random = seedless_checks(ctx, mk, yaml, tmp, groups, cols, seed, ref, cs, unicode_yaml,
                                         vias=("object", "yaml_stream") if c % 2 == 0 else ("object", "yaml_file"))
            # ... and through main() (the command line's entry point) in a process of its own that seeds first: the
            # seedless grouped document (keeps `columns`) must write the file the seeded YAML file wrote
            if has_random and n_seedless_cli < ctx.n(2, 12):
                n_seedless_cli += 1; ctx.branch("seedless.cli_main")
                p_in = os.path.join(tmp, "clinoseed%d.yaml" % c); p_out = os.path.join(tmp, "clinoseed%d.rls" % c)
                nodoc = {k: v for k, v in conf.items() if k != "seed"}
                ntext_ = yaml.safe_dump(nodoc, sort_keys=False, allow_unicode=unicode_yaml)
                with open(p_in, "w", encoding="utf8") as f:
                    f.write(ntext_)
                code = ("import sys, runpy, numpy; numpy.random.seed(%r); sys.argv[1:] = [%r, %r]; "
                        "runpy.run_module('ladim_plugins.release', run_name='__main__')" % (seed, p_in, p_out))
                cli.launch([sys.executable, "-c", code],
                           cli_file_check(p_out, file_text, "C18.seedless.cli_differs", MAIN,
                                          "numpy.random.seed(%r) then `python -m ladim_plugins.release` (run_module) on the YAML document without `seed`:" % (seed,),
                                          dict(cs, seedless_yaml=ntext_, caller_seed=seed)))
            # command line (a sample: process start-up is slow)
            # (run in the background on files of their own; judged against the file make_release wrote for the same YAML file)
            if c < ctx.n(4, 30):
                cli_out = os.path.join(tmp, "cli%d.rls" % c); cli_in = os.path.join(tmp, "cli%d.yaml" % c)
                shutil.copyfile(fn, cli_in)
                ctx.branch("cli")
                cli.launch([sys.executable, "-m", "ladim_plugins.release", cli_in, cli_out],
                           cli_file_check(cli_out, file_text, "C18.container.cli_differs", MAIN, "command line", cs))
            # further command-line forms
            if len(groups) == 1 and n_flat_cli < ctx.n(1, 8):
                n_flat_cli += 1; ctx.branch("cli.flat")
                p_in = os.path.join(tmp, "cliflat%d.yaml" % c); p_out = os.path.join(tmp, "cliflat%d.rls" % c)
                shutil.copyfile(ffn, p_in)
                cli.launch([sys.executable, "-m", "ladim_plugins.release", p_in, p_out],
                           cli_file_check(p_out, file_text, "C18.container.cli_differs", MAIN, "command line, flat YAML document:", fcs))
            has_unicode = any(ord(ch) > 127 for ch in text)
            if unicode_yaml and has_unicode and n_locale < ctx.n(1, 6) and os.path.exists(script):
                # the installed console script (setup.cfg: makrel = ladim_plugins.release.makrel:main), in a process whose
                # locale encoding is ASCII: the configuration is read as UTF-8 whatever the locale
                n_locale += 1; ctx.branch("cli.console_script"); ctx.branch("cli.c_locale")
                p_in = os.path.join(tmp, "cliloc%d.yaml" % c); p_out = os.path.join(tmp, "cliloc%d.rls" % c)
                shutil.copyfile(fn, p_in)
                cli.launch([script, p_in, p_out],
                           cli_file_check(p_out, file_text, "C18.container.cli_differs", SITE + "::main",
                                          "console script `makrel`, C locale, UTF-8 YAML with non-ASCII text:", cs), env=c_env)
            if n_print < ctx.n(1, 6) and 1 <= nrows <= 50:
                # one-argument form: the table is printed.  Four columns, at most 50 rows: pandas neither truncates nor wraps
                n_print += 1; ctx.branch("cli.print")
                pconf = dict(conf); pconf["columns"] = ["date", "longitude", "latitude", "depth"]
                pref = mk.make_release(copy.deepcopy(pconf))
                p_in = os.path.join(tmp, "cliprint%d.yaml" % c)
                with open(p_in, "w", encoding="utf8") as f:
                    f.write(yaml.safe_dump(pconf, sort_keys=False))
                cwd = os.path.join(tmp, "cwd_print%d" % c)
                os.mkdir(cwd)

                def then(rc, out, err, pref=pref, cwd=cwd, case=dict(config=pconf, geojson_files=files)):
                    ctx.oracle(rc == 0, "C18.cli.print_exit_status", SITE + "::main",
                               "one-argument command line: rc=%d, %s" % (rc, err[-200:]), case)
                    ctx.oracle(os.listdir(cwd) == [], "C18.cli.print_writes_file", SITE + "::main",
                               "one-argument command line left files %r in its working directory" % (os.listdir(cwd),), case)
                    if rc != 0:
                        return
                    ls = [l.split() for l in out.split("\n") if l.strip() != ""]
                    n = nrows_of(pref)
                    good = len(ls) == n + 1 and ls[0] == list(pref.keys()) and all(len(l) == 5 for l in ls[1:])
                    detail = "printed %d lines for %d rows" % (len(ls), n)
                    if good:
                        for r, l in enumerate(ls[1:]):
                            if l[1] != pref["date"][r]:
                                good = False; detail = "row %d: printed date %r, table %r" % (r, l[1], pref["date"][r]); break
                            for j, k in enumerate(("longitude", "latitude", "depth")):
                                v = float(pref[k][r])
                                try:
                                    w = float(l[2 + j])
                                except ValueError:
                                    w = float("nan")
                                # pandas prints 6 decimals (6 significant digits in scientific notation)
                                if not (abs(w - v) <= 5.1e-7 or abs(w - v) <= 1e-5 * abs(v)):
                                    good = False; detail = "row %d %s: printed %r, table %r" % (r, k, l[2 + j], v)
                            if not good:
                                break
                    ctx.oracle(good, "C18.cli.print_differs", SITE + "::main", "one-argument command line: " + detail, case)
                cli.launch([sys.executable, "-m", "ladim_plugins.release", p_in], then, cwd=cwd)
        cli.drain()
        # ---- every kind of random content x every seedless container x every way of supplying it (small groups whose
        # only random content is of that kind; 1..2 groups; caller seeds as the special seeds and random ones)
        for rep in range(ctx.n(1, 6)):
            for kind in RANDOM_KINDS:
                ng = 1 if (rep + RANDOM_KINDS.index(kind)) % 2 == 0 else 2
                groups = [random_kind_group(ctx.rng, kind, g, tmp, "%d_%s" % (rep, kind)) for g in range(ng)]
                if ng == 2 and ctx.rng.random() < 0.5:
                    # the second group deterministic, or of another random kind
                    groups[1] = random_kind_group(ctx.rng, ctx.rng.choice(["none"] + RANDOM_KINDS), 1, tmp, "%d_%s_b" % (rep, kind))
                seed = ctx.rng.choice(SPECIAL_SEEDS) if ctx.rng.random() < 0.3 else ctx.rng.randrange(2**32)
                cols = ctx.rng.choice([None, ["date", "longitude", "latitude", "depth"], ["latitude", "group_id", "date"]])
                conf = dict(seed=seed)
                if cols is not None:
                    conf["columns"] = cols
                conf["groups"] = groups
                cs = dict(config=conf)
                gj = {}
                for g_ in groups:
                    if isinstance(g_["location"], str):
                        with open(g_["location"], encoding="utf-8") as f:
                            gj[g_["location"]] = f.read()
                if gj:
                    cs["geojson_files"] = gj
                ctx.case(key=("seedless", repr(conf)), nontrivial=True)
                ctx.branch("seedless.kind." + kind)
                ref = mk.make_release(copy.deepcopy(conf))
                # (whether the table does depend on the caller's seed is counted: branch seedless.random_content)
                seedless_checks(ctx, mk, yaml, tmp, groups, cols, seed, ref, cs, bool(rep % 2))
        # ---- attributes named like the keys of another level of the document (`seed`, `columns`, `groups` inside a
        # group; keys of distribution / location mappings), 1..3 groups, in every container that can hold them
        attr_name_checks(ctx, mk, yaml, tmp, cli)
        # ---- the history of the process: near-identical specifications one after the other, each against a process of its own
        history_checks(ctx, mk, yaml, tmp)
        # ---- error path
        drv = Driver()
        if getattr(ctx, "widened", False):
            drv.available = False
        pend = []
        base = dict(date="2000-01-01", location=[5, 60], num=3)
        keys = ["date", "location", "num"]
        err_out = os.path.join(tmp, "err_out.rls")
        n_cli_err = 0
        for ng in (1, 2, 3):
            for combo in itertools.product(range(8), repeat=ng):
                if ng == 3 and ctx.tier != "thorough" and ctx.rng.random() < 0.8:
                    continue
                groups = []
                for m in combo:
                    g = {k: v for i, (k, v) in enumerate(base.items()) if not (m >> i) & 1}
                    g["depth"] = 1
                    groups.append(g)
                for container in (["flat", "list", "grouped", "flat_yaml", "list_yaml", "grouped_yaml"] if ng == 1
                                  else ["list", "grouped", "list_yaml", "grouped_yaml"]):
                    shape = container.split("_")[0]
                    if shape == "flat":
                        conf = dict(groups[0]); conf["seed"] = 1; kind = "0 %d %s" % (len(conf), " ".join(conf.keys()))
                    elif shape == "list":
                        conf = [dict(g) for g in groups]
                        kind = "1 %d %s" % (len(groups), " ".join("%d %s" % (len(g), " ".join(g.keys())) for g in groups))
                    else:
                        conf = dict(seed=1, groups=[dict(g) for g in groups])
                        kind = "2 1 seed %d %s" % (len(groups), " ".join("%d %s" % (len(g), " ".join(g.keys())) for g in groups))
                    any_missing = any(m != 0 for m in combo)
                    cs = dict(container=container, groups=groups)
                    ctx.case(key=("err", container, combo), nontrivial=True); ctx.branch("missing_keys")
                    supplied = conf
                    if container.endswith("_yaml"):
                        ctx.branch("missing_keys.yaml")
                        ytext = yaml.safe_dump(conf, sort_keys=False)
                        cs["yaml"] = ytext
                        supplied = io.StringIO(ytext)
                    if os.path.exists(err_out):
                        os.remove(err_out)
                    err = None; res = None
                    try:
                        res = mk.make_release(supplied, err_out)
                    except ValueError as e:
                        err = str(e)
                    except Exception as e:
                        err = "OTHER " + repr(e)
                    if any_missing:
                        ctx.oracle(err is not None and not err.startswith("OTHER"), "C18.invalid.not_rejected",
                                   SITE + "::load_config", "missing keys but result %r / error %r" % (None if res is None else "table", err), cs)
                        ctx.oracle(not os.path.exists(err_out), "C18.invalid.partial_file", SITE + "::make_release",
                                   "missing keys (error %r) but an output file was written" % (err,), cs)
                        if err and not err.startswith("OTHER"):
                            judge_missing(ctx, err, combo, keys, SITE + "::load_config", cs)
                        # through the command line: failing exit status, no output file, the error names the keys
                        if shape == "grouped" and container.endswith("_yaml") and n_cli_err < ctx.n(1, 8) and ctx.rng.random() < 0.2:
                            n_cli_err += 1; ctx.branch("cli.invalid")
                            p_in = os.path.join(tmp, "clierr%d.yaml" % n_cli_err); p_out = os.path.join(tmp, "clierr%d.rls" % n_cli_err)
                            with open(p_in, "w", encoding="utf8") as f:
                                f.write(ytext)

                            def then(rc, out, serr, p_out=p_out, combo=combo, cs=dict(cs, via="command line")):
                                ctx.oracle(rc != 0, "C18.invalid.cli_exit_status", MAIN,
                                           "missing keys, but the command line exits with status 0 (%s)" % serr[-200:], cs)
                                ctx.oracle(not os.path.exists(p_out), "C18.invalid.partial_file", MAIN,
                                           "missing keys, but the command line wrote an output file", cs)
                                if rc != 0:
                                    msg = serr.split("ValueError: ")[-1]
                                    judge_missing(ctx, msg, combo, keys, MAIN, cs)
                            cli.launch([sys.executable, "-m", "ladim_plugins.release", p_in, p_out], then)
                    else:
                        ctx.oracle(err is None, "C18.valid.rejected", SITE + "::load_config", "complete configuration rejected: %r" % err, cs)
                    if drv.available:
                        pend.append((drv.ask("table.validate", kind), err, combo, cs))
        # ... the same over what else the groups hold (above: always one attribute, `depth`), down to the empty group
        other_keys_checks(ctx, mk, yaml, tmp, cli, drv, pend, base, keys)
        cli.drain()
        # ---- other invalid configurations (statement: rejected with an error, no partial table): a malformed date in
        # one of the groups, a document that is no mapping / list, malformed YAML.  Not in the model's driver protocol.
        def rejected(supplied_factory, pred, what, cs):
            ctx.case(key=("invalid", what, repr(cs)), nontrivial=True)
            if os.path.exists(err_out):
                os.remove(err_out)
            err = None; res = None
            try:
                res = mk.make_release(supplied_factory(), err_out)
            except (ValueError, TypeError) as e:
                err = repr(e)
            ctx.oracle(err is not None, pred, SITE + "::load_config", "%s, but a table of %s rows is returned" % (what, "?" if res is None else nrows_of(res)), cs)
            ctx.oracle(not os.path.exists(err_out), "C18.invalid.partial_file", SITE + "::make_release", "%s (error %r) but an output file was written" % (what, err), cs)
        for ng in (1, 2, 3):
            for bad_at in range(ng):
                for bad in ("nodate", ["2000-01-01", "notadate"], ["2000-13-01", "2000-01-02"], "2000-01-32"):
                    groups = [dict(base, depth=1) for _ in range(ng)]
                    groups[bad_at]["date"] = bad
                    for container in (["flat", "list", "grouped"] if ng == 1 else ["list", "grouped"]):
                        if container == "flat":
                            conf = dict(groups[0], seed=1)
                        elif container == "list":
                            conf = groups
                        else:
                            conf = dict(seed=1, groups=groups)
                        cs = dict(container=container, config=conf)
                        ctx.branch("invalid.bad_date")
                        rejected(lambda: copy.deepcopy(conf), "C18.invalid.bad_date_not_rejected", "malformed date in group %d" % bad_at, cs)
                        ytext = yaml.safe_dump(conf, sort_keys=False)
                        rejected(lambda: io.StringIO(ytext), "C18.invalid.bad_date_not_rejected", "malformed date in group %d (YAML stream)" % bad_at, dict(cs, yaml=ytext))
        for doc in (123, None, 4.5, True):
            ctx.branch("invalid.non_mapping")
            rejected(lambda: doc, "C18.invalid.non_mapping_not_rejected", "the configuration is %r" % (doc,), dict(config=repr(doc)))
        for ytext in ("", "42", "just text", "null", "# only a comment\n"):
            ctx.branch("invalid.non_mapping")
            rejected(lambda: io.StringIO(ytext), "C18.invalid.non_mapping_not_rejected", "the YAML document %r is no mapping or list" % ytext, dict(yaml=ytext))
        for ytext in ("*unknown_tag", "num: [1, 2", "a: b: c", "num: 3\n\tdate: 2000-01-01", "{num: 3, date: 2000-01-01, location: [5, 60]"):
            ctx.branch("invalid.bad_yaml")
            rejected(lambda: io.StringIO(ytext), "C18.invalid.bad_yaml_not_rejected", "malformed YAML %r" % ytext, dict(yaml=ytext))
        if drv.available:
            rep = drv.run()
            for j, err, combo, cs in pend:
                st, t = rep[j]
                model_rejects = t[0] == "rejected"
                ctx.eq("load_config.accepts", err is None, not model_rejects, cs)
                if model_rejects and err and not err.startswith("OTHER"):
                    # model lists (index, missing keys); the message enumerates the same
                    mm = {int(x.split(":")[0]): x.split(":")[1].split(",") for x in t[1:]}
                    parts = err.replace("Missing parameters: ", "").split("\n  and ")
                    got = {}
                    for ptxt in parts:
                        m = re.match(r"(.*?)( in group (\d+))?$", ptxt)
                        got[int(m.group(3)) if m.group(3) else 0] = m.group(1).split(", ")
                    ctx.eq("load_config.missing_keys", got, mm, cs)
        # the table part of the containers is shared with C01 (model correspondence)
        if not getattr(ctx, "widened", False):
            saved = ctx.tier; ctx.tier = "quick"
            try:
                c01.run(ctx)
            finally:
                ctx.tier = saved
        # ---- aliasing inside a configuration: one sub-object at several places (YAML anchors / merge keys, a re-used
        # Python variable) against the same specification written out; the caller's object is not consumed
        # (last, so that the random stream of the checks above is what it was)
        alias_checks(ctx, mk, yaml, tmp, cli)
    finally:
        for p, _ in cli.pending:
            try:
                p.kill()
            except Exception:
                pass
        shutil.rmtree(tmp, ignore_errors=True)


def replay(payload):
    print("predicate:", payload.get("predicate"), "|", payload.get("detail"))
    return False
