"""generators of release configurations (shared by C01 and C18) and conversion to the driver protocol"""
import io, json, math
import numpy as np
from . import geom
from .common import F, I


def pct(s):
    out = []
    for ch in str(s):
        if ch.isalnum() and ord(ch) < 128 or ch in "-:._":
            out.append(ch)
        else:
            for b in ch.encode("utf-8") if ord(ch) < 256 else ch.encode("utf-8"):
                out.append("%%%02x" % b)
    return "".join(out) or "%00"[:0] or ""


def name_tok(s):
    t = pct(s)
    return t if t else "%"


def cell_tok(v):
    if isinstance(v, str):
        return "s" + pct(v)
    if v is None:
        return "x"
    try:
        f = float(v)
    except Exception:
        return "s" + pct(repr(v))
    if f != f:
        return "x"
    return "n" + F(f)


def frame_toks(items):
    """items: list of (name, list of values)"""
    return I(len(items)) + "".join(" %s %d %s" % (name_tok(k), len(vs), " ".join(cell_tok(v) for v in vs)) if len(vs) else " %s 0" % name_tok(k)
                                   for k, vs in items)


def gen_location(rng, yamlable=False):
    form = rng.choice(["point", "point", "poly", "multi", "offset", "geojson"])
    if form == "point":
        return form, [round(rng.uniform(-20, 30), 4), round(rng.uniform(50, 75), 4)]
    if form == "poly":
        p = geom.random_polygon(rng, rng.uniform(0, 10), rng.uniform(55, 65), 0.5)
        return form, [[x for x, y in p], [y for x, y in p]]
    if form == "multi":
        ps = [geom.random_polygon(rng, 5.0 + 3 * i, 60.0, 0.5) for i in range(rng.randrange(2, 4))]
        return form, [[[x for x, y in p] for p in ps], [[y for x, y in p] for p in ps]]
    if form == "offset":
        p = geom.random_polygon(rng, 0.0, 0.0, 100.0)
        return form, dict(center=[5.0, 60.0], offset=[[x for x, y in p], [y for x, y in p]])
    feats = []
    k = 0
    for f in range(rng.randrange(1, 4)):
        ps = []
        for q in range(rng.randrange(1, 3)):
            ps.append(geom.random_polygon(rng, 5.0 + 3 * k, 60.0, 0.5)); k += 1
        ring = lambda p: [[x, y] for x, y in p] + [[p[0][0], p[0][1]]]
        props = {}
        for name in ("region", "farmid"):
            if rng.random() < 0.7:
                props[name] = rng.choice([f + 1, 2.5 * (f + 1)])
        if rng.random() < 0.4:
            props["name"] = "farm %d" % f           # a text-valued property
        feats.append(dict(type="Feature", properties=props, geometry=dict(type="MultiPolygon", coordinates=[[ring(p)] for p in ps])))
    return form, json.dumps(dict(type="FeatureCollection", features=feats))


def gen_attr(rng, num, yamlable=False):
    k = rng.choice(["const", "list", "range", "gauss", "exp", "piece"] + ([] if yamlable else ["callable", "dotted"]))
    if k == "const":
        return rng.choice([0, 1.5, 7, -2])
    if k == "list":
        return [float(rng.randrange(0, 50)) for _ in range(num)]
    if k == "range":
        lo = rng.choice([0.0, 10.0]); return [lo, lo + rng.choice([1.0, 20.0])]
    if k == "gauss":
        return dict(distribution="gaussian", mean=rng.choice([5.0, 40.0]), std=rng.choice([1.0, 10.0]))
    if k == "exp":
        return dict(distribution="exponential", mean=rng.choice([1.0, 10.0]))
    if k == "piece":
        return dict(distribution="piecewise", knots=[0.0, 5.0, 20.0], cdf=[0.0, 0.3, 1.0])
    if k == "callable":
        return (lambda n: np.arange(n) * 3.0)
    return "numpy.arange"


def gen_date(rng):
    base = np.datetime64("2015-04-01T00:00:00") + np.timedelta64(rng.randrange(0, 10), "D") + np.timedelta64(rng.randrange(0, 24), "h")
    if rng.random() < 0.3:
        return str(base).replace("T", rng.choice(["T", " "]))
    stop = base + np.timedelta64(rng.choice([0, 3600, 86400, 7 * 86400, 100]), "s")
    return [str(base).replace("T", rng.choice(["T", " "])), str(stop)]


def gen_group(rng, g, yamlable=False, force_num=None):
    num = force_num if force_num is not None else rng.choice([0, 1, 2, 3, 5, 12, 40])
    form, loc = gen_location(rng, yamlable)
    conf = dict(num=num, date=gen_date(rng), location=loc)
    names = ["depth", "w", "age", "stage", "id2"]
    for nm in rng.sample(names, rng.randrange(0, 4)):
        conf[nm] = gen_attr(rng, num, yamlable)
    if rng.random() < 0.5:
        ex = {}
        for nm in rng.sample(["w", "len", "depth", "q"], rng.randrange(1, 3)):
            ex[nm] = gen_attr(rng, num, yamlable)
        conf["attrs"] = ex
    # non-numeric attributes (text labels, booleans): defined by some groups only
    if rng.random() < 0.3:
        conf["label"] = ["%s%d" % (rng.choice(["a", "farm ", "æ"]), i) for i in range(num)]
    if rng.random() < 0.2:
        conf.setdefault("attrs", {})["flag"] = [bool((i + g) % 2) for i in range(num)]
    # markers used by the oracle
    conf.setdefault("attrs", {})
    conf["attrs"]["grp"] = g + 1
    conf["attrs"]["tag"] = [float(g * 1000000 + i) for i in range(num)] if num != 2 else [float(g * 1000000), float(g * 1000000 + 1)]
    return form, conf


def materialise(conf):
    """fresh file-like objects for GeoJSON strings (a stream can be read only once)"""
    c = dict(conf)
    if isinstance(c["location"], str):
        c["location"] = io.StringIO(c["location"])
    return c
