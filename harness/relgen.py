"""generators of release configurations (shared by C01 and C18) and conversion to the driver protocol"""
import io, json, math
import numpy as np
from . import geom
from .common import F, I


def pct(s):
    out = []
    for ch in str(s):
        if ch.isalnum() and ord(ch) < 128 or ch in "-:._":
            out.append(ch)
        else:
            for b in ch.encode("utf-8") if ord(ch) < 256 else ch.encode("utf-8"):
                out.append("%%%02x" % b)
    return "".join(out) or "%00"[:0] or ""


def name_tok(s):
    t = pct(s)
    return t if t else "%"


def cell_tok(v):
    if isinstance(v, str):
        return "s" + pct(v)
    if v is None:
        return "x"
    try:
        f = float(v)
    except Exception:
        return "s" + pct(repr(v))
    if f != f:
        return "x"
    return "n" + F(f)


def frame_toks(items):
    """items: list of (name, list of values)"""
    return I(len(items)) + "".join(" %s %d %s" % (name_tok(k), len(vs), " ".join(cell_tok(v) for v in vs)) if len(vs) else " %s 0" % name_tok(k)
                                   for k, vs in items)


def gen_location(rng, yamlable=False, rich=False):
    """`rich` (only C01 asks for it; the draw stream and the results are unchanged without it): the same location
    forms in other accepted containers / value types (int point, tuple, numpy arrays), GeoJSON features of type
    `Polygon`, and a feature property `w` whose name is also an attribute name of the groups"""
    form, loc = _gen_location(rng, yamlable, rich)
    if rich:
        loc = _vary_location(rng, form, loc)
    return form, loc


def _gen_location(rng, yamlable=False, rich=False):
    form = rng.choice(["point", "point", "poly", "multi", "offset", "geojson"])
    if form == "point":
        return form, [round(rng.uniform(-20, 30), 4), round(rng.uniform(50, 75), 4)]
    if form == "poly":
        p = geom.random_polygon(rng, rng.uniform(0, 10), rng.uniform(55, 65), 0.5)
        return form, [[x for x, y in p], [y for x, y in p]]
    if form == "multi":
        ps = [geom.random_polygon(rng, 5.0 + 3 * i, 60.0, 0.5) for i in range(rng.randrange(2, 4))]
        return form, [[[x for x, y in p] for p in ps], [[y for x, y in p] for p in ps]]
    if form == "offset":
        p = geom.random_polygon(rng, 0.0, 0.0, 100.0)
        return form, dict(center=[5.0, 60.0], offset=[[x for x, y in p], [y for x, y in p]])
    feats = []
    k = 0
    for f in range(rng.randrange(1, 4)):
        ps = []
        for q in range(rng.randrange(1, 3)):
            ps.append(geom.random_polygon(rng, 5.0 + 3 * k, 60.0, 0.5)); k += 1
        ring = lambda p: [[x, y] for x, y in p] + [[p[0][0], p[0][1]]]
        props = {}
        for name in ("region", "farmid"):
            if rng.random() < 0.7:
                props[name] = rng.choice([f + 1, 2.5 * (f + 1)])
        if rng.random() < 0.4:
            props["name"] = "farm %d" % f           # a text-valued property
        if rich and rng.random() < 0.3:
            props["w"] = 100.0 + f                  # a property named like an attribute of the groups
        geometry = dict(type="MultiPolygon", coordinates=[[ring(p)] for p in ps])
        if rich and len(ps) == 1 and rng.random() < 0.4:
            geometry = dict(type=rng.choice(["Polygon", "polygon"]), coordinates=[ring(ps[0])])
        feats.append(dict(type="Feature", properties=props, geometry=geometry))
    return form, json.dumps(dict(type="FeatureCollection", features=feats))


def _vary_seq(rng, xs):
    """the same number sequence as list / tuple / numpy array"""
    k = rng.choice(["list", "list", "tuple", "array"])
    return xs if k == "list" else tuple(xs) if k == "tuple" else np.array(xs, dtype=float)


def _vary_location(rng, form, loc):
    if form == "point":
        k = rng.choice(["float", "float", "int", "tuple", "npfloat"])
        if k == "int":
            return [rng.randrange(-20, 30), rng.randrange(50, 75)]       # as in the documented `location: [5, 60]`
        if k == "tuple":
            return tuple(loc)
        if k == "npfloat":
            return [np.float64(loc[0]), np.float64(loc[1])]
        return loc
    if form == "poly":
        k = rng.choice(["list", "list", "seq", "array2d", "tuple"])
        if k == "seq":
            return [_vary_seq(rng, loc[0]), _vary_seq(rng, loc[1])]
        if k == "array2d":
            return np.array(loc, dtype=float)
        if k == "tuple":
            return (tuple(loc[0]), tuple(loc[1]))
        return loc
    if form == "multi":
        if rng.random() < 0.4:
            return [[_vary_seq(rng, p) for p in loc[0]], [_vary_seq(rng, p) for p in loc[1]]]
        return loc
    if form == "offset":
        d = dict(loc)
        k = rng.choice(["float", "int", "tuple"])
        if k == "int":
            d["center"] = [5, 60]
        elif k == "tuple":
            d["center"] = (5.0, 60.0)
        if rng.random() < 0.4:
            d["offset"] = [_vary_seq(rng, loc["offset"][0]), _vary_seq(rng, loc["offset"][1])]
        return d
    return loc


def gen_attr(rng, num, yamlable=False, rich=False):
    k = rng.choice(["const", "list", "range", "gauss", "exp", "piece"] + ([] if yamlable else ["callable", "dotted"]))
    if k == "const":
        v = rng.choice([0, 1.5, 7, -2])
        if rich and rng.random() < 0.2:
            v = np.float64(v)
        return v
    if k == "list":
        v = [float(rng.randrange(0, 50)) for _ in range(num)]
        return _vary_seq(rng, v) if rich else v
    if k == "range":
        lo = rng.choice([0.0, 10.0]); v = [lo, lo + rng.choice([1.0, 20.0])]
        return _vary_seq(rng, v) if rich else v
    if k == "gauss":
        return dict(distribution="gaussian", mean=rng.choice([5.0, 40.0]), std=rng.choice([1.0, 10.0]))
    if k == "exp":
        return dict(distribution="exponential", mean=rng.choice([1.0, 10.0]))
    if k == "piece":
        return dict(distribution="piecewise", knots=[0.0, 5.0, 20.0], cdf=[0.0, 0.3, 1.0])
    if k == "callable":
        return (lambda n: np.arange(n) * 3.0)
    return "numpy.arange"


def gen_date(rng, rich=False):
    base = np.datetime64("2015-04-01T00:00:00") + np.timedelta64(rng.randrange(0, 10), "D") + np.timedelta64(rng.randrange(0, 24), "h")
    if rich and rng.random() < 0.4:
        return _gen_date_typed(rng, base)
    if rng.random() < 0.3:
        return str(base).replace("T", rng.choice(["T", " "]))
    stop = base + np.timedelta64(rng.choice([0, 3600, 86400, 7 * 86400, 100]), "s")
    return [str(base).replace("T", rng.choice(["T", " "])), str(stop)]


def _gen_date_typed(rng, base):
    """the other accepted date types (C02 judges the dates themselves; here they put date strings of different
    resolution into one table): date-only strings, date / datetime objects, datetime64 of several units,
    sub-second strings; pairs as list or tuple; start and stop may be of different kinds"""
    import datetime

    def one(t):
        k = rng.choice(["day", "date", "datetime", "dt64s", "dt64ms", "dt64D", "msstr"])
        if k == "day":
            return str(t.astype("datetime64[D]"))
        if k == "date":
            return t.astype("datetime64[D]").astype(object)
        if k == "datetime":
            return (t.astype("datetime64[us]") + np.timedelta64(rng.choice([0, 500000]), "us")).astype(object)
        if k == "dt64s":
            return t.astype("datetime64[s]")
        if k == "dt64ms":
            return t.astype("datetime64[ms]") + np.timedelta64(rng.choice([0, 250]), "ms")
        if k == "dt64D":
            return t.astype("datetime64[D]")
        return str(t.astype("datetime64[ms]") + np.timedelta64(rng.choice([0, 250]), "ms"))

    if rng.random() < 0.3:
        return one(base)
    # the stop is at least a day later, so that truncating either end to its day keeps start <= stop
    stop = base + np.timedelta64(rng.choice([1, 2, 7]), "D") + np.timedelta64(rng.choice([0, 3600, 100]), "s")
    pair = [one(base), one(stop)]
    return tuple(pair) if rng.random() < 0.3 else pair


def gen_group(rng, g, yamlable=False, force_num=None, rich=False):
    """`rich` (C01 only): other value / container types, a numpy integer `num`, the oracle's markers as implicit
    attributes (then possibly no `attrs` mapping at all), attributes named like GeoJSON feature properties"""
    num = force_num if force_num is not None else rng.choice([0, 1, 2, 3, 5, 12, 40])
    if rich and rng.random() < 0.1:
        num = np.int64(num)
    form, loc = gen_location(rng, yamlable, rich) if rich else gen_location(rng, yamlable)
    conf = dict(num=num, date=gen_date(rng, rich) if rich else gen_date(rng), location=loc)
    ga = (lambda: gen_attr(rng, num, yamlable, rich)) if rich else (lambda: gen_attr(rng, num, yamlable))
    names = ["depth", "w", "age", "stage", "id2"]
    for nm in rng.sample(names, rng.randrange(0, 4)):
        conf[nm] = ga()
    if rng.random() < 0.5:
        ex = {}
        for nm in rng.sample(["w", "len", "depth", "q"], rng.randrange(1, 3)):
            ex[nm] = ga()
        conf["attrs"] = ex
    # non-numeric attributes (text labels, booleans): defined by some groups only
    if rng.random() < 0.3:
        conf["label"] = ["%s%d" % (rng.choice(["a", "farm ", "æ"]), i) for i in range(num)]
    if rng.random() < 0.2:
        conf.setdefault("attrs", {})["flag"] = [bool((i + g) % 2) for i in range(num)]
    if rich and rng.random() < 0.25:
        # an attribute with the name of a GeoJSON feature property (config-defined, in any kind of group)
        nm = rng.choice(["region", "farmid"])
        if rng.random() < 0.5:
            conf[nm] = ga()
        else:
            conf.setdefault("attrs", {})[nm] = ga()
    # markers used by the oracle
    tag = [float(g * 1000000 + i) for i in range(num)] if num != 2 else [float(g * 1000000), float(g * 1000000 + 1)]
    if rich and rng.random() < 0.5:
        conf["grp"] = g + 1                     # implicit markers; a group without explicit attributes has no `attrs`
        conf["tag"] = tag
        return form, conf
    conf.setdefault("attrs", {})
    conf["attrs"]["grp"] = g + 1
    conf["attrs"]["tag"] = tag
    return form, conf


def geojson_props(conf):
    """names of the feature properties a group's GeoJSON location brings along (empty for the other forms)"""
    loc = conf.get("location")
    if not isinstance(loc, str):
        return set()
    data = json.loads(loc)
    layer = data if isinstance(data, dict) else data[0]
    out = set()
    for f in layer["features"]:
        out |= set((f.get("properties") or {}).keys())
    return out


def materialise(conf):
    """fresh file-like objects for GeoJSON strings (a stream can be read only once)"""
    c = dict(conf)
    if isinstance(c["location"], str):
        c["location"] = io.StringIO(c["location"])
    return c
