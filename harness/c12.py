"""C12 — the fish velocity field leads every reachable sea cell to the open ocean.

Correspondence: real `vps.ibm.fjord_index` and `descent` on random land/sea masks against the Lean
model (`Fjord.fjordIndex`, `descentDir`).  Oracle on the implementation: the fjord index equals an
independently computed BFS distance; following the velocity served by the real
`vps.gridforce.Forcing.fish_velocity` *as the tracker uses it* (X += u, Y += v) lowers the index by
one per cell, never enters land or leaves the grid and ends on the ocean with zero velocity."""
import importlib, itertools
from collections import deque
import numpy as np
from .common import Driver, I
from .stubs import Obj

RULE = ("land/sea masks: exhaustively all masks of a 3x4 grid (quick: ocean distance 1..2; thorough: 1..3), random masks up to "
        "14x14 with land fractions 0.1..0.6, fjord-like channels and closed basins, ocean distances 1..4; random depth-first mazes and serpentines of one-cell-wide corridors up to 13x13 (+ open-sea strip) whose sea paths exceed rows+columns; every sea cell as start; sub-grid offsets i0 in {0,1,3}, j0 in {0,1,2}. "
        "Non-trivial: mask with at least one land and one sea cell.")
ASSUMPTIONS = ["scipy generic_filter / binary_dilation are modelled by their documented semantics and checked against the real calls here"]
SITE = "ladim_plugins/vps/gridforce.py::_compute_fish_velocity"


def bfs_reference(land, d):
    """independent reference: ocean = sea cells farther than d-1 binary dilations from land; 4-connected BFS through sea"""
    land = np.asarray(land, bool)
    r, c = land.shape
    not_ocean = land.copy()
    it = d - 1
    def dil(a):
        b = a.copy()
        b[1:, :] |= a[:-1, :]; b[:-1, :] |= a[1:, :]; b[:, 1:] |= a[:, :-1]; b[:, :-1] |= a[:, 1:]
        return b
    if it < 1:
        while True:
            n2 = dil(not_ocean)
            if (n2 == not_ocean).all(): break
            not_ocean = n2
    else:
        for _ in range(it):
            not_ocean = dil(not_ocean)
    dist = np.full(land.shape, -1, dtype=int)
    dist[land] = -2
    q = deque()
    for i in range(r):
        for j in range(c):
            if not not_ocean[i, j]:
                dist[i, j] = 0; q.append((i, j))
    while q:
        i, j = q.popleft()
        for di, dj in ((1, 0), (-1, 0), (0, 1), (0, -1)):
            a, b = i + di, j + dj
            if 0 <= a < r and 0 <= b < c and dist[a, b] == -1:
                dist[a, b] = dist[i, j] + 1; q.append((a, b))
    return dist


def gen_mask(rng):
    r = rng.randrange(2, 15); c = rng.randrange(2, 15)
    p = rng.choice([0.1, 0.25, 0.4, 0.6])
    m = np.array([[1 if rng.random() < p else 0 for _ in range(c)] for _ in range(r)])
    if rng.random() < 0.4:      # fjord: land block with a channel
        m[:, : c // 2] = 1
        row = rng.randrange(r)
        m[row, : c // 2] = 0
    return m


def gen_maze(rng, d):
    """a winding fjord system: a random depth-first maze of one-cell-wide sea corridors in a land block with one
    mouth, opening on a strip of open sea; the sea path from the innermost cells is much longer than rows + columns"""
    a = rng.randrange(2, 7); b = rng.randrange(2, 7)
    R, C = 2 * a + 1, 2 * b + 1
    m = np.ones((R, C), dtype=int)
    seen = {(0, 0)}; stack = [(0, 0)]; m[1, 1] = 0
    while stack:
        i, j = stack[-1]
        nb = [(i + di, j + dj) for di, dj in ((1, 0), (-1, 0), (0, 1), (0, -1)) if 0 <= i + di < a and 0 <= j + dj < b and (i + di, j + dj) not in seen]
        if not nb:
            stack.pop(); continue
        k = rng.choice(nb)
        m[i + k[0] + 1, j + k[1] + 1] = 0; m[2 * k[0] + 1, 2 * k[1] + 1] = 0
        seen.add(k); stack.append(k)
    if rng.random() < 0.3:      # a pure serpentine instead of a branching maze
        m[:] = 1
        for i in range(a):
            m[2 * i + 1, 1:C - 1] = 0
            if i + 1 < a:
                m[2 * i + 2, (C - 2) if i % 2 == 0 else 1] = 0
    mouth = 2 * rng.randrange(a) + 1
    m[mouth, C - 1] = 0
    sea = np.zeros((R, 2 * d + rng.randrange(1, 3)), dtype=int)
    m = np.concatenate([m, sea], axis=1)
    if rng.random() < 0.5:
        m = m.T.copy()
    if rng.random() < 0.5:
        m = m[::-1, ::-1].copy()
    return m


def check_mask(ctx, drv, pend, V, G, land, d, exhaustive=False):
    cs = dict(land=land.tolist(), ocean_dist=d)
    ctx.case(key=(land.tobytes(), land.shape, d), nontrivial=bool(land.any() and not land.all()))
    fi = V.fjord_index(land, d)
    ref = bfs_reference(land, d)
    ctx.oracle(np.array_equal(fi, ref), "C12.fjord_index.not_shortest_path", "ladim_plugins/vps/ibm.py::fjord_index",
               "fjord index differs from the BFS distance to the open ocean", dict(cs, got=fi.tolist(), want=ref.tolist()))
    u, v = V.descent(fi)
    # velocity as served by the forcing object
    F = object.__new__(G.Forcing)
    F._fish_u = None; F._fish_v = None; F.fish_swim_speed = 0.14; F.use_currents = False
    F.ocean_distance = d * 0.8       # km; dx = 800 m  -> d cells
    # the sub-grid offset of the LADiM grid (i0 = j0 = 1 for the real ROMS grid; any offset must be transparent)
    i0 = ctx.rng.choice([0, 1, 1, 3]); j0 = ctx.rng.choice([0, 1, 1, 2])
    F._grid = Obj(M=1 - land, i0=i0, j0=j0, dx=np.full(land.shape, 800.0))
    r, c = land.shape
    YY, XX = np.meshgrid(np.arange(r, dtype=float), np.arange(c, dtype=float), indexing="ij")
    fu, fv = F.fish_velocity(XX.ravel() + i0, YY.ravel() + j0)
    fu = np.sign(fu).reshape(r, c).astype(int); fv = np.sign(fv).reshape(r, c).astype(int)
    cs = dict(cs, i0=i0, j0=j0)
    for i in range(r):
        for j in range(c):
            n = fi[i, j]
            if n == 0:
                ctx.oracle(fu[i, j] == 0 and fv[i, j] == 0, "C12.follow.ocean_velocity_nonzero", SITE, "velocity not zero on the ocean cell (%d,%d)" % (i, j), cs)
            if n <= 0:
                continue
            def judge(a, b):
                ok = 0 <= a < r and 0 <= b < c and fi[a, b] == n - 1
                what = "leaves the grid" if not (0 <= a < r and 0 <= b < c) else ("enters land" if fi[a, b] == -2 else "index %d -> %d" % (n, fi[a, b]))
                return ok, what
            # (1) the field read in the orientation the repository's own unit tests pin for ibm.descent
            #     (v = +1 is "up" = row - 1): must lower the index by one per cell.  A failure here is NOT the known
            #     finding F-C12a.
            okp, whatp = judge(i - fv[i, j], j + fu[i, j])
            ctx.oracle(okp, "C12.follow.not_descending_in_picture_orientation", SITE,
                       "cell (row %d, col %d), index %d: velocity (u=%d, v=%d) read as (col+u, row-v) %s" % (i, j, n, fu[i, j], fv[i, j], whatp), dict(cs, cell=[i, j]))
            # (2) one tracker step in grid coordinates: X (column) += u, Y (row) += v  (the property as stated)
            ok, what = judge(i + fv[i, j], j + fu[i, j])
            ctx.oracle(ok, "C12.follow.not_descending", SITE,
                       "cell (row %d, col %d), index %d: velocity (u=%d, v=%d) %s" % (i, j, n, fu[i, j], fv[i, j], what), dict(cs, cell=[i, j]))
    if drv.available:
        toks = "%d %d %d %s" % (d, r, c, " ".join(str(int(x)) for x in land.ravel()))
        pend.append((drv.ask("fjord.index", toks), fi, u, v, cs))


def run(ctx):
    V = importlib.import_module("ladim_plugins.vps.ibm")
    G = importlib.import_module("ladim_plugins.vps.gridforce")
    drv = Driver()
    if getattr(ctx, "widened", False):
        drv.available = False
    pend = []
    # exhaustive small grids
    dists = (1, 2) if ctx.tier == "quick" else (1, 2, 3)
    step = 1 if ctx.tier == "thorough" else 7
    for bits in range(0, 2 ** 12, step):
        land = np.array([(bits >> k) & 1 for k in range(12)]).reshape(3, 4)
        for d in dists:
            check_mask(ctx, drv, pend, V, G, land, d)
            ctx.branch("exhaustive_3x4")
    for c in range(ctx.n(150, 3000)):
        land = gen_mask(ctx.rng)
        d = ctx.rng.choice([1, 2, 3, 4])
        check_mask(ctx, drv, pend, V, G, land, d)
        ctx.branch("random"); ctx.size("rows", land.shape[0])
    for c in range(ctx.n(40, 600)):
        d = ctx.rng.choice([1, 2, 3])
        land = gen_maze(ctx.rng, d)
        check_mask(ctx, drv, pend, V, G, land, d)
        ctx.branch("maze"); ctx.size("rows", land.shape[0])
        ctx.size("max_index_over_rows_plus_cols", int(bfs_reference(land, d).max() > sum(land.shape)))
    if drv.available:
        rep = drv.run()
        UO = {0: 0, 1: -1, 2: 1, 3: 0, 4: 0}; VO = {0: 0, 1: 0, 2: 0, 3: -1, 4: 1}
        for j, fi, u, v, cs in pend:
            st, t = rep[j]
            if st != "ok":
                ctx.disagreement("fjord.index", "driver error %r" % (t,), cs); continue
            k = t.index("|")
            mfi = np.array([int(x) for x in t[:k]]).reshape(fi.shape)
            mdir = np.array([int(x) for x in t[k + 1:]]).reshape(fi.shape)
            ctx.eq("fjord_index", fi.tolist(), mfi.tolist(), cs)
            ctx.eq("descent.u", np.asarray(u).astype(int).tolist(), np.vectorize(UO.get)(mdir).tolist(), cs)
            ctx.eq("descent.v", np.asarray(v).astype(int).tolist(), np.vectorize(VO.get)(mdir).tolist(), cs)


def replay(payload):
    print("predicate:", payload.get("predicate"), "|", payload.get("detail"))
    return False
