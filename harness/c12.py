"""C12 — the fish velocity field leads every reachable sea cell to the open ocean.

Correspondence: real `vps.ibm.fjord_index` and `descent` on random land/sea masks against the Lean
model (`Fjord.fjordIndex`, `descentDir`).  Oracle on the implementation: the fjord index equals an
independently computed BFS distance; following the velocity served by the real
`vps.gridforce.Forcing.fish_velocity` *as the tracker uses it* (X += u, Y += v) lowers the index by
one per cell, never enters land or leaves the grid and ends on the ocean with zero velocity."""
import importlib, itertools, math, os, shutil, tempfile
from collections import deque
from fractions import Fraction
import numpy as np
from .common import Driver, I
from .stubs import Obj, real_state
from . import romsfile

RULE = ("land/sea masks: exhaustively all masks of a 3x4 grid (quick: ocean distance 1..2; thorough: 1..3), random masks up to "
        "14x14 with land fractions 0.1..0.6, fjord-like channels and closed basins, ocean distances 1..4; random depth-first mazes and serpentines of one-cell-wide corridors up to 13x13 (+ open-sea strip) whose sea paths exceed rows+columns; every sea cell as start; sub-grid offsets i0 in {0,1,3}, j0 in {0,1,2}. "
        "Added in the coverage review: ocean distance 0 and one-cell-thin grids (1xN, Nx1, 1x1); a second Forcing per mask whose grid has "
        "non-uniform dx (dx[0,0] in {160, 800, 4000} m, other cells different) and an ocean distance in km that is not a whole number of cells "
        "((d + delta) cells, delta in {-0.45,-0.2,0,0.3,0.45}, no ties); positions anywhere inside a cell (centre +- up to 0.49) in the lookup; "
        "multi-step paths stepped as the tracker does (X += u*dt/dx with dt/dx giving 0.105, 0.3 or 0.45 cells per step) from off-centre "
        "starts in every reachable sea cell, in picture and in tracker orientation; the real IBM.update_ibm under the real LADiM State with one "
        "fish per cell (X != Y) against the real Forcing; Forcing.velocity (the tracker's entry point); Forcing objects built by the real "
        "constructors from synthetic ROMS files with sub-grids, non-uniform pm and ocean_distance given or left at its default. "
        "Added for long ways to the ocean (largest index about 120..330, on both sides of 127/128 and 255/256; every run starts with a closed "
        "straight fjord of 140..200 cells): by the mask - straight one-cell fjords of 122..320 cells in grids of 2..5 rows (closed or between "
        "two basins, with side arms / ponds), serpentines of 2..8 corridors, depth-first mazes of 8..13 x 8..13 rooms, inward spirals in "
        "17..27-cell squares, fjords 2..3 cells wide with skerries under ocean distance 3..4 - and by the ocean distance - distances of "
        "123..321 cells on 1..3-row open grids with land at one end (also grids too short to hold any ocean), distances 5..20 on 20..40-square "
        "coasts; all in any of the 8 orientations; the mask handed over as int64/int32/int16/int8/uint8/bool/float64/float32 (also for "
        "small random and thin masks, ocean distances 0..9); the same long masks through the real Grid/Forcing constructors with "
        "ocean_distance configured or left at its default of 10 km on cells of 10 km/d (d in {125,128,160,200,250}); on these and on all "
        "real-constructor cases the paths (0.45 cells per step) and IBM.update_ibm's retirement are judged with the independent BFS index. "
        "An index beyond 32767 (16-bit) is not generated (the package's flood fill would need > 10^9 Python callbacks). "
        "Non-trivial: mask with at least one land and one sea cell.")
ASSUMPTIONS = ["scipy generic_filter / binary_dilation are modelled by their documented semantics and checked against the real calls here"]
SITE = "ladim_plugins/vps/gridforce.py::_compute_fish_velocity"
SITE_LOOKUP = "ladim_plugins/vps/gridforce.py::Forcing.fish_velocity"
SITE_VEL = "ladim_plugins/vps/gridforce.py::Forcing.velocity"
SITE_CELLS = "ladim_plugins/vps/gridforce.py::Forcing._ocean_dist_cells"
SITE_INIT = "ladim_plugins/vps/gridforce.py::Forcing.__init__"
SITE_FI = "ladim_plugins/vps/ibm.py::fjord_index"
SITE_IBM = "ladim_plugins/vps/ibm.py::IBM.update_ibm"
SPEED = 0.14


def bfs_reference(land, d):
    """independent reference: ocean = sea cells farther than d-1 binary dilations from land; 4-connected BFS through sea"""
    land = np.asarray(land, bool)
    r, c = land.shape
    not_ocean = land.copy()
    it = d - 1
    def dil(a):
        b = a.copy()
        b[1:, :] |= a[:-1, :]; b[:-1, :] |= a[1:, :]; b[:, 1:] |= a[:, :-1]; b[:, :-1] |= a[:, 1:]
        return b
    # open ocean = sea cells at taxicab distance >= d from land: d - 1 dilations, none for d <= 1
    # (this reference used to emulate scipy's "iterations < 1 = until no change", which hid the defect repaired by
    # the fix: commit 8d30123)
    for _ in range(max(it, 0)):
        not_ocean = dil(not_ocean)
    dist = np.full(land.shape, -1, dtype=int)
    dist[land] = -2
    q = deque()
    for i in range(r):
        for j in range(c):
            if not not_ocean[i, j]:
                dist[i, j] = 0; q.append((i, j))
    while q:
        i, j = q.popleft()
        for di, dj in ((1, 0), (-1, 0), (0, 1), (0, -1)):
            a, b = i + di, j + dj
            if 0 <= a < r and 0 <= b < c and dist[a, b] == -1:
                dist[a, b] = dist[i, j] + 1; q.append((a, b))
    return dist


def gen_mask(rng):
    r = rng.randrange(2, 15); c = rng.randrange(2, 15)
    p = rng.choice([0.1, 0.25, 0.4, 0.6])
    m = np.array([[1 if rng.random() < p else 0 for _ in range(c)] for _ in range(r)])
    if rng.random() < 0.4:      # fjord: land block with a channel
        m[:, : c // 2] = 1
        row = rng.randrange(r)
        m[row, : c // 2] = 0
    return m


def gen_maze(rng, d):
    """a winding fjord system: a random depth-first maze of one-cell-wide sea corridors in a land block with one
    mouth, opening on a strip of open sea; the sea path from the innermost cells is much longer than rows + columns"""
    a = rng.randrange(2, 7); b = rng.randrange(2, 7)
    R, C = 2 * a + 1, 2 * b + 1
    m = np.ones((R, C), dtype=int)
    seen = {(0, 0)}; stack = [(0, 0)]; m[1, 1] = 0
    while stack:
        i, j = stack[-1]
        nb = [(i + di, j + dj) for di, dj in ((1, 0), (-1, 0), (0, 1), (0, -1)) if 0 <= i + di < a and 0 <= j + dj < b and (i + di, j + dj) not in seen]
        if not nb:
            stack.pop(); continue
        k = rng.choice(nb)
        m[i + k[0] + 1, j + k[1] + 1] = 0; m[2 * k[0] + 1, 2 * k[1] + 1] = 0
        seen.add(k); stack.append(k)
    if rng.random() < 0.3:      # a pure serpentine instead of a branching maze
        m[:] = 1
        for i in range(a):
            m[2 * i + 1, 1:C - 1] = 0
            if i + 1 < a:
                m[2 * i + 2, (C - 2) if i % 2 == 0 else 1] = 0
    mouth = 2 * rng.randrange(a) + 1
    m[mouth, C - 1] = 0
    sea = np.zeros((R, 2 * d + rng.randrange(1, 3)), dtype=int)
    m = np.concatenate([m, sea], axis=1)
    if rng.random() < 0.5:
        m = m.T.copy()
    if rng.random() < 0.5:
        m = m[::-1, ::-1].copy()
    return m


def gen_thin(rng):
    """one-cell-thin grids (a single row, a single column, a single cell)"""
    k = rng.choice([1, 1, 2, 3, 5, 8, 12])
    p = rng.choice([0.0, 0.15, 0.3])
    m = np.array([[1 if rng.random() < p else 0 for _ in range(k)]])
    if rng.random() < 0.3 and k > 2:
        m[0, rng.randrange(k)] = 1
    return m.T.copy() if rng.random() < 0.5 else m


# ---------------------------------------------------------------------------------------------------------------------
# Long ways to the ocean: masks whose largest fjord index is of the order of 10^2 (beyond 127 and beyond 255, i.e. beyond
# what a signed / unsigned 8-bit counter holds), reached through BOTH quantified dimensions that make the index large:
# the mask (long / winding / wide fjords) and the ocean distance (a wide coastal zone on an open grid).  A 16-bit counter
# (index > 32767) is out of reach: the package's flood fill costs (cells x index) Python callbacks (> 10^9 there).
LONG_LEN_QUICK = [122, 125, 126, 127, 128, 129, 130, 140, 160, 200, 254, 256]
LONG_LEN_THOROUGH = LONG_LEN_QUICK + [131, 180, 252, 253, 255, 257, 258, 280, 320]
MASK_DTYPES = ["int64", "int64", "int32", "int8", "uint8", "bool", "float64", "float32", "int16"]


def _orient(rng, m):
    """any of the 8 orientations of the picture"""
    if rng.random() < 0.5:
        m = m.T
    if rng.random() < 0.5:
        m = m[::-1, :]
    if rng.random() < 0.5:
        m = m[:, ::-1]
    return np.ascontiguousarray(m)


def _with_basin(rng, block, d, mouth_row):
    """put an open-sea basin of d .. d+2 columns (all rows) to the left of a land block whose mouth is the sea cell
    block[mouth_row, 0]: the basin's outermost column is at least d cells from any land, so an open ocean exists for d >= 1"""
    basin = np.zeros((block.shape[0], max(d, 1) + rng.randrange(0, 3)), dtype=int)
    return np.concatenate([basin, block], axis=1)


def gen_long_straight(rng, d, L, closed=None):
    """a straight fjord of L cells, one cell wide, in a grid of 2..5 rows (the fjord may run along the grid edge), closed at
    its end or opening on a second basin; a few extra sea cells (side arms, isolated ponds = unknown basins)"""
    R = rng.choice([2, 3, 3, 4, 5])
    row = rng.randrange(R)
    block = np.ones((R, L + 1), dtype=int)
    block[row, :L] = 0
    closed = (rng.random() < 0.75) if closed is None else closed
    if not closed:
        block[row, L] = 0
    for _ in range(rng.choice([0, 0, 1, 3, 6])):
        block[rng.randrange(R), rng.randrange(L + 1)] = 0
    m = _with_basin(rng, block, d, row)
    if not closed:
        m = np.concatenate([m, np.zeros((R, max(d, 1) + rng.randrange(0, 2)), dtype=int)], axis=1)
    return _orient(rng, m)


def gen_long_serpentine(rng, d, target):
    """a serpentine of `a` one-cell-wide corridors of w cells with the mouth at the end of the first one: the sea path
    from the innermost cell is about a*(w+1) >= target cells"""
    a = rng.randrange(2, 9)
    w = max(3, -(-target // a))
    R, C = 2 * a + 1, w + 2
    block = np.ones((R, C), dtype=int)
    for i in range(a):
        block[2 * i + 1, 1:w + 1] = 0
        if i + 1 < a:
            block[2 * i + 2, w if i % 2 == 0 else 1] = 0
    block[1, 0] = 0
    if rng.random() < 0.3:          # a second mouth at the far end: the innermost cell is in the middle
        block[2 * a - 1, 0 if a % 2 == 0 else C - 1] = 0
    return _orient(rng, _with_basin(rng, block, d, 1))


def gen_long_maze(rng, d):
    """a depth-first maze of one-cell-wide corridors, 8..13 x 8..13 rooms (17x17 .. 27x27 cells), one mouth"""
    a = rng.randrange(8, 14); b = rng.randrange(8, 14)
    R, C = 2 * a + 1, 2 * b + 1
    block = np.ones((R, C), dtype=int)
    start = (rng.randrange(a), 0)
    seen = {start}; stack = [start]; block[2 * start[0] + 1, 1] = 0
    while stack:
        i, j = stack[-1]
        nb = [(i + di, j + dj) for di, dj in ((1, 0), (-1, 0), (0, 1), (0, -1)) if 0 <= i + di < a and 0 <= j + dj < b and (i + di, j + dj) not in seen]
        if not nb:
            stack.pop(); continue
        k = rng.choice(nb)
        block[i + k[0] + 1, j + k[1] + 1] = 0; block[2 * k[0] + 1, 2 * k[1] + 1] = 0
        seen.add(k); stack.append(k)
    block[2 * start[0] + 1, 0] = 0
    return _orient(rng, _with_basin(rng, block, d, 2 * start[0] + 1))


def gen_long_spiral(rng, d, n):
    """a one-cell-wide corridor spiralling inwards in an n x n land block (walk straight while the cell two ahead is land,
    else turn right)"""
    block = np.ones((n, n), dtype=int)
    i, j = 1, 1; di, dj = 0, 1
    block[1, 0] = 0; block[1, 1] = 0
    while True:
        moved = False
        for _ in range(2):
            a, b = i + di, j + dj; a2, b2 = i + 2 * di, j + 2 * dj
            if 1 <= a <= n - 2 and 1 <= b <= n - 2 and block[a, b] == 1 and not (0 <= a2 < n and 0 <= b2 < n and block[a2, b2] == 0):
                i, j = a, b; block[i, j] = 0; moved = True
                break
            di, dj = dj, -di
        if not moved:
            break
    return _orient(rng, _with_basin(rng, block, d, 1))


def gen_long_wide(rng, d, L):
    """a fjord 2 or 3 cells wide and L cells long whose every cell is closer than d cells to land (d >= 3), with bends of
    the coast line (single land cells in the fjord), on a basin tall and wide enough to hold open ocean"""
    w = rng.choice([2, 3])
    R = 2 * d + 3
    top = rng.randrange(1, R - w)
    block = np.ones((R, L + 1), dtype=int)
    block[top:top + w, :L] = 0
    for _ in range(rng.choice([0, 2, 5])):      # skerries / narrows (two in one column of a 2-wide fjord close it: a basin without a path)
        block[top + rng.randrange(w), rng.randrange(2, L)] = 1
    basin = np.zeros((R, 2 * d + 1 + rng.randrange(0, 2)), dtype=int)
    return _orient(rng, np.concatenate([basin, block], axis=1))


def gen_big_distance(rng, d):
    """a LARGE ocean distance (a coastal zone of d cells) on a thin or small open grid with land at one end: the cell next
    to the land is d - 1 cells from the open ocean (no fjord needed).  Grids shorter than d have no open ocean at all."""
    R = rng.choice([1, 1, 2, 3])
    N = d + (rng.randrange(2, 12) if rng.random() < 0.85 else -rng.randrange(1, 10))
    m = np.zeros((R, max(N, 2)), dtype=int)
    if rng.random() < 0.6:
        m[:, 0] = 1
    else:
        m[rng.randrange(R), 0] = 1
    for _ in range(rng.choice([0, 0, 1, 2])):   # a skerry in the coastal zone: obstacle on the way out
        m[rng.randrange(R), rng.randrange(1, min(6, m.shape[1]))] = 1
    return _orient(rng, m)


def gen_mid_distance(rng, d):
    """ocean distances 5 .. 20 on a mid-size grid (20..40 square) with a coast line and a few islands"""
    r = rng.randrange(20, 41); c = rng.randrange(20, 41)
    m = np.zeros((r, c), dtype=int)
    m[:, : rng.randrange(1, 4)] = 1
    for _ in range(rng.randrange(0, 6)):
        m[rng.randrange(r), rng.randrange(c // 2)] = 1
    if rng.random() < 0.5:          # a fjord cut into the coast
        m[:, : c // 3] = 1; m[rng.randrange(r), : c // 3] = 0
    return _orient(rng, m)


LONG_KINDS = ["straight", "big_distance", "serpentine", "maze", "straight", "spiral", "wide", "big_distance", "mid_distance"]


def gen_long(ctx, kind, first):
    """(land, d) of the family `kind`; `first`: the first case of a run is a closed straight fjord of 140..200 cells (every
    run, whatever the seed, has an index beyond 127)"""
    rng = ctx.rng
    lens = LONG_LEN_QUICK if ctx.tier == "quick" else LONG_LEN_THOROUGH
    if kind == "straight":
        d = rng.choice([2, 2, 3, 4])
        land = gen_long_straight(rng, d, rng.choice([140, 160, 200]), closed=True) if first else gen_long_straight(rng, d, rng.choice(lens))
    elif kind == "serpentine":
        d = rng.choice([2, 2, 3])
        land = gen_long_serpentine(rng, d, rng.choice(lens))
    elif kind == "maze":
        d = rng.choice([2, 2, 3])
        land = gen_long_maze(rng, d)
    elif kind == "spiral":
        d = rng.choice([2, 2, 3])
        land = gen_long_spiral(rng, d, rng.choice([17, 19, 21, 23] if ctx.tier == "quick" else [17, 19, 21, 23, 25, 27]))
    elif kind == "wide":
        d = rng.choice([3, 4])
        land = gen_long_wide(rng, d, rng.choice([x for x in lens if x <= 260]))
    elif kind == "big_distance":
        d = rng.choice([x + 1 for x in lens])
        land = gen_big_distance(rng, d)
    else:
        d = rng.randrange(5, 21)
        land = gen_mid_distance(rng, d)
    return land.astype(rng.choice(MASK_DTYPES)), d


def land_distance(land):
    """taxicab distance of every cell to the nearest land cell (multi-source BFS over the whole grid; land itself 0;
    a grid without land: a number larger than any ocean distance used here)"""
    land = np.asarray(land, bool)
    r, c = land.shape
    BIG = 10 ** 6
    dist = np.full(land.shape, BIG, dtype=int)
    q = deque()
    for i in range(r):
        for j in range(c):
            if land[i, j]:
                dist[i, j] = 0; q.append((i, j))
    while q:
        i, j = q.popleft()
        for di, dj in ((1, 0), (-1, 0), (0, 1), (0, -1)):
            a, b = i + di, j + dj
            if 0 <= a < r and 0 <= b < c and dist[a, b] == BIG:
                dist[a, b] = dist[i, j] + 1; q.append((a, b))
    return dist


def check_ocean_region(ctx, fi, land, d, cs):
    """the open-ocean region by its definition in the statement, without reference to how the implementation obtains it
    (no emulation of scipy's `iterations` argument): a sea cell strictly farther than `d` cells from land IS ocean
    (index 0) and a sea cell closer than `d` cells to land is NOT.  Cells at exactly `d` are not judged here (the
    repository's unit test pins them as ocean; for d >= 2 they are covered by C12.fjord_index.not_shortest_path)."""
    dl = land_distance(land)
    sea = ~np.asarray(land, bool)
    far = sea & (dl > d) & (fi != 0)
    if far.any():
        i, j = [int(x[0]) for x in np.nonzero(far)]
        ctx.oracle(False, "C12.fjord_index.far_cell_not_ocean", SITE_FI,
                   "sea cell (row %d, col %d) is %d cells from the nearest land (> ocean distance %d) but its fjord index is %d, not 0"
                   % (i, j, dl[i, j], d, fi[i, j]), dict(cs, cell=[i, j], got=fi.tolist()))
    near = sea & (dl < d) & (fi == 0)
    if near.any():
        i, j = [int(x[0]) for x in np.nonzero(near)]
        ctx.oracle(False, "C12.fjord_index.near_cell_is_ocean", SITE_FI,
                   "sea cell (row %d, col %d) is only %d cells from land (< ocean distance %d) but counts as open ocean"
                   % (i, j, dl[i, j], d), dict(cs, cell=[i, j], got=fi.tolist()))


def new_forcing(G, land, i0, j0, km, dx, speed=SPEED):
    F = object.__new__(G.Forcing)
    F._fish_u = None; F._fish_v = None; F.fish_swim_speed = speed; F.use_currents = False
    F.ocean_distance = km
    F._grid = Obj(M=1 - land, i0=i0, j0=j0, dx=dx)
    return F


def nearest_cells(km, dx00):
    """the whole number of cells nearest to `km` kilometres on cells of `dx00` metres, in exact rational arithmetic;
    None on an exact tie (not generated)"""
    q = Fraction(km) / (Fraction(dx00) / 1000)
    lo = math.floor(q)
    if q - lo == Fraction(1, 2):
        return None
    return lo if q - lo < Fraction(1, 2) else lo + 1


def follow_paths(F, fi, i0, j0, k, vsign, offs):
    """step every fish as the tracker does, X += u*k, Y += vsign*v*k (k = dt/dx in s/m; vsign = +1: grid coordinates
    as the tracker uses them, -1: the picture orientation of ibm.descent), starting off-centre in every sea cell with a
    positive index.  The cell of a position is the nearest grid point.  Returns {start cell: what went wrong}: each change
    of cell must lower the index by exactly one, never enter land / an unknown basin or leave the grid, the velocity
    must not vanish before the ocean and must vanish on the ocean, which must be reached."""
    r, c = fi.shape
    rows, cols = np.nonzero(fi > 0)
    nf = len(rows)
    bad = {}
    if nf == 0:
        return bad
    x = cols + float(i0) + offs[0][:nf]; y = rows + float(j0) + offs[1][:nf]
    cur_r = rows.copy(); cur_c = cols.copy(); cur_n = fi[rows, cols].astype(int)
    active = np.ones(nf, bool)

    def fail(mask, msg):
        for f in np.nonzero(mask)[0]:
            bad[(int(rows[f]), int(cols[f]))] = msg(f)
        active[mask] = False

    step = abs(k) * SPEED
    # the budget only bounds the loop: twice the number of steps the longest path needs at the nominal speed
    budget = 2 * int(math.ceil((int(cur_n.max()) + 2) / step)) + 10
    for _ in range(budget):
        if not active.any():
            break
        u, v = F.fish_velocity(x.copy(), y.copy())
        u = np.asarray(u, float); v = np.asarray(v, float)
        zero = (u == 0) & (v == 0)
        on_ocean = active & (cur_n == 0)
        fail(on_ocean & ~zero, lambda f: "velocity (%r, %r) on the ocean cell (row %d, col %d)" % (u[f], v[f], cur_r[f], cur_c[f]))
        active[on_ocean & zero] = False          # arrived: the fish is retired
        fail(active & zero, lambda f: "velocity vanishes at index %d in cell (row %d, col %d): the fish is retired before the ocean" % (cur_n[f], cur_r[f], cur_c[f]))
        x = np.where(active, x + u * k, x); y = np.where(active, y + vsign * v * k, y)
        with np.errstate(all="ignore"):
            ncol = np.round(x - i0); nrow = np.round(y - j0)
        inside = np.isfinite(ncol) & np.isfinite(nrow) & (ncol >= 0) & (ncol < c) & (nrow >= 0) & (nrow < r)
        fail(active & ~inside, lambda f: "leaves the grid from cell (row %d, col %d), index %d, at X-i0=%r, Y-j0=%r" % (cur_r[f], cur_c[f], cur_n[f], x[f] - i0, y[f] - j0))
        nc = np.where(inside, ncol, 0).astype(int); nr = np.where(inside, nrow, 0).astype(int)
        changed = active & ((nc != cur_c) | (nr != cur_r))
        newn = fi[nr, nc]
        fail(changed & (newn != cur_n - 1),
             lambda f: "from cell (row %d, col %d), index %d, %s" % (cur_r[f], cur_c[f], cur_n[f],
                       "enters land at (row %d, col %d)" % (nr[f], nc[f]) if newn[f] == -2 else
                       "enters the unknown basin cell (row %d, col %d)" % (nr[f], nc[f]) if newn[f] == -1 else
                       "moves to cell (row %d, col %d) with index %d" % (nr[f], nc[f], newn[f])))
        ok = changed & active
        cur_r[ok] = nr[ok]; cur_c[ok] = nc[ok]; cur_n[ok] = newn[ok]
    fail(active.copy(), lambda f: "does not reach the ocean within %d steps (at cell (row %d, col %d), index %d)" % (budget, cur_r[f], cur_c[f], cur_n[f]))
    return bad


def judge_cells(ctx, fi, fu, fv, cs):
    """one step from every cell centre (fu, fv: signs of the served velocity)"""
    r, c = fi.shape
    for i in range(r):
        for j in range(c):
            n = fi[i, j]
            if n == 0:
                ctx.oracle(fu[i, j] == 0 and fv[i, j] == 0, "C12.follow.ocean_velocity_nonzero", SITE, "velocity not zero on the ocean cell (%d,%d)" % (i, j), cs)
            if n <= 0:
                continue
            def judge(a, b):
                ok = 0 <= a < r and 0 <= b < c and fi[a, b] == n - 1
                what = "leaves the grid" if not (0 <= a < r and 0 <= b < c) else ("enters land" if fi[a, b] == -2 else "index %d -> %d" % (n, fi[a, b]))
                return ok, what
            # (1) the field read in the orientation the repository's own unit tests pin for ibm.descent
            #     (v = +1 is "up" = row - 1): must lower the index by one per cell.  A failure here is NOT the known
            #     finding F-C12a.
            okp, whatp = judge(i - fv[i, j], j + fu[i, j])
            ctx.oracle(okp, "C12.follow.not_descending_in_picture_orientation", SITE,
                       "cell (row %d, col %d), index %d: velocity (u=%d, v=%d) read as (col+u, row-v) %s" % (i, j, n, fu[i, j], fv[i, j], whatp), dict(cs, cell=[i, j]))
            # (2) one tracker step in grid coordinates: X (column) += u, Y (row) += v  (the property as stated)
            ok, what = judge(i + fv[i, j], j + fu[i, j])
            ctx.oracle(ok, "C12.follow.not_descending", SITE,
                       "cell (row %d, col %d), index %d: velocity (u=%d, v=%d) %s" % (i, j, n, fu[i, j], fv[i, j], what), dict(cs, cell=[i, j]))


WITHIN = [(0.49, 0.0), (-0.49, 0.0), (0.0, 0.49), (0.0, -0.49), (0.49, 0.49), (-0.49, -0.49), (0.3, -0.3), (-0.25, 0.4), (0.125, 0.0), (0.0, -0.375)]


def served_checks(ctx, V, F, land, fi, u, v, fu_raw, fv_raw, i0, j0, cs, deep):
    """oracles on the field as served by a Forcing object (stub grid or real grid) that hold regardless of F-C12a, and
    the multi-step paths"""
    r, c = fi.shape
    YY, XX = np.meshgrid(np.arange(r, dtype=float), np.arange(c, dtype=float), indexing="ij")
    X0 = XX.ravel() + i0; Y0 = YY.ravel() + j0
    # ---- the velocity served at a cell centre is the descent direction of the fjord index of that cell times the swimming
    #      speed (anchor: "u, v looked up at [round(Y)-j0, round(X)-i0]"); u * speed is the operation of the
    #      implementation, so the comparison is exact.  This ties the served field to fjord_index/descent, which are what the
    #      Lean model is compared with (also on land and in unknown basins).
    speed = F.fish_swim_speed
    ctx.oracle(bool(np.isfinite(fu_raw).all() and np.isfinite(fv_raw).all()), "C12.lookup.not_finite", SITE, "served velocity not finite",
               dict(cs, u=fu_raw.tolist(), v=fv_raw.tolist()))
    ctx.oracle(np.array_equal(fu_raw, np.asarray(u) * speed) and np.array_equal(fv_raw, np.asarray(v) * speed),
               "C12.lookup.not_descent_of_index", SITE,
               "velocity served at the cell centres is not descent(fjord_index(land, d)) * fish_swim_speed",
               dict(cs, u=fu_raw.tolist(), v=fv_raw.tolist(), want_u=(np.asarray(u) * speed).tolist(), want_v=(np.asarray(v) * speed).tolist()))
    # ---- any position inside a cell (nearest grid point) is served the velocity of that cell
    offs = ctx.rng.sample(WITHIN, 2) + [(ctx.rng.uniform(-0.49, 0.49), ctx.rng.uniform(-0.49, 0.49))]
    for ox, oy in offs:
        wu, wv = F.fish_velocity(X0 + ox, Y0 + oy)
        ok = np.array_equal(np.asarray(wu, float).reshape(r, c), fu_raw) and np.array_equal(np.asarray(wv, float).reshape(r, c), fv_raw)
        if not ok:
            dif = (np.asarray(wu, float).reshape(r, c) != fu_raw) | (np.asarray(wv, float).reshape(r, c) != fv_raw)
            i, j = [int(t[0]) for t in np.nonzero(dif)]
            ctx.oracle(False, "C12.lookup.not_constant_within_cell", SITE_LOOKUP,
                       "position X-i0=%r, Y-j0=%r lies in cell (row %d, col %d) but is served (%r, %r) instead of the cell's (%r, %r)"
                       % (j + ox, i + oy, i, j, np.asarray(wu).reshape(r, c)[i, j], np.asarray(wv).reshape(r, c)[i, j], fu_raw[i, j], fv_raw[i, j]),
                       dict(cs, offset=[ox, oy], cell=[i, j]))
        ctx.branch("lookup_off_centre")
    # ---- the lookup neither moves the fish nor changes the grid, and is repeatable
    Xa = X0 + offs[0][0]; Ya = Y0 + offs[0][1]
    Xk = Xa.copy(); Yk = Ya.copy(); Mk = np.array(F._grid.M, copy=True)
    a1 = F.fish_velocity(Xa, Ya); a2 = F.fish_velocity(Xa, Ya)
    ctx.oracle(np.array_equal(Xa, Xk) and np.array_equal(Ya, Yk) and np.array_equal(np.asarray(F._grid.M), Mk), "C12.lookup.mutates_input", SITE_LOOKUP,
               "fish_velocity changed the positions it was given or the grid mask", dict(cs, offset=list(offs[0])))
    ctx.oracle(np.array_equal(a1[0], a2[0]) and np.array_equal(a1[1], a2[1]), "C12.lookup.not_repeatable", SITE_LOOKUP,
               "two identical calls of fish_velocity differ", dict(cs, offset=list(offs[0])))
    # ---- Forcing.velocity is what the tracker calls: without currents it serves the fish velocity
    if not F.use_currents:
        Z = np.full(len(Xa), 1.0)
        for kw in (dict(), dict(tstep=0.5, method="nearest")):
            vu, vv = F.velocity(Xa, Ya, Z, **kw)
            ctx.oracle(np.array_equal(vu, a1[0]) and np.array_equal(vv, a1[1]), "C12.velocity.not_fish_velocity", SITE_VEL,
                       "Forcing.velocity(X, Y, Z) differs from fish_velocity(X, Y)", dict(cs, offset=list(offs[0]), kwargs=kw))
        ctx.branch("velocity_entry_point")
    if not deep:
        return
    # ---- multi-step paths with the tracker's update X += u*dt/dx
    nf = int((fi > 0).sum())
    if nf:
        k = ctx.rng.choice([600.0 / 800.0, 0.3 / SPEED, 0.45 / SPEED])
        if fi.max() > 40:
            k = 0.45 / SPEED
        R = np.random.RandomState(ctx.sub_seed())
        po = (R.uniform(-0.4, 0.4, nf), R.uniform(-0.4, 0.4, nf))
        if ctx.rng.random() < 0.3:
            po = (np.zeros(nf), np.zeros(nf))
        csp = dict(cs, dt_over_dx=k, start_offsets=[po[0].tolist(), po[1].tolist()])
        for (i, j), what in sorted(follow_paths(F, fi, i0, j0, k, -1.0, po).items()):
            ctx.oracle(False, "C12.follow.path_not_descending_in_picture_orientation", SITE,
                       "path from cell (row %d, col %d), index %d, stepping X += u*k, Y -= v*k (k=%r): %s" % (i, j, fi[i, j], k, what), dict(csp, cell=[i, j]))
        # the property as stated (grid coordinates of the tracker): known finding F-C12a
        for (i, j), what in sorted(follow_paths(F, fi, i0, j0, k, 1.0, po).items()):
            ctx.oracle(False, "C12.follow.not_descending", SITE,
                       "path from cell (row %d, col %d), index %d, stepping X += u*k, Y += v*k (k=%r): %s" % (i, j, fi[i, j], k, what), dict(csp, cell=[i, j]))
        ctx.branch("paths"); ctx.size("path_cells_per_step", round(k * SPEED, 3))
    # ---- the real IBM.update_ibm against this Forcing: a fish on the ocean is retired, a fish that still has a way to go is not
    dt = ctx.rng.choice([600.0, 60.0])
    ibm = V.IBM(dict(dt=dt, ibm=dict(max_depth=2.0)))
    R = np.random.RandomState(ctx.sub_seed())
    ox = R.uniform(-0.45, 0.45, r * c); oy = R.uniform(-0.45, 0.45, r * c)
    state = real_state(dt=dt, X=X0 + ox, Y=Y0 + oy, Z=np.full(r * c, 1.0), age=np.zeros(r * c))
    keep = np.random.get_state()
    try:
        ibm.update_ibm(Obj(), state, Obj(forcing=F))
    finally:
        np.random.set_state(keep)
    alive = np.asarray(state["alive"]).astype(bool).reshape(r, c)
    wrong = (fi == 0) & alive
    if wrong.any():
        i, j = [int(t[0]) for t in np.nonzero(wrong)]
        ctx.oracle(False, "C12.retire.ocean_fish_not_retired", SITE_IBM, "fish at X-i0=%r, Y-j0=%r in the ocean cell (row %d, col %d) is still alive after update_ibm"
                   % (j + ox[i * c + j], i + oy[i * c + j], i, j), dict(cs, cell=[i, j]))
    wrong = (fi > 0) & ~alive
    if wrong.any():
        i, j = [int(t[0]) for t in np.nonzero(wrong)]
        ctx.oracle(False, "C12.retire.fish_retired_before_ocean", SITE_IBM, "fish at X-i0=%r, Y-j0=%r in cell (row %d, col %d), index %d, is retired by update_ibm before it reached the ocean"
                   % (j + ox[i * c + j], i + oy[i * c + j], i, j, fi[i, j]), dict(cs, cell=[i, j]))
    ctx.branch("update_ibm_real_field")


def check_mask(ctx, drv, pend, V, G, land, d, exhaustive=False, deep=False):
    cs = dict(land=land.tolist(), ocean_dist=d)
    if land.dtype != np.dtype("int64"):
        cs["mask_dtype"] = str(land.dtype)
    ctx.case(key=(land.tobytes(), land.shape, d), nontrivial=bool(land.any() and not land.all()))
    land_before = land.copy()
    fi = V.fjord_index(land, d)
    ref = bfs_reference(land, d)
    ctx.oracle(np.array_equal(fi, ref), "C12.fjord_index.not_shortest_path", "ladim_plugins/vps/ibm.py::fjord_index",
               "fjord index differs from the BFS distance to the open ocean", dict(cs, got=fi.tolist(), want=ref.tolist()))
    check_ocean_region(ctx, fi, land, d, cs)
    u, v = V.descent(fi)
    # velocity as served by the forcing object
    F = object.__new__(G.Forcing)
    F._fish_u = None; F._fish_v = None; F.fish_swim_speed = 0.14; F.use_currents = False
    F.ocean_distance = d * 0.8       # km; dx = 800 m  -> d cells
    # the sub-grid offset of the LADiM grid (i0 = j0 = 1 for the real ROMS grid; any offset must be transparent)
    i0 = ctx.rng.choice([0, 1, 1, 3]); j0 = ctx.rng.choice([0, 1, 1, 2])
    F._grid = Obj(M=1 - land, i0=i0, j0=j0, dx=np.full(land.shape, 800.0))
    r, c = land.shape
    YY, XX = np.meshgrid(np.arange(r, dtype=float), np.arange(c, dtype=float), indexing="ij")
    fu, fv = F.fish_velocity(XX.ravel() + i0, YY.ravel() + j0)
    fu_raw = np.array(fu, dtype=float).reshape(r, c); fv_raw = np.array(fv, dtype=float).reshape(r, c)
    fu = np.sign(fu).reshape(r, c).astype(int); fv = np.sign(fv).reshape(r, c).astype(int)
    cs = dict(cs, i0=i0, j0=j0)
    judge_cells(ctx, fi, fu, fv, cs)
    served_checks(ctx, V, F, land, fi, u, v, fu_raw, fv_raw, i0, j0, cs, deep)
    # ---- a second Forcing on the same mask: non-uniform dx and an ocean distance in km that is not a whole number of cells;
    #      the configured distance in cells is the nearest whole number (exact rational arithmetic, ties not generated)
    if deep or ctx.rng.random() < 0.4:
        dx00 = ctx.rng.choice([160.0, 800.0, 4000.0])
        delta = ctx.rng.choice([-0.45, -0.2, 0.0, 0.3, 0.45] if d >= 1 else [0.0, 0.2, 0.45])
        km = (d + delta) * dx00 / 1000
        R = np.random.RandomState(ctx.sub_seed())
        dx = dx00 * R.uniform(0.5, 1.5, land.shape); dx[0, 0] = dx00
        if nearest_cells(km, dx00) == d:
            i2 = ctx.rng.choice([0, 1, 2, 5]); j2 = ctx.rng.choice([0, 1, 3, 4])
            F2 = new_forcing(G, land, i2, j2, km, dx)
            gu, gv = F2.fish_velocity(XX.ravel() + i2, YY.ravel() + j2)
            gu = np.asarray(gu, float).reshape(r, c); gv = np.asarray(gv, float).reshape(r, c)
            ctx.oracle(np.array_equal(gu, np.asarray(u) * SPEED) and np.array_equal(gv, np.asarray(v) * SPEED), "C12.ocean_distance.cells_not_nearest", SITE_CELLS,
                       "ocean_distance=%r km on cells of dx[0,0]=%r m is %r cells, nearest whole number %d, but the served field is not the one of ocean distance %d"
                       % (km, dx00, km / (dx00 / 1000), d, d), dict(cs, i0=i2, j0=j2, ocean_distance_km=km, dx00=dx00, dx=dx.tolist(), u=gu.tolist(), v=gv.tolist()))
            ctx.branch("km_not_whole_cells"); ctx.size("delta_cells", delta); ctx.size("dx00", dx00)
    ctx.oracle(np.array_equal(land, land_before), "C12.fjord_index.mutates_mask", SITE_FI, "the land mask was changed in place", cs)
    if drv.available:
        toks = "%d %d %d %s" % (d, r, c, " ".join(str(int(x)) for x in land.ravel()))
        pend.append((drv.ask("fjord.index", toks), fi, u, v, cs))
    return F, i0, j0


def reference_checks(ctx, V, F, ref, i0, j0, cs):
    """the conclusion of the property judged with the independently computed shortest-path index `ref` (bfs_reference), not
    with the package's own fjord_index: from every sea cell with a way to the ocean the fish, stepped as the tracker does
    (0.45 cells per step, picture orientation of v: the tracker orientation is the known finding F-C12a and is judged in
    served_checks), comes one cell closer per cell, never meets a zero velocity (= retirement) before the ocean and arrives;
    and the real IBM.update_ibm retires exactly the fish in ocean cells."""
    r, c = ref.shape
    nf = int((ref > 0).sum())
    if nf:
        k = 0.45 / SPEED
        R = np.random.RandomState(ctx.sub_seed())
        po = (R.uniform(-0.4, 0.4, nf), R.uniform(-0.4, 0.4, nf))
        bad = sorted(follow_paths(F, ref, i0, j0, k, -1.0, po).items())
        for (i, j), what in bad[:3]:
            ctx.oracle(False, "C12.follow.reference_path_not_reaching_ocean", SITE,
                       "path from cell (row %d, col %d), %d cells from the ocean by the shortest sea path, stepping X += u*k, Y -= v*k (k=%r): %s (%d of %d start cells fail)"
                       % (i, j, ref[i, j], k, what, len(bad), nf), dict(cs, cell=[i, j], dt_over_dx=k, start_offsets=[po[0].tolist(), po[1].tolist()]))
        ctx.branch("reference_paths")
    YY, XX = np.meshgrid(np.arange(r, dtype=float), np.arange(c, dtype=float), indexing="ij")
    R = np.random.RandomState(ctx.sub_seed())
    ox = R.uniform(-0.45, 0.45, r * c); oy = R.uniform(-0.45, 0.45, r * c)
    ibm = V.IBM(dict(dt=600.0, ibm=dict()))
    state = real_state(dt=600.0, X=XX.ravel() + i0 + ox, Y=YY.ravel() + j0 + oy, Z=np.full(r * c, 1.0), age=np.zeros(r * c))
    keep = np.random.get_state()
    try:
        ibm.update_ibm(Obj(), state, Obj(forcing=F))
    finally:
        np.random.set_state(keep)
    alive = np.asarray(state["alive"]).astype(bool).reshape(r, c)
    for wrong, pid, txt in (((ref == 0) & alive, "C12.retire.ocean_fish_not_retired", "is in the open ocean but still alive after update_ibm"),
                            ((ref > 0) & ~alive, "C12.retire.fish_retired_before_ocean", "has a sea path to the ocean ahead of it but is retired by update_ibm")):
        if wrong.any():
            i, j = [int(t[0]) for t in np.nonzero(wrong)]
            ctx.oracle(False, pid, SITE_IBM, "fish at X-i0=%r, Y-j0=%r in cell (row %d, col %d), %d cells from the ocean by the shortest sea path, %s (%d such fish)"
                       % (j + ox[i * c + j], i + oy[i * c + j], i, j, ref[i, j], txt, int(wrong.sum())), dict(cs, cell=[i, j], judged_by="independent BFS index"))
    ctx.branch("reference_retire")


def check_long(ctx, drv, pend, V, G, land, d, kind, deep):
    """a mask / ocean distance with a long way to the ocean: everything check_mask checks, plus the paths and the retirement
    judged with the independent index"""
    ref = bfs_reference(land, d)
    F, i0, j0 = check_mask(ctx, drv, pend, V, G, land, d, deep=deep)
    cs = dict(land=land.tolist(), ocean_dist=d, i0=i0, j0=j0, mask_dtype=str(land.dtype), family=kind)
    reference_checks(ctx, V, F, ref, i0, j0, cs)
    mx = int(ref.max())
    ctx.branch("long_" + kind); ctx.branch("mask_dtype_" + str(land.dtype))
    ctx.size("max_index_class", "<=127" if mx <= 127 else "128..255" if mx <= 255 else ">=256")
    if 120 <= mx <= 135 or 250 <= mx <= 260:
        ctx.size("max_index_near_8bit_limit", mx)
    ctx.size("long_ocean_dist", d if d <= 20 else ">20")
    if (ref == -1).any():
        ctx.branch("long_with_unknown_basin")


def check_real_forcing(ctx, V, G, tmp, num, given=None):
    """Grid and Forcing built by the real constructors from a synthetic ROMS file: sub-grid offsets, the mask and dx as the
    real Grid provides them, `ocean_distance` read from the configuration or left at its default (10 km)"""
    import netCDF4
    use_default = ctx.rng.random() < 0.35
    if given is not None:
        # a long way to the ocean through the real constructors: the mask and the distance in cells are given; with
        # use_default the cell size is chosen so that the default 10 km is that many cells (10 km / d, e.g. 50 m for 200)
        land, dgiven, use_default = given
    elif use_default:
        # the default (10 km) is 2..7 cells on the cell sizes used below: mostly open water with a few islands / a headland,
        # so that an open ocean exists
        land = np.zeros((ctx.rng.randrange(9, 15), ctx.rng.randrange(9, 15)), dtype=int)
        for _ in range(ctx.rng.randrange(1, 4)):
            land[ctx.rng.randrange(land.shape[0]), ctx.rng.randrange(land.shape[1])] = 1
        if ctx.rng.random() < 0.5:
            land[0, : ctx.rng.randrange(1, 4)] = 1
    else:
        land = gen_mask(ctx.rng)
    r, c = land.shape
    default_sub = ctx.rng.random() < 0.35
    pl, pr, pt, pb = (1, 1, 1, 1) if default_sub else [ctx.rng.choice([1, 2, 3]) for _ in range(4)]
    ny, nx = r + pt + pb, c + pl + pr
    rho = np.array([[ctx.rng.choice([0.0, 1.0]) for _ in range(nx)] for _ in range(ny)])
    rho[pt:pt + r, pl:pl + c] = 1 - land
    path = os.path.join(tmp, "vps%d.nc" % num)
    romsfile.write_roms(path, ctx.rng, nx=nx, ny=ny, N=3, fields=(), mask=rho)
    dx00 = ctx.rng.choice([1500.0, 2200.0, 3000.0, 5000.0]) if use_default else ctx.rng.choice([160.0, 800.0, 4000.0])
    if given is not None and use_default:
        dx00 = 10000.0 / dgiven
    R = np.random.RandomState(ctx.sub_seed())
    dxf = dx00 * R.uniform(0.5, 1.5, (ny, nx)); dxf[pt, pl] = dx00
    with netCDF4.Dataset(path, "r+") as ds:
        ds.variables["pm"][:] = 1.0 / dxf
    gf = dict(input_file=path)
    if not default_sub:
        gf["subgrid"] = [pl, nx - pr, pt, ny - pb]
    elif ctx.rng.random() < 0.5:
        gf["subgrid"] = [None, None, None, None]
    conf = dict(gridforce=gf, start_time=np.datetime64("2015-09-07T01:00:00"), stop_time=np.datetime64("2015-09-07T02:00:00"), dt=600, ibm_forcing=[])
    if use_default:
        d = None; km = 10
    else:
        d = ctx.rng.choice([0, 1, 2, 2, 3, 4]) if given is None else dgiven
        delta = ctx.rng.choice([-0.45, -0.2, 0.0, 0.3, 0.45] if d >= 1 else [0.0, 0.2, 0.45])
        km = (d + delta) * dx00 / 1000
        gf["ocean_distance"] = km
    grid = G.Grid(conf)
    F = G.Forcing(conf, grid)
    g = F._grid
    if not (np.array_equal(np.asarray(g.M), 1 - land) and g.i0 == pl and g.j0 == pt):
        raise RuntimeError("harness error: the real Grid does not hold the intended mask / offsets")
    d = nearest_cells(km, float(g.dx[0, 0]))
    cs = dict(land=land.tolist(), ocean_dist=d, i0=pl, j0=pt, real_grid=True, subgrid=gf.get("subgrid", "absent"),
              ocean_distance_km=(km if not use_default else "absent (default)"), dx00=float(g.dx[0, 0]))
    ctx.case(key=("real", land.tobytes(), land.shape, d, pl, pt), nontrivial=bool(land.any() and not land.all()))
    if d is None:
        return
    fi = V.fjord_index(land, d)
    u, v = V.descent(fi)
    YY, XX = np.meshgrid(np.arange(r, dtype=float), np.arange(c, dtype=float), indexing="ij")
    fu, fv = F.fish_velocity(XX.ravel() + pl, YY.ravel() + pt)
    fu_raw = np.array(fu, dtype=float).reshape(r, c); fv_raw = np.array(fv, dtype=float).reshape(r, c)
    ok = np.array_equal(fu_raw, np.asarray(u) * F.fish_swim_speed) and np.array_equal(fv_raw, np.asarray(v) * F.fish_swim_speed)
    ctx.oracle(ok, "C12.real_forcing.field_differs", SITE_INIT if use_default else SITE_CELLS,
               "Forcing built from the configuration (ocean_distance %s, dx[0,0]=%r m => %d cells): the served field is not the one of that ocean distance"
               % ("absent, default 10 km" if use_default else "%r km" % km, float(g.dx[0, 0]), d), dict(cs, u=fu_raw.tolist(), v=fv_raw.tolist()))
    check_ocean_region(ctx, fi, land, d, cs)
    # the index behind the served field is the shortest-path length (independent BFS), also for Forcing objects built by the
    # real constructors; paths and retirement judged with that independent index
    ref = bfs_reference(land, d)
    ctx.oracle(np.array_equal(fi, ref), "C12.fjord_index.not_shortest_path", SITE_FI,
               "fjord index differs from the BFS distance to the open ocean", dict(cs, got=np.asarray(fi).tolist(), want=ref.tolist()))
    judge_cells(ctx, fi, np.sign(fu_raw).astype(int), np.sign(fv_raw).astype(int), cs)
    served_checks(ctx, V, F, land, fi, u, v, fu_raw, fv_raw, pl, pt, cs, True)
    reference_checks(ctx, V, F, ref, pl, pt, cs)
    if given is not None:
        ctx.branch("real_long_way"); ctx.size("real_long_max_index_gt_127", int(ref.max() > 127))
    ctx.branch("real_constructors"); ctx.branch("real_default_ocean_distance" if use_default else "real_configured_ocean_distance")
    ctx.branch("real_subgrid" if not default_sub else "real_whole_grid")


def run(ctx):
    V = importlib.import_module("ladim_plugins.vps.ibm")
    G = importlib.import_module("ladim_plugins.vps.gridforce")
    drv = Driver()
    if getattr(ctx, "widened", False):
        drv.available = False
    pend = []
    # exhaustive small grids
    dists = (1, 2) if ctx.tier == "quick" else (1, 2, 3)
    step = 1 if ctx.tier == "thorough" else 7
    for bits in range(0, 2 ** 12, step):
        land = np.array([(bits >> k) & 1 for k in range(12)]).reshape(3, 4)
        for d in dists:
            check_mask(ctx, drv, pend, V, G, land, d, deep=(bits % 5 == 0))
            ctx.branch("exhaustive_3x4")
    for c in range(ctx.n(150, 3000)):
        land = gen_mask(ctx.rng)
        d = ctx.rng.choice([1, 2, 3, 4])
        check_mask(ctx, drv, pend, V, G, land, d, deep=(c % 2 == 0))
        ctx.branch("random"); ctx.size("rows", land.shape[0])
    for c in range(ctx.n(40, 600)):
        d = ctx.rng.choice([1, 2, 3])
        land = gen_maze(ctx.rng, d)
        check_mask(ctx, drv, pend, V, G, land, d, deep=(c % 2 == 0))
        ctx.branch("maze"); ctx.size("rows", land.shape[0])
        ctx.size("max_index_over_rows_plus_cols", int(bfs_reference(land, d).max() > sum(land.shape)))
    # ocean distance 0 (an ocean_distance below half a cell): every sea cell is farther than 0 cells from land
    for c in range(ctx.n(25, 300)):
        land = gen_mask(ctx.rng) if c % 3 else np.array([(ctx.rng.randrange(2 ** 12) >> k) & 1 for k in range(12)]).reshape(3, 4)
        check_mask(ctx, drv, pend, V, G, land, 0, deep=(c % 2 == 0))
        ctx.branch("ocean_dist_0")
    # one-cell-thin grids
    for c in range(ctx.n(25, 300)):
        land = gen_thin(ctx.rng)
        check_mask(ctx, drv, pend, V, G, land, ctx.rng.choice([0, 1, 2, 2, 3]), deep=True)
        ctx.branch("thin"); ctx.size("thin_shape", "%dx%d" % land.shape)
    # long ways to the ocean (largest index ~ 120 .. 330): by the mask (long, winding, wide fjords) and by the ocean distance
    for c in range(ctx.n(18, 180)):
        kind = LONG_KINDS[c % len(LONG_KINDS)]
        land, d = gen_long(ctx, kind, c == 0)
        check_long(ctx, drv, pend, V, G, land, d, kind, deep=(c % 3 == 0))
    # the same small random masks handed over in other element types (bool, 8/16/32-bit, float)
    for c in range(ctx.n(30, 400)):
        land = (gen_mask(ctx.rng) if c % 3 else gen_thin(ctx.rng)).astype(ctx.rng.choice([t for t in MASK_DTYPES if t != "int64"]))
        check_mask(ctx, drv, pend, V, G, land, ctx.rng.choice([0, 1, 2, 3, 4, 6, 9]), deep=(c % 2 == 0))
        ctx.branch("mask_dtype"); ctx.branch("mask_dtype_" + str(land.dtype))
    # Grid / Forcing built by the real constructors
    tmp = tempfile.mkdtemp(prefix="verif_c12_")
    try:
        for c in range(ctx.n(12, 100)):
            check_real_forcing(ctx, V, G, tmp, c)
        # ... with a long way to the ocean: ocean_distance configured (fjords) or left at its default of 10 km on small cells
        for c in range(ctx.n(3, 24)):
            use_default = (c % 3 == 1)
            if use_default:
                dcells = ctx.rng.choice([125, 128, 160, 200, 250])      # 10 km / dcells is exact in binary64 or rounds harmlessly
                land = gen_big_distance(ctx.rng, dcells)
                if land.shape[0] < 3 or land.shape[1] < 3:              # the ROMS grid needs >= 3 interior rows / columns
                    land = np.repeat(land, 3, axis=0) if land.shape[0] < 3 else np.repeat(land, 3, axis=1)
            else:
                kind = ["straight", "serpentine", "spiral"][(c // 3 + c) % 3]
                land, dcells = gen_long(ctx, kind, c == 0)
                land = land.astype(int)
            check_real_forcing(ctx, V, G, tmp, 1000 + c, given=(land, dcells, use_default))
    finally:
        shutil.rmtree(tmp, ignore_errors=True)
    if drv.available:
        rep = drv.run()
        UO = {0: 0, 1: -1, 2: 1, 3: 0, 4: 0}; VO = {0: 0, 1: 0, 2: 0, 3: -1, 4: 1}
        for j, fi, u, v, cs in pend:
            st, t = rep[j]
            if st != "ok":
                ctx.disagreement("fjord.index", "driver error %r" % (t,), cs); continue
            k = t.index("|")
            mfi = np.array([int(x) for x in t[:k]]).reshape(fi.shape)
            mdir = np.array([int(x) for x in t[k + 1:]]).reshape(fi.shape)
            ctx.eq("fjord_index", fi.tolist(), mfi.tolist(), cs)
            ctx.eq("descent.u", np.asarray(u).astype(int).tolist(), np.vectorize(UO.get)(mdir).tolist(), cs)
            ctx.eq("descent.v", np.asarray(v).astype(int).tolist(), np.vectorize(VO.get)(mdir).tolist(), cs)


def replay(payload):
    print("predicate:", payload.get("predicate"), "|", payload.get("detail"))
    return False
