"""C02 — release dates are ordered, inside their span and evenly spaced.

Correspondence: real `makrel.date_range` on dates of every accepted type / unit against the Lean integer
model (`Dates.dateRange`: floor to whole seconds, truncating division, promotion to the finer unit); the strings
emitted at second resolution verbatim against the proved ISO renderer (`Dates.renderISO`).
Oracle: every emitted value is one whitespace-free text field that parses the way LADiM parses it
(`np.datetime64(s, 's')`), first = start, last = stop to the whole second, even spacing, monotone; whole tables
from `make_release` (list / grouped / grouped + columns / flat / YAML stream, with and without an output file)
with interleaved and colliding groups are in non-decreasing date order, every group's rows begin at its start,
end at its stop and are evenly spaced, and the written file holds the same dates, in order, readable by LADiM's
own release-file reader; numpy's ISO rendering is strictly monotone on adversarial pairs (hypothesis of
`sorted_after_sort`)."""
import datetime
import numpy as np
from .common import Driver, I

RULE = ("date spans: single value or [start, stop] (list; also tuple, ndarray of datetime64 / of strings); ISO strings with ' ' or 'T', "
        "date / datetime / pandas.Timestamp objects, datetime64 with "
        "units Y,M,W,D,h,m,s,ms,us,ns (also as the strings '2000', '2000-03'); spans zero, positive, reversed, sub-second, not divisible by num-1, 30 years; "
        "years 2000-2001 and 0001, 1600, 1960, 1969/1970 (negative epoch, half seconds), 2300, 9999; num in {1,2,3,4,7,40} and {1000, 20011}; "
        "tables of 1..5 interleaved groups of mixed types, spread over 400 days or colliding on one or two instants "
        "(offsets 0, 1 us, 0.25 s, 1 s, 12 h), up to ~300 rows, given as list / dict(groups) / dict(groups, columns) / flat dict / YAML stream "
        "with native timestamps, with and without an output file. Non-trivial: num >= 1.")
ASSUMPTIONS = ["numpy datetime64 parsing and ISO rendering are trusted (rendering monotonicity is validated on every run)",
               "LADiM's release-file reader (ladim.release.load_release_file: whitespace-separated fields, np.datetime64(field, 's')) is "
               "exercised, not modelled"]
SITE = "ladim_plugins/release/makrel.py::date_range"
MSITE = "ladim_plugins/release/makrel.py::make_release"
UNITS = ["D", "h", "m", "s", "ms", "us", "Y", "M", "W", "ns"]
TICKS = {"D": None, "h": None, "m": None, "s": 1, "ms": 1000, "us": 1000000}
# instants far from 2000: before the epoch (floor vs truncation of negative ticks), outside the range of
# nanosecond timestamps (1678..2262), first and last four-digit years
FAR = ["0001-06-01T00:00:00", "1600-02-29T12:00:00", "1960-03-01T06:30:00", "1969-12-31T23:59:59.500000",
       "1970-01-01T00:00:00", "2300-01-01T00:00:00", "9999-06-01T00:00:00"]
SPANS_US = [0, 1000000, 10000000, 7000000, 9750000, 86400000000, 3600000000, 999999, 123456789, 31 * 86400000000]
LO, HI = -62167219200, 253402300799          # seconds of 0000-01-01T00:00:00 and 9999-12-31T23:59:59


def mk_date(rng, base, unit, kind):
    """returns (python/numpy object accepted by makrel, numpy datetime64)"""
    d = np.datetime64(base, "us").astype("datetime64[%s]" % unit)
    if kind == "np":
        return d, d
    if kind == "str":
        s = str(d)
        if rng.random() < 0.5:
            s = s.replace("T", " ")
        return s, np.datetime64(s)
    if kind == "date":
        dd = d.astype("datetime64[D]").astype(object)
        return dd, np.datetime64(dd)
    dd = d.astype("datetime64[us]").astype(object)
    if kind == "timestamp":
        import pandas as pd
        return pd.Timestamp(dd), np.datetime64(dd)      # a datetime subclass; numpy reads it as a datetime (microseconds)
    return dd, np.datetime64(dd)


def _year(base):
    return int(np.datetime64(base, "Y").astype("int64")) + 1970


def gen_span(rng, base=None, wide=False, span_us=None, kinds=None):
    """base None: an instant in 2000-2001 (the original generator). wide: also tuple / ndarray containers and
    pandas.Timestamp objects."""
    if base is None:
        base = np.datetime64("2000-01-01T00:00:00", "us") + np.timedelta64(rng.randrange(0, 400 * 86400), "s") \
            + np.timedelta64(rng.choice([0, 0, 250000, 999999, 500]), "us")
    if span_us is None:
        span_us = rng.choice(SPANS_US)
        if rng.random() < 0.3:
            span_us = -span_us
    single = rng.random() < 0.2
    # nanosecond timestamps exist only for 1678..2262: outside, the finest unit generated is the microsecond
    units = UNITS if 1700 <= _year(base) <= 2200 else [u if u != "ns" else "us" for u in UNITS]
    if kinds is None:
        kinds = ["np", "str", "date", "datetime"] + (["timestamp"] if wide else [])
    u1 = rng.choice(units); u2 = rng.choice(units)
    k1 = rng.choice(kinds); k2 = rng.choice(kinds)
    if wide and rng.random() < 0.15:        # a homogeneous pair, which can be an ndarray
        k1 = k2 = rng.choice(["np", "str"])
    a, na = mk_date(rng, base, u1, k1)
    if single:
        return a, na, na
    b, nb = mk_date(rng, base + np.timedelta64(span_us, "us"), u2, k2)
    if wide:
        r = rng.random()
        if r < 0.25:
            return (a, b), na, nb
        if r < 0.7 and k1 == k2 == "np":
            arr = np.array([a, b])              # numpy promotes both to the finer unit: that is the input now
            return arr, arr[0], arr[1]
        if r < 0.7 and k1 == k2 == "str":
            return np.array([a, b]), na, nb
    return [a, b], na, nb


def is_pair(span):
    return isinstance(span, (list, tuple, np.ndarray))


def to_ticks(na, nb):
    """finer unit of (start, stop, seconds) as ticks-per-second and integer ticks"""
    order = ["Y", "M", "W", "D", "h", "m", "s", "ms", "us", "ns"]
    ua = np.datetime_data(na.dtype)[0]; ub = np.datetime_data(nb.dtype)[0]
    fin = max([ua, ub, "s"], key=order.index)
    per = {"s": 1, "ms": 1000, "us": 1000000, "ns": 1000000000}[fin]
    sa = int(na.astype("datetime64[%s]" % fin).astype("int64")); sb = int(nb.astype("datetime64[%s]" % fin).astype("int64"))
    # numpy adds timedelta64[s] to `start` (not to the common unit): result unit = finer of (start unit, s)
    fin_a = max([ua, "s"], key=order.index)
    return per, sa, sb, fin, fin_a


def one_text_field(s):
    """LADiM reads the release file as whitespace-separated text (pandas sep='\\s+') and converts the date field
    with np.datetime64(field, 's'): an emitted date must be a string without white space."""
    return isinstance(s, str) and s != "" and len(s.split()) == 1 and s == s.strip()


def judge(ctx, pfx, site, out, na, nb, num, cs):
    """the clauses of the statement on the `num` dates of one group, in the order start -> stop.
    returns (ticks, per, sa, sb, fin_a) or None if a date does not parse"""
    parsed = []
    ok = True
    for s in out:
        try:
            t = np.datetime64(s)
            bad = bool(np.isnat(t))
        except Exception:
            bad = True; t = None
        if bad:
            ok = False
        parsed.append(t)
    ctx.oracle(ok, pfx + ".invalid_timestamp", site, "emitted %r" % (out[:3],), cs)
    ctx.oracle(all(one_text_field(s) for s in out), pfx + ".not_one_text_field", site,
               "a date is not a white-space-free string (LADiM splits the release file at white space): %r" % (out[:3],), cs)
    if not ok or num == 0:
        return None
    per, sa, sb, fin, fin_a = to_ticks(na, nb)
    tick = [int(t.astype("datetime64[%s]" % fin).astype("int64")) for t in parsed]
    dt = (sb - sa) // per          # floor to whole seconds
    # the way LADiM converts the field: np.datetime64(item, 's') -> whole seconds (floor)
    try:
        lad = [int(np.datetime64(s, "s").astype("int64")) for s in out]
        ctx.oracle(lad == [t // per for t in tick], pfx + ".ladim_parse", site,
                   "LADiM's converter np.datetime64(s,'s') reads %r as %r" % (out[:3], lad[:3]), cs)
    except Exception as e:
        ctx.oracle(False, pfx + ".ladim_parse", site, "LADiM's converter np.datetime64(s,'s') raised %r on %r" % (e, out[:3]), cs)
    if len(tick) != num:
        return tick, per, sa, sb, fin_a
    ctx.oracle(tick[0] == sa, pfx + ".first_is_start", site, "first %r, start %r" % (out[0], str(na)), cs)
    if num >= 2:
        ctx.oracle(tick[-1] == sa + dt * per and abs(tick[-1] - sb) < per, pfx + ".last_is_stop", site,
                   "last %r, stop %r" % (out[-1], str(nb)), cs)
        bad_i = None
        for i in range(num):
            # |tick_i - (sa + per*i*dt/(num-1))| < per, evaluated exactly in integers (floats lose the microseconds of
            # ticks beyond 2**53, e.g. year 9999 in microseconds)
            if not abs(tick[i] * (num - 1) - (sa * (num - 1) + per * i * dt)) < per * (num - 1):
                bad_i = i
                break
        ctx.oracle(bad_i is None, pfx + ".even_spacing", site,
                   "particle %r at %r, exact offset %r s" % (bad_i, out[bad_i or 0], (bad_i or 0) * dt / (num - 1)), cs)
        d = np.diff(np.array(tick, dtype=object))
        ctx.oracle(all(x >= 0 for x in d) if dt >= 0 else all(x <= 0 for x in d), pfx + ".monotone", site, "not monotone: %r" % out[:5], cs)
    if dt == 0:
        ctx.oracle(all(t == sa for t in tick), pfx + ".zero_span", site, "zero span but dates differ", cs)
    return tick, per, sa, sb, fin_a


def range_case(ctx, mk, drv, pend, rpend, span, na, nb, num, cs, corr=True):
    try:
        out = mk.date_range(span, num)
    except Exception as e:
        ctx.oracle(False, "C02.date_range.raises", SITE, "date_range(%r, %d) raised %r" % (span, num, e), cs)
        return
    ctx.oracle(len(out) == num, "C02.date_range.count", SITE, "%d dates for num=%d" % (len(out), num), cs)
    r = judge(ctx, "C02.date_range", SITE, out, na, nb, num, cs)
    if r is None:
        return
    tick, per, sa, sb, fin_a = r
    if drv.available and corr:
        pend.append((drv.ask("dates.range", I(per), I(sa), I(sb), I(num)), tick, cs))
        # dates emitted at second resolution: the very strings against the proved renderer
        if fin_a == "s" and num <= 40 and all(t % per == 0 and LO <= t // per <= HI for t in tick) and all(isinstance(s, str) for s in out):
            ctx.branch("emitted_iso")
            rpend.append((drv.ask("dates.render", I(len(tick)), " ".join(I(t // per) for t in tick)), list(out), cs, "emitted_iso"))


def yamlable(groups):
    for g in groups:
        d = g["date"]
        if isinstance(d, list):
            if not all(type(x) in (str, datetime.date, datetime.datetime) for x in d):
                return False
        elif type(d) not in (str, datetime.date, datetime.datetime):
            return False
    return True


def gen_table(rng, mode):
    """returns (groups, meta): meta[g] = (na, nb, num)"""
    groups = []; meta = []
    if mode == "spread":
        ng = rng.randrange(1, 6)
        bases = [None] * ng
        nums = [rng.choice([1, 2, 3, 5]) for _ in range(ng)]
    elif mode == "one":         # a single group (also in the flat form), often with a reversed span
        bases = [None if rng.random() < 0.5 else np.datetime64(rng.choice(FAR), "us") + np.timedelta64(rng.choice([0, 1, 43200]), "s")]
        nums = [rng.choice([1, 2, 3, 5, 40])]
    else:
        # groups on one or two instants: equal seconds in different units / types, sub-second and second neighbours,
        # the same day twelve hours apart (string order vs. time order of the rendered dates)
        if mode == "far":
            p0 = np.datetime64(rng.choice(FAR), "us") + np.timedelta64(rng.choice([0, 0, 1, 86399, 43200]), "s")
        else:
            p0 = np.datetime64("2000-01-01T00:00:00", "us") + np.timedelta64(rng.randrange(0, 400 * 86400), "s") \
                + np.timedelta64(rng.choice([0, 0, 250000, 999999, 500]), "us")
        pool = [p0, p0 + np.timedelta64(rng.choice([1, 250000, 1000000, 43200000000, 86400000000, 59000000]), "us")]
        if mode == "big":
            ng = rng.randrange(2, 4); nums = [rng.choice([40, 100]) for _ in range(ng)]
        else:
            ng = rng.randrange(2, 6); nums = [rng.choice([1, 2, 3, 5]) for _ in range(ng)]
        bases = [rng.choice(pool) + np.timedelta64(rng.choice([0, 0, 0, 1, 250000, 1000000, -1000000, 43200000000]), "us") for _ in range(ng)]
    # a quarter of the tables can be written as YAML (strings, date and datetime objects only)
    kinds = ["str", "date", "datetime"] if rng.random() < 0.25 else None
    for g in range(len(bases)):
        span, na, nb = gen_span(rng, base=bases[g], wide=(mode != "spread" and kinds is None), kinds=kinds)
        groups.append(dict(date=span, num=nums[g], location=[5.0, 60.0], depth=0, grp=g + 1))
        meta.append((na, nb, nums[g]))
    return groups, meta


def table_case(ctx, mk, groups, meta, form, fname, cs):
    import io
    cols = None
    if form == "list":
        conf = [dict(g) for g in groups]
    elif form == "grouped":
        conf = dict(groups=[dict(g) for g in groups])
    elif form == "columns":
        cols = ["date", "longitude", "latitude", "depth", "grp"]
        ctx.rng.shuffle(cols)
        if ctx.rng.random() < 0.5:
            drop = ctx.rng.choice(["longitude", "latitude", "depth"])
            cols = [c for c in cols if c != drop]
        conf = dict(groups=[dict(g) for g in groups], columns=list(cols))
        cs = dict(cs, columns=list(cols))
    elif form == "flat":
        conf = dict(groups[0])
    else:
        import yaml
        text = yaml.safe_dump(dict(groups=[dict(g) for g in groups]), sort_keys=False)   # date / datetime become native YAML timestamps
        conf = io.StringIO(text)
        cs = dict(cs, yaml=text)
    try:
        res = mk.make_release(conf, fname) if fname else mk.make_release(conf)
    except Exception as e:
        ctx.oracle(False, "C02.make_release.raises", MSITE, "raised %r" % (e,), cs)
        return
    dates = list(res["date"])
    try:
        ts = [np.datetime64(s, "us") for s in dates]
        ok = not any(np.isnat(t) for t in ts)
    except Exception:
        ok = False
    ctx.oracle(ok, "C02.make_release.invalid_timestamp", MSITE, "dates %r" % (dates[:4],), cs)
    if ok:
        v = np.array([t.astype("int64") for t in ts])
        ctx.oracle(bool(np.all(np.diff(v) >= 0)), "C02.make_release.not_sorted", MSITE,
                   "rows not in non-decreasing date order: %r" % (dates[:60],), cs)
    ctx.oracle(all(one_text_field(s) for s in dates), "C02.make_release.not_one_text_field", MSITE,
               "a date of the table is not a white-space-free string: %r" % (dates[:4],), cs)
    # every group through make_release: begins at its first date, ends at its second, evenly spaced
    grp = list(res.get("grp", []))
    ctx.oracle(len(grp) == len(dates) == sum(m[2] for m in meta), "C02.make_release.row_count", MSITE,
               "%d rows for %d particles" % (len(dates), sum(m[2] for m in meta)), cs)
    for g, (na, nb, num) in enumerate(meta):
        rows = [dates[r] for r in range(min(len(grp), len(dates))) if grp[r] == g + 1]
        gcs = dict(cs, group=g)
        ctx.oracle(len(rows) == num, "C02.make_release.group.count", MSITE, "group %d has %d rows for num=%d" % (g, len(rows), num), gcs)
        per, sa, sb, fin, fin_a = to_ticks(na, nb)
        dt = (sb - sa) // per
        if dt < 0:
            rows = rows[::-1]      # the table is ascending; a reversed span was emitted descending
        judge(ctx, "C02.make_release.group", MSITE, rows, na, nb, num, gcs)
    if not fname:
        return
    # ---- the written file: first column (or the column selected as 'date')
    FS = MSITE + " (file)"
    hdr = list(res.keys())
    di = hdr.index("date")
    with open(fname, encoding="utf8") as f:
        text = f.read()
    lines = [l for l in text.split("\n") if l.strip() != ""]
    ctx.oracle(len(lines) == len(dates), "C02.file.row_count", FS, "file has %d lines for %d rows" % (len(lines), len(dates)), cs)
    fields = [l.split() for l in lines]            # the way LADiM splits (sep='\s+')
    okf = all(len(f_) == len(hdr) for f_ in fields)
    ctx.oracle(okf, "C02.file.field_count", FS, "a line does not have %d white-space separated fields: %r" % (len(hdr), lines[:2]), cs)
    if okf and len(lines) == len(dates):
        fd = [f_[di] for f_ in fields]
        ctx.oracle(fd == [str(s) for s in dates] and all(isinstance(s, str) for s in dates), "C02.file.date_differs_from_table", FS,
                   "file dates %r, table dates %r" % (fd[:4], dates[:4]), cs)
        try:
            fv = [np.datetime64(s, "us") for s in fd]
            okp = not any(np.isnat(t) for t in fv)
        except Exception:
            okp = False
        ctx.oracle(okp, "C02.file.invalid_timestamp", FS, "file dates %r" % (fd[:4],), cs)
        if okp:
            ctx.oracle(bool(np.all(np.diff(np.array([t.astype("int64") for t in fv])) >= 0)), "C02.file.not_sorted", FS,
                       "lines not in non-decreasing date order: %r" % (fd[:60],), cs)
    # LADiM's own reader
    import ladim.release as lr
    names = ["release_time" if h == "date" else h for h in hdr]
    try:
        df = lr.load_release_file(io.StringIO(text), names, {})
        got = sorted(int(x) for x in df["release_time"])
    except Exception as e:
        ctx.oracle(False, "C02.file.ladim_cannot_read", FS, "ladim.release.load_release_file raised %r on %r" % (e, lines[:2]), cs)
        return
    if ok:
        # LADiM keeps whole seconds (np.datetime64(field, 's')): the table's dates (judged above, group by group), floored
        expect_sec = sorted(int(np.datetime64(s).astype("datetime64[s]").astype("int64")) for s in dates)
        ctx.oracle(got == expect_sec, "C02.file.ladim_reads_other_times", FS,
                   "LADiM reads release times %r, the table's release times are %r" % (got[:6], expect_sec[:6]), cs)


def run(ctx):
    import importlib, tempfile, shutil, os, warnings
    mk = importlib.import_module("ladim_plugins.release.makrel")
    drv = Driver()
    if getattr(ctx, "widened", False):
        drv.available = False
    pend = []
    rpend = []
    for c in range(ctx.n(600, 10000)):
        span, na, nb = gen_span(ctx.rng)
        num = ctx.rng.choice([1, 1, 2, 3, 4, 7, 40])
        cs = dict(date=repr(span), num=num)
        ctx.case(key=(repr(span), num), nontrivial=True, sample=cs if c < 2 else None)
        ctx.branch("num=%d" % min(num, 5)); ctx.branch("single" if not is_pair(span) else "pair")
        range_case(ctx, mk, drv, pend, rpend, span, na, nb, num, cs)
    # far years (negative epoch, outside the nanosecond range), other containers, pandas.Timestamp
    for c in range(ctx.n(300, 5000)):
        far = ctx.rng.random() < 0.6
        base = None
        if far:
            base = np.datetime64(ctx.rng.choice(FAR), "us") + np.timedelta64(ctx.rng.choice([0, 0, 1, 86399, 43200, 12345]), "s") \
                + np.timedelta64(ctx.rng.choice([0, 0, 250000, 999999, 500000]), "us")
        span, na, nb = gen_span(ctx.rng, base=base, wide=True)
        num = ctx.rng.choice([1, 1, 2, 3, 4, 7, 40])
        cs = dict(date=repr(span), num=num)
        ctx.case(key=("wide", repr(span), num), nontrivial=True)
        ctx.branch("far_year" if far else "near_year"); ctx.branch("container=%s" % type(span).__name__ if is_pair(span) else "single=%s" % type(span).__name__)
        if far:
            ctx.branch("year=%d" % _year(base))
        range_case(ctx, mk, drv, pend, rpend, span, na, nb, num, cs)
    # many particles, long spans (30 years), spans much shorter than the number of particles
    for c in range(ctx.n(6, 60)):
        num = [1000, 20011][c % 2]
        y30 = 30 * 365 * 86400 * 1000000 + 7 * 86400 * 1000000
        span_us = ctx.rng.choice([y30, -y30, y30 + 123456789, 7000000, 123456789, -9750000])
        base = np.datetime64(ctx.rng.choice(["2000-01-01T00:00:00", "1960-03-01T06:30:00", "9950-01-01T00:00:00", "0040-06-01T00:00:00"]), "us") \
            + np.timedelta64(ctx.rng.choice([0, 250000]), "us")
        while True:
            span, na, nb = gen_span(ctx.rng, base=base, wide=True, span_us=span_us)
            if is_pair(span):
                break
        cs = dict(date=repr(span), num=num)
        ctx.case(key=("many", repr(span), num), nontrivial=True); ctx.branch("num=%d" % num)
        range_case(ctx, mk, drv, pend, rpend, span, na, nb, num, cs, corr=(num <= 1000))
    # whole tables: sortedness with interleaved / colliding groups, every group's endpoints, the written file
    tmp = tempfile.mkdtemp(prefix="verif_c02_")
    try:
        nt = ctx.n(240, 4000)
        nbig = ctx.n(6, 60)
        for c in range(nt + nbig):
            if c >= nt:
                mode = "big"
            else:
                mode = ctx.rng.choice(["spread", "spread", "collide", "collide", "collide", "far", "one"])
            groups, meta = gen_table(ctx.rng, mode)
            forms = ["list", "list", "grouped", "columns"]
            if len(groups) == 1:
                forms += ["flat"] * 4
            if yamlable(groups):
                forms += ["yaml"] * 4
            form = ctx.rng.choice(forms)
            fname = os.path.join(tmp, "t%d.rls" % c) if ctx.rng.random() < 0.5 else None
            cs = dict(groups=[dict(date=repr(g["date"]), num=g["num"]) for g in groups], form=form, file=bool(fname))
            ctx.case(key=("table", repr(cs)), nontrivial=True); ctx.branch("table"); ctx.branch("table_" + mode); ctx.branch("form=" + form)
            if fname:
                ctx.branch("table_file")
            ctx.size("table_rows", sum(m[2] for m in meta))
            # equal seconds in two groups (possibly rendered in different units)
            secs = [set([int(m[0].astype("datetime64[s]").astype("int64")), int(m[1].astype("datetime64[s]").astype("int64"))]) for m in meta]
            if any(secs[i] & secs[j] for i in range(len(secs)) for j in range(i + 1, len(secs))):
                ctx.branch("table_groups_share_a_second")
            days = [set([str(m[0].astype("datetime64[D]")), str(m[1].astype("datetime64[D]"))]) for m in meta]
            if any(days[i] & days[j] for i in range(len(days)) for j in range(i + 1, len(days))):
                ctx.branch("table_groups_share_a_day")
            table_case(ctx, mk, groups, meta, form, fname, cs)
            if fname and os.path.exists(fname):
                os.remove(fname)
    finally:
        shutil.rmtree(tmp, ignore_errors=True)
    # hypothesis of sorted_after_sort: rendering strictly monotone on adversarial pairs of (possibly mixed-unit) times
    for c in range(ctx.n(400, 5000)):
        base = np.datetime64("1999-12-31T23:59:59", "us") + np.timedelta64(ctx.rng.randrange(0, 3 * 86400 * 366), "s")
        d = ctx.rng.choice([1, 1000, 999999, 1000000, 60000000, 86400000000, 5])
        t1 = base; t2 = base + np.timedelta64(d, "us")
        u1 = ctx.rng.choice(["s", "ms", "us"]); u2 = ctx.rng.choice(["s", "ms", "us"])
        a = t1.astype("datetime64[%s]" % u1); b = t2.astype("datetime64[%s]" % u2)
        if not (a.astype("datetime64[us]") < b.astype("datetime64[us]")):
            continue
        ctx.case(key=("render", str(a), str(b)), nontrivial=True); ctx.branch("render_pair")
        ctx.oracle(str(a) < str(b), "C02.render.not_monotone", "numpy datetime64 rendering", "%s !< %s" % (a, b), dict(a=str(a), b=str(b)))
    # the proved ISO renderer (Ladim.Dates.renderISO, theorem C02.renderISO_strictMono) against numpy's
    if drv.available:
        for c in range(ctx.n(60, 1500)):
            k = ctx.rng.randrange(6)
            if k == 0: base = ctx.rng.choice([LO, HI, 0, -1, 951825600, -62135596800, 4107542400, 68169600])
            elif k == 1: base = ctx.rng.randrange(LO, HI + 1)
            elif k == 2: base = (ctx.rng.randrange(LO // 86400, HI // 86400)) * 86400 + ctx.rng.choice([0, 86399, 43200])
            elif k == 3:      # around the end of February / of a year / of a century
                y = ctx.rng.choice([1600, 1700, 1900, 2000, 2024, 2100, 2400, 1, 9999, 4])
                base = int(np.datetime64("%04d-%s" % (y, ctx.rng.choice(["02-28T23:59:59", "03-01T00:00:00", "12-31T23:59:59", "01-01T00:00:00"])), "s").astype("int64"))
            else: base = int(np.datetime64("2015-01-01T00:00:00", "s").astype("int64")) + ctx.rng.randrange(0, 20 * 366 * 86400)
            ts = [min(HI, max(LO, base + d)) for d in (0, 1, 59, 60, 3600, 86400, -1)]
            want = [str(np.datetime64(t, "s")) for t in ts]
            ctx.case(key=("iso", base), nontrivial=True); ctx.branch("iso_render")
            rpend.append((drv.ask("dates.render", I(len(ts)), " ".join(I(t) for t in ts)), want, dict(times=ts), "iso_render"))
    if drv.available:
        rep = drv.run()
        for j, tick, cs in pend:
            st, t = rep[j]
            model = [None if x == "NaT" else int(x) for x in t[1:]]
            ctx.eq("date_range", tick, model, cs)
        for j, want, cs, what in rpend:
            st, t = rep[j]
            ctx.eq(what, want, list(t[1:]), cs)


def replay(payload):
    import importlib
    mk = importlib.import_module("ladim_plugins.release.makrel")
    print("predicate:", payload.get("predicate"), "|", payload.get("detail"))
    return False
