"""C02 — release dates are ordered, inside their span and evenly spaced.

Correspondence: real `makrel.date_range` on dates of every accepted type / unit against the Lean integer
model (`Dates.dateRange`: floor to whole seconds, truncating division, promotion to the finer unit).
Oracle: every emitted string parses (`np.datetime64(s)`), first = start, last = stop to the whole second,
even spacing, monotone; whole tables from `make_release` with interleaved groups are in non-decreasing
date order; numpy's ISO rendering is strictly monotone on adversarial pairs (hypothesis of
`sorted_after_sort`)."""
import datetime
import numpy as np
from .common import Driver, I

RULE = ("date spans: single value or [start, stop]; ISO strings with ' ' or 'T', date / datetime objects, datetime64 with "
        "units Y,M,W,D,h,m,s,ms,us,ns (also as the strings '2000', '2000-03'); spans zero, positive, reversed, sub-second, not divisible by num-1; num in {1,2,3,4,7,40}; "
        "tables of 1..5 interleaved groups of mixed types. Non-trivial: num >= 1.")
ASSUMPTIONS = ["numpy datetime64 parsing and ISO rendering are trusted (rendering monotonicity is validated on every run)"]
SITE = "ladim_plugins/release/makrel.py::date_range"
UNITS = ["D", "h", "m", "s", "ms", "us", "Y", "M", "W", "ns"]
TICKS = {"D": None, "h": None, "m": None, "s": 1, "ms": 1000, "us": 1000000}


def mk_date(rng, base, unit, kind):
    """returns (python/numpy object accepted by makrel, numpy datetime64)"""
    d = np.datetime64(base, "us").astype("datetime64[%s]" % unit)
    if kind == "np":
        return d, d
    if kind == "str":
        s = str(d)
        if rng.random() < 0.5:
            s = s.replace("T", " ")
        return s, np.datetime64(s)
    if kind == "date":
        dd = d.astype("datetime64[D]").astype(object)
        return dd, np.datetime64(dd)
    dd = d.astype("datetime64[us]").astype(object)
    return dd, np.datetime64(dd)


def gen_span(rng):
    base = np.datetime64("2000-01-01T00:00:00", "us") + np.timedelta64(rng.randrange(0, 400 * 86400), "s") \
        + np.timedelta64(rng.choice([0, 0, 250000, 999999, 500]), "us")
    span_us = rng.choice([0, 1000000, 10000000, 7000000, 9750000, 86400000000, 3600000000, 999999, 123456789, 31 * 86400000000])
    if rng.random() < 0.3:
        span_us = -span_us
    single = rng.random() < 0.2
    u1 = rng.choice(UNITS); u2 = rng.choice(UNITS)
    k1 = rng.choice(["np", "str", "date", "datetime"]); k2 = rng.choice(["np", "str", "date", "datetime"])
    a, na = mk_date(rng, base, u1, k1)
    if single:
        return a, na, na
    b, nb = mk_date(rng, base + np.timedelta64(span_us, "us"), u2, k2)
    return [a, b], na, nb


def to_ticks(na, nb):
    """finer unit of (start, stop, seconds) as ticks-per-second and integer ticks"""
    order = ["Y", "M", "W", "D", "h", "m", "s", "ms", "us", "ns"]
    ua = np.datetime_data(na.dtype)[0]; ub = np.datetime_data(nb.dtype)[0]
    fin = max([ua, ub, "s"], key=order.index)
    per = {"s": 1, "ms": 1000, "us": 1000000, "ns": 1000000000}[fin]
    sa = int(na.astype("datetime64[%s]" % fin).astype("int64")); sb = int(nb.astype("datetime64[%s]" % fin).astype("int64"))
    # numpy adds timedelta64[s] to `start` (not to the common unit): result unit = finer of (start unit, s)
    fin_a = max([ua, "s"], key=order.index)
    return per, sa, sb, fin, fin_a


def run(ctx):
    import importlib
    mk = importlib.import_module("ladim_plugins.release.makrel")
    drv = Driver()
    if getattr(ctx, "widened", False):
        drv.available = False
    pend = []
    for c in range(ctx.n(600, 10000)):
        span, na, nb = gen_span(ctx.rng)
        num = ctx.rng.choice([1, 1, 2, 3, 4, 7, 40])
        cs = dict(date=repr(span), num=num)
        ctx.case(key=(repr(span), num), nontrivial=True, sample=cs if c < 2 else None)
        ctx.branch("num=%d" % min(num, 5)); ctx.branch("single" if not isinstance(span, list) else "pair")
        try:
            out = mk.date_range(span, num)
        except Exception as e:
            ctx.oracle(False, "C02.date_range.raises", SITE, "date_range(%r, %d) raised %r" % (span, num, e), cs)
            continue
        ctx.oracle(len(out) == num, "C02.date_range.count", SITE, "%d dates for num=%d" % (len(out), num), cs)
        parsed = []
        ok = True
        for s in out:
            try:
                t = np.datetime64(s)
                bad = np.isnat(t)
            except Exception:
                bad = True; t = None
            if bad:
                ok = False
            parsed.append(t)
        ctx.oracle(ok, "C02.date_range.invalid_timestamp", SITE, "emitted %r" % (out[:3],), cs)
        if not ok or num == 0:
            continue
        per, sa, sb, fin, fin_a = to_ticks(na, nb)
        tick = [int(t.astype("datetime64[%s]" % fin).astype("int64")) for t in parsed]
        dt = (sb - sa) // per          # floor to whole seconds
        ctx.oracle(tick[0] == sa, "C02.date_range.first_is_start", SITE, "first %r, start %r" % (out[0], str(na)), cs)
        if num >= 2:
            ctx.oracle(tick[-1] == sa + dt * per and abs(tick[-1] - sb) < per, "C02.date_range.last_is_stop", SITE,
                       "last %r, stop %r" % (out[-1], str(nb)), cs)
            for i in range(num):
                exact = sa + per * (i * dt) / (num - 1)
                ctx.oracle(abs(tick[i] - exact) < per, "C02.date_range.even_spacing", SITE,
                           "particle %d at %r, exact offset %r s" % (i, out[i], i * dt / (num - 1)), cs)
            d = np.diff(tick)
            ctx.oracle(bool(np.all(d >= 0)) if dt >= 0 else bool(np.all(d <= 0)), "C02.date_range.monotone", SITE, "not monotone: %r" % out[:5], cs)
        if dt == 0:
            ctx.oracle(all(t == sa for t in tick), "C02.date_range.zero_span", SITE, "zero span but dates differ", cs)
        if drv.available:
            pend.append((drv.ask("dates.range", I(per), I(sa), I(sb), I(num)), tick, cs))
    # whole tables: sortedness with interleaved groups
    for c in range(ctx.n(80, 1500)):
        groups = []
        for g in range(ctx.rng.randrange(1, 6)):
            span, na, nb = gen_span(ctx.rng)
            groups.append(dict(date=span, num=ctx.rng.choice([1, 2, 3, 5]), location=[5.0, 60.0], depth=0))
        cs = dict(groups=[dict(date=repr(g["date"]), num=g["num"]) for g in groups])
        ctx.case(key=("table", repr(cs)), nontrivial=True); ctx.branch("table")
        try:
            res = mk.make_release(groups)
        except Exception as e:
            ctx.oracle(False, "C02.make_release.raises", "ladim_plugins/release/makrel.py::make_release", "raised %r" % (e,), cs)
            continue
        try:
            ts = [np.datetime64(s, "us") for s in res["date"]]
            ok = not any(np.isnat(t) for t in ts)
        except Exception:
            ok = False
        ctx.oracle(ok, "C02.make_release.invalid_timestamp", "ladim_plugins/release/makrel.py::make_release", "dates %r" % (res["date"][:4],), cs)
        if ok:
            v = np.array([t.astype("int64") for t in ts])
            ctx.oracle(bool(np.all(np.diff(v) >= 0)), "C02.make_release.not_sorted", "ladim_plugins/release/makrel.py::make_release",
                       "rows not in non-decreasing date order: %r" % (res["date"],), cs)
    # hypothesis of sorted_after_sort: rendering strictly monotone on adversarial pairs of (possibly mixed-unit) times
    for c in range(ctx.n(400, 5000)):
        base = np.datetime64("1999-12-31T23:59:59", "us") + np.timedelta64(ctx.rng.randrange(0, 3 * 86400 * 366), "s")
        d = ctx.rng.choice([1, 1000, 999999, 1000000, 60000000, 86400000000, 5])
        t1 = base; t2 = base + np.timedelta64(d, "us")
        u1 = ctx.rng.choice(["s", "ms", "us"]); u2 = ctx.rng.choice(["s", "ms", "us"])
        a = t1.astype("datetime64[%s]" % u1); b = t2.astype("datetime64[%s]" % u2)
        if not (a.astype("datetime64[us]") < b.astype("datetime64[us]")):
            continue
        ctx.case(key=("render", str(a), str(b)), nontrivial=True); ctx.branch("render_pair")
        ctx.oracle(str(a) < str(b), "C02.render.not_monotone", "numpy datetime64 rendering", "%s !< %s" % (a, b), dict(a=str(a), b=str(b)))
    # the proved ISO renderer (Ladim.Dates.renderISO, theorem C02.renderISO_strictMono) against numpy's
    rpend = []
    if drv.available:
        LO, HI = -62167219200, 253402300799
        for c in range(ctx.n(60, 1500)):
            k = ctx.rng.randrange(6)
            if k == 0: base = ctx.rng.choice([LO, HI, 0, -1, 951825600, -62135596800, 4107542400, 68169600])
            elif k == 1: base = ctx.rng.randrange(LO, HI + 1)
            elif k == 2: base = (ctx.rng.randrange(LO // 86400, HI // 86400)) * 86400 + ctx.rng.choice([0, 86399, 43200])
            elif k == 3:      # around the end of February / of a year / of a century
                y = ctx.rng.choice([1600, 1700, 1900, 2000, 2024, 2100, 2400, 1, 9999, 4])
                base = int(np.datetime64("%04d-%s" % (y, ctx.rng.choice(["02-28T23:59:59", "03-01T00:00:00", "12-31T23:59:59", "01-01T00:00:00"])), "s").astype("int64"))
            else: base = int(np.datetime64("2015-01-01T00:00:00", "s").astype("int64")) + ctx.rng.randrange(0, 20 * 366 * 86400)
            ts = [min(HI, max(LO, base + d)) for d in (0, 1, 59, 60, 3600, 86400, -1)]
            want = [str(np.datetime64(t, "s")) for t in ts]
            ctx.case(key=("iso", base), nontrivial=True); ctx.branch("iso_render")
            rpend.append((drv.ask("dates.render", I(len(ts)), " ".join(I(t) for t in ts)), want, dict(times=ts)))
    if drv.available:
        rep = drv.run()
        for j, tick, cs in pend:
            st, t = rep[j]
            model = [None if x == "NaT" else int(x) for x in t[1:]]
            ctx.eq("date_range", tick, model, cs)
        for j, want, cs in rpend:
            st, t = rep[j]
            ctx.eq("iso_render", want, list(t[1:]), cs)


def replay(payload):
    import importlib
    mk = importlib.import_module("ladim_plugins.release.makrel")
    print("predicate:", payload.get("predicate"), "|", payload.get("detail"))
    return False
