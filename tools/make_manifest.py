#!/usr/bin/env python3
"""Generates /verif/MANIFEST.json from the table below (kept in one place so it stays valid)."""
import json, os, sys
VERIF = os.path.dirname(os.path.dirname(os.path.abspath(__file__)))
sys.path.insert(0, VERIF)
from harness.obligations import OBLIGATIONS, BRIDGES, BRIDGE_THEOREMS

NOTE = ("Trusted base: Lean 4.33 kernel; axioms propext/Classical.choice/Quot.sound only (audited per theorem each run); "
        "translator + differential correspondence harness tie the model to /repo; exact-arithmetic semantics "
        "(floating point exercised by the correspondence only); external libraries modelled by contract (DESIGN 2.6).")

CHECKS = {
 "C05": dict(
    text="Proof: per-module depth-band theorems (one step and lifted to histories) over any linear ordered field, for every draw; "
         "model tied to the code by the bit-exact per-particle correspondence of all 11 IBM modules on every run, "
         "band oracle on the implementation as failing-input search.",
    technique="Lean 4 theorems (one-step invariant + induction over update histories) about a per-particle model; differential correspondence",
    design="3/C05"),
 "C07": dict(
    text="Proof: exact age-advance identities, alive'=>alive and the exact death rule (iff) for every module's per-particle model, "
         "'once dead, dead for ever' by induction over histories, and step-size independence of salmon-lice survival "
         "(product of exp factors = exp of the sum, from exp(a+b)=exp a*exp b; inhabited by the reals). "
         "Tie: bit-exact correspondence on age/alive/days, implementation-side oracle incl. partition experiments.",
    technique="Lean 4 theorems (algebraic identities, decision-logic iff, induction over step lists); differential correspondence",
    design="3/C07"),
 "C10": dict(
    text="Proof (model level): an update that is a per-particle map commutes with permutation and sub-selection; the collision "
         "memory is a lookup by pid, invariant under adding/removing/re-ordering other particles. The substance - that the vectorised "
         "numpy code refines that map - is checked on every run by metamorphic relations on the implementation (permutation, "
         "sub-selection, empty set with warnings as errors) and community-vs-alone histories. Syntactic part of that refinement: every "
         "statement window of an ibm.py that the translator accepts consists of element-wise numpy operations only (a reduction, sort "
         "or shift makes the translation fail, which is reported for C10), so the translated windows are liftings of per-particle functions.",
    technique="Lean 4 theorems on List.map / lookup-by-identity; metamorphic + differential correspondence on the implementation",
    design="3/C10",
    note="Partial in the sense of DESIGN 3/C10: the refinement 'vectorised numpy code = map of the per-particle rule' is not a theorem. What is kernel-checked: the interpreters of every update_ibm give each masked / element-wise statement its per-particle meaning and the bridges equate that with the model (an interpreter has no operation for a reduction over particles, so a statistic taken over the set makes a statement text unknown and breaks the bridge); the cross-particle couplings that do exist (draw order, intersect1d in reposition) are explicit in Bridge.MemorySeq. That numpy's element-wise operations behave per element is established by the metamorphic tests."),
 "C08": dict(
    text="Proof: decision logic of the per-particle sediment state machine - exact sinking, settle-on-bed, rest, resuspension iff "
         "tau >= taucrit (tau = 1000*0.003*speed^2 from sqrt laws), never without taucrit, three-valued flag distinct and never back to 1 "
         "over any history, mining retirement, nearest raster cell within half a cell (from the truncation law), taucrit tables, "
         "cache transparency for strictly increasing step counters. Tie: bit-exact correspondence of sedimentation/mine update_ibm with "
         "both flag carriers, grain-size lookup through the real get_taucrit_fn on shipped + synthetic rasters.",
    technique="Lean 4 theorems (decision logic, iff, induction over histories) on a per-particle state machine; differential correspondence",
    design="3/C08"),
 "C20": dict(
    text="Proof (exact part): reflect∘shift by ±d are piecewise isometries of [0,H] whose interior targets have exactly two preimages "
         "(no accumulation), clamp piles up; step-variance identities 2·K·dt for the uniform, normal and velocity forms; LaBolle reduces to "
         "the constant step for constant K; sub-steps cover dt; cap and coarse sampling specs. Partial: the depth-varying sub-claim "
         "('within the scheme's accuracy') is decided statistically on the implementation with the repository's 10-bin criterion, and "
         "uniformity/variance are additionally tested with exact binomial / moment bounds (total false-alarm budget 1e-9).",
    technique="Lean 4 theorems (preimage counting, algebraic identities, induction on the sub-step loop); statistical tests with exact binomial bounds; draw-replay correspondence",
    design="3/C20",
    note="The measure-theoretic step is formalised for the uniform-increment walk with reflection (LadimProofs/C20Measure.lean, OnCode.chem_const_walk_wellmixed, OnCode.c20_chem_diffuse_const_wellmixed on the interpreted method body): Lebesgue measure on [0,H] is invariant. For the Gaussian-increment schemes (unbounded steps) and depth-varying K well-mixedness is statistical in the property and decided on the implementation."),
 "C09": dict(
    text="Proof: hatch time positive for every rate in [0,1] and every temperature (explicit quadratic x piecewise-linear model of the "
         "published table, reproduced at its 12 knots, clamped outside [2,10]); egg stage increment = dt/(days*86400) > 0 and activation "
         "iff stage >= 1; larval stage strictly increasing (exp/rpow positivity) and deactivation iff stage >= 2; monotone over every "
         "history; shrimp stage in [1,6], monotone, exact rate, length table and monotone length (general np.interp lemma); larvae weight "
         "floor and positive Folkvord growth on the model's size range. Tie: translator-generated increments + correspondence of the real "
         "update_ibm / scipy spline (1e-9).",
    technique="Lean 4 theorems on translator-generated increments (polynomial positivity by nlinarith, induction over histories); differential correspondence",
    design="3/C09"),
 "C16": dict(
    text="Proof on definitions GENERATED from /repo's source each run: density strictly increasing in salinity for T in [-2,40], S in [0,42]; "
         "EOS-80 check values to 1e-5 (rational enclosure of sqrt 35); density/viscosity/sun-height copies equal; sinking speed odd, zero at "
         "neutral, right-signed on both branches; larva/lice/shrimp swimming directions; surface light = five-band function, within "
         "[1.15e-5,1505.76], continuous at the band edges; exp decay with depth. Tie: translator + its validation against the Python functions.",
    technique="Python-AST-to-Lean translator regenerated each run; Lean 4 theorems (nlinarith polynomial bounds, sign lemmas); translation validation",
    design="3/C16",
    note="Monotonicity of the sinking speed across the Stokes/Dallavalle switch and the egg-vs-larvae copy equality are checked numerically on the implementation only. Float-only caveat: arcsin of 1+ulp."),
 "C02": dict(
    text="Proof over the integers (numpy datetime64 ticks): never NaT for num >= 1 (incl. exactly 1), first = start, last = stop to the "
         "whole second (exactly when the span is a whole number of seconds), truncated-division spacing within 1 s of the exact even "
         "spacing, monotone / antitone for positive / reversed spans, constant for zero spans, table order from any strictly monotone "
         "rendering. Tie: exact integer correspondence of the real date_range on all accepted types/units; rendering monotonicity "
         "validated against numpy every run.",
    technique="Lean 4 theorems over Int (tdiv/fdiv arithmetic, omega/nlinarith); exact differential correspondence",
    design="3/C02"),
 "C04": dict(
    text="Proof: constants repeated, lists verbatim, ranges in [lo,hi] and affine in the draw, gaussian within [min,max] for every "
         "normal draw (correct argument order) with the upper-bound-only partial theorem and a proved counter-witness for the order the "
         "code uses, exponential in [0,max], piecewise within the knot range / monotone / hitting knots (general np.interp lemmas), every "
         "form yields num values. Tie: bit-exact correspondence of get_attr with recorded draws (the harness determines which clip order "
         "the code matches). The gaussian lower bound is a KNOWN FINDING (snapshot-pinned).",
    technique="Lean 4 theorems (decision logic, bounds, interpolation lemmas) with a variant parameter for the known defect; differential correspondence",
    design="3/C04"),
 "C03": dict(
    text="Proof: folded draws land in the unit triangle; the sampled point is the convex combination (1-s-t, s, t) of the vertices of a "
         "triangle of the triangulation (hence on the inner side of every supporting line, any orientation); the triangle index is always "
         "in range; areas non-negative and orientation independent; point locations exact; degree<->metre conversions (generated from the "
         "source) are mutual inverses away from the poles. Tie: bit-exact draw-replay correspondence given the triangulation returned by "
         "the real code (validated exactly per case); exact rational point-in-polygon oracle; GeoJSON property join; offsets back in metres.",
    technique="Lean 4 theorems (convexity, list lemmas on cumsum/searchsorted, field identities on generated conversions); differential correspondence",
    design="3/C03",
    note="That a valid triangulation covers exactly the polygon is classical geometry and not proved; the `triangle` library is external (validated per case)."),
 "C17": dict(
    text="Proof of the push-forward facts: triangle k is chosen exactly for u in (cum_{k-1}/A, cum_k/A] of length area_k/A; the fold is "
         "2-to-1 with an involutive reflection; bary is affine with constant Jacobian = signed double area and injective on non-degenerate "
         "triangles; areas are |cross|/2; ranges affine in the draw. Partial: the final measure-theoretic step is cited; uniformity is "
         "tested on the implementation with exact binomial bounds (per-polygon shares, half-plane cuts, range bins; total alpha 1e-9).",
    technique="Lean 4 theorems (interval preimages, constant Jacobian, involution) + statistical tests with exact binomial bounds; draw-replay correspondence",
    design="3/C17",
    note="The push-forward step is formalised (LadimProofs/C17Measure.lean: the fold preserves the uniform law of the unit square onto the unit triangle, the affine map scales volume by |det|, sample_uniform_on_triangle; OnCode.c17_point_uniform_in_triangle / c17_triangle_choice_probability on the interpreted sampler). One statement over the union of the polygons' triangles would need the tiling half of the external triangulation's contract and is decided statistically on the implementation."),
 "C01": dict(
    text="Proof: the table has sum(num) rows, every row has one cell per column, each group contributes exactly its count, the output "
         "rows are a permutation of the concatenated zero-filled group rows (for any sort) and are ordered by the date key, a cell under "
         "a column a group does not define is 0, cell (i, c) of a group's row is that group's value f[c][i] (row integrity), header = "
         "requested columns or the union in order of first appearance; Python dict-merge column order (date, longitude, latitude, "
         "depth, attributes). Tie: the real make_release against the model fed with the group pieces produced by the real generators "
         "under the same draw stream (equal-date runs compared as multisets); independent marker/tag oracle.",
    technique="Lean 4 theorems (List.Perm, sortedness of insertion sort, dict-merge order) on a table model; differential correspondence",
    design="3/C01"),
 "C18": dict(
    text="Proof: container normalisation (flat = grouped with the global keys split off, list = grouped without globals), validation "
         "accepts iff every group has date, location and num and otherwise reports exactly the missing keys per offending group, table "
         "is a function of (groups, draws, columns). Partial: YAML parsing, to_csv formatting and the command line are not in the model; "
         "they are exercised on the implementation (five ways of supplying the same spec give identical tables, seeded runs repeat, the "
         "written file parses back exactly with Python float).",
    technique="Lean 4 theorems (normalisation and validation decision logic); metamorphic + differential checks on the implementation",
    design="3/C18",
    note="YAML/CSV/CLI layers are covered by the correspondence layer only."),
 "C19": dict(
    text="Proof: time-slot slices are consecutive, have the recorded lengths and concatenate to the instance list (empty slots included); "
         "SQLite instance rows are exactly the instances in order, each with its slot's time stamp; a binned particle lies in its bin and "
         "exactly the particles with e0 <= x <= eN are binned, so the cell counts sum to the number of particles within the outer edges; "
         "edges are midpoints with mirrored outer edges; the settled selection picks, for every pid exactly once (strictly increasing), its "
         "last instance. Tie: _edges, histogram binning (vs np.histogramdd through from_particles, 1..3 dims), slicing and "
         "get_settled_particles against the model; SQLite through an in-memory database.",
    technique="Lean 4 theorems (list partition, counting by indicator sums, last-index search); differential correspondence",
    design="3/C19",
    note="Weighted sums: LadimProofs/C19Weighted.lean and OnCode.c19_raster_weight_conserved (exact arithmetic; the floating-point sums are compared to 1e-9 in the correspondence). np.histogramdd, np.flip, xarray, netCDF4 and sqlite3 are parameters of the interpretation with reference instances; the real libraries are exercised by the correspondence."),
 "C12": dict(
    text="Proof for ALL masks, sizes, ocean distances and start cells: one dilation step is sound; k dilations hold n at a cell iff n <= k "
         "is the length of its shortest four-connected obstacle-free path to a source (induction on k over an inductive reachability "
         "relation), obstacles stay -2, unreachable cells stay -1; hence the fjord index is the BFS distance to the open ocean "
         "(fjord_index_is_shortest_path); descent picks a neighbour exactly one lower; following the field in grid orientation visits "
         "indices n, n-1, ..., 0, never enters land or leaves the grid, and the velocity is zero on the ocean. The orientation in which "
         "vps/gridforce.py uses v is a KNOWN FINDING (picture_orientation_fails proved; snapshot-pinned). Tie: fjord_index and descent "
         "compared exactly with the model on exhaustive 3x4 masks and random masks up to 14x14; independent BFS oracle; path following "
         "through the real Forcing.fish_velocity.",
    technique="Lean 4 theorems (BFS invariant by induction over dilation steps, inductive reachability, path following by induction); exact differential correspondence",
    design="3/C12",
    note="The driver evaluates the iterated dilation with memoisation between steps (same function values)."),
 "C14": dict(
    text="Proof: compute_w is linear in (u,v) for arbitrary bathymetry/stretching/metrics, zero on the lateral boundary; over a flat "
         "bottom it equals -pm*pn*(W_k - (z_k-z_0)/(z_K-z_0) W_K) with W_k the cumulated net inflow of the layer transports, hence zero at "
         "bed and surface, zero for non-divergent transports, positive under surface convergence. Tie: cell-by-cell model, bit-exact "
         "against the real compute_w on synthetic grids (10^4 values per run); implementation-side identity/linearity oracles.",
    technique="Lean 4 theorems (ring identities, induction on the vertical cumsum) on a cell-by-cell model; bit-exact differential correspondence",
    design="3/C14"),
 "C15": dict(
    text="Proof: clamped cell indices are inside the array for every position and equal the nearest in-array index (witnesses that the "
         "unclamped index wraps / raises); bilinear value exact at nodes and between the four corners; trilinear weights non-negative "
         "summing to 1 so sampled fields are convex combinations; velocity = value of the containing layer; level search brackets the "
         "depth with a weight in [0,1] that reproduces it; vertdiff level interior, diffusivities non-negative, zero on land. Tie: cell "
         "index, z2s, vertdiff level, bilinear value against the real Grid/Forcing on synthetic ROMS files; oracle 'every query inside or "
         "up to one cell outside returns the nearest edge cell's value'.",
    technique="Lean 4 theorems (omega on clamped indices, convexity by nlinarith, list lemma for the level search); differential correspondence",
    design="3/C15",
    note="xy2ll/ll2xy (LADiM's bilin_inv) are exercised only; end-to-end boundary-exit runs are part of the thorough tier when available."),
 "C06": dict(
    text="Proof (state-machine refinement to lerp): for strictly increasing forcing steps and either initialisation branch, after "
         "processing steps 0..T the served velocity equals the linear interpolation of the two enclosing frames (invariant by induction), "
         "update with the catch-up loop over ANY increasing schedule equals the consecutive run (velocity_any_schedule), scalars equal the "
         "frame at coinciding steps (t > 0), are held constant between frames and lie between the two frames before the first frame; "
         "aligned dt gives exact frame steps. Proved counter-witnesses for the behaviours before the fix: commits (late start, gap, "
         "prestep division) and for the KNOWN FINDINGS (scalar at t = 0 holds the next frame - snapshot-pinned; dt not dividing frame "
         "offsets - design limitation). Tie: bit-exact correspondence of the real Forcing on synthetic float64 ROMS files (1..3 files) "
         "over consecutive / late / gapped schedules; time-interpolation oracle.",
    technique="Lean 4 theorems (invariant by induction over steps, schedule-independence of the catch-up loop, decide +kernel witnesses); bit-exact differential correspondence",
    design="3/C06",
    note="Exact arithmetic: the accumulated increments U += dU equal the closed-form lerp only up to rounding (oracle tolerance 1e-9); float32 forcing files are not compared bit-exactly."),
 "C11": dict(
    text="Proof: with copied memory a particle is repositioned only if a record with its pid exists and holds exactly its current "
         "position, and every such particle is (distinct pids); with aliased memory this holds only right after a reallocation "
         "(alias_partial) and fails otherwise (proved witness) - KNOWN FINDING for chemicals under the real LADiM State "
         "(snapshot-pinned); re-seeded positions stay in the cell; is_close_to_land iff a land cell in the clamped "
         "eight-neighbourhood; nearest_unmasked returns an unmasked cell of the nine that no other unmasked one beats; "
         "guarded directed swimming ends on the old position or in grid and at sea; non-flagged particles are not moved. Tie: decisions "
         "over multi-step histories under the real ladim.state.State (in-place tracker writes, append/remove) and fresh-array stubs "
         "against Memory.decides; helper queries and re-seeded coordinates exactly.",
    technique="Lean 4 theorems (lookup-by-identity decision logic with an alias/snapshot variant, argmin and stencil specs); differential correspondence under the real State",
    design="3/C11"),
 "C13": dict(
    text="Proof: the two-frame cache is transparent for EVERY request history (serve = map load; invariant 'cached value = load key' "
         "with distinct keys, preserved by push/prune), a miss is exactly a key not cached, two live frames; forward time weights give the "
         "linear interpolant, the stored field at whole hours, a value between the two fields; the code's backward weights are the "
         "time-mirrored interpolant and return the next hour at whole hours - KNOWN FINDING (snapshot-pinned); hour fraction in [0,1) "
         "and zero exactly at whole hours; in-grid positions get valid metric indices (witness for the unclamped limit); z2k monotone, "
         "exact at knots, clamped. Tie: miss pattern of the real Buffer/OnlineDatabase on synthetic daily files, interp bit-exact "
         "(variant detected), metric index; oracle against scipy interpolation of the file contents, history independence.",
    technique="Lean 4 theorems (cache invariant by induction over request histories, algebraic identities, interpolation lemmas); differential correspondence",
    design="3/C13",
    note="ll2xy (pyproj) is compared with the file's coordinate arrays only."),
}

def main():
    props = [json.loads(l) for l in open(os.path.join(VERIF, "properties.jsonl"))]
    checks = []
    na = []
    for p in props:
        pid = p["id"]
        if pid in CHECKS and pid in OBLIGATIONS:
            c = dict(CHECKS[pid])
            if pid in BRIDGES:
                mods = [b for b in BRIDGES[pid] if not b.startswith("../")]
                on = [b[3:] for b in BRIDGES[pid] if b.startswith("../")]
                nb = sum(len(BRIDGE_THEOREMS[b]) for b in mods)
                ne = sum(len(BRIDGE_THEOREMS["../" + b]) for b in on)
                c["text"] = c["text"] + (" Second tie (translator, regenerated from /repo on every run): every function anchored by the property is "
                                         "translated statement by statement (closed-form windows and statement sequences with guards); interpreters map each "
                                         "statement TEXT to an operation (unknown text => no result) and %d kernel-checked bridge theorems "
                                         "(LadimProofs/Bridge/{%s}) state 'interpretation of the current source = hand-written model function', so an edited, "
                                         "reordered, re-guarded statement breaks an obligation of this property." % (nb, ",".join(mods))
                              + (" On-code theorems (%d, LadimProofs/{%s}): the property's clauses stated directly about the interpretation of the "
                                 "generated code (end-to-end files E2E_*), with non-vacuity examples." % (ne, ",".join(on)) if on else ""))
                c["technique"] = c["technique"] + ("; Python-AST-to-Lean translation of the code's statements regenerated each run, sequence interpreters, "
                                                   "kernel-checked 'interpretation of the source = model' bridge theorems and end-to-end theorems on the interpreted source")
            checks.append(dict(
                property_id=pid,
                quick_cmd="./check %s --tier quick" % pid,
                thorough_cmd="./check %s --tier thorough" % pid,
                evidence_file="evidence/%s.json" % pid,
                replay_cmd_template="./check %s --replay {path}" % pid,
                engine="lean4-proof+correspondence",
                level_claimed=dict(category="proof", text=c["text"], design_ref="DESIGN.md section " + c["design"]),
                level_note=NOTE + (" " + c["note"] if c.get("note") else ""),
                technique=c["technique"],
            ))
        else:
            na.append(dict(property_id=pid, reason="check not built yet in this session (work in progress; Lean model + theorems planned in DESIGN.md section 3/%s)" % pid))
    m = dict(
        version=1,
        setup_cmd="/venv/bin/python translator/py2lean.py /repo lean/LadimModel/Generated && cd lean && lake build LadimModel driver LadimProofs 2>&1 | tail -5",
        hooks=dict(guard="LADIM_PLUGINS_VERIF", enable="no source hooks are needed: checks import /repo in-process and patch numpy.random from the harness; LADIM_PLUGINS_VERIF=1 is set by ./check for completeness",
                   baseline_off_cmd="cd /repo && /venv/bin/python -m pytest -ra -q -p no:cacheprovider --timeout=900 --continue-on-collection-errors",
                   source_commits=[], add_only=True),
        engines=[dict(name="lean4-proof+correspondence", path="lean/ harness/ translator/ check",
                      serves_properties=[c["property_id"] for c in checks],
                      kind_free_text="Lean 4 model + theorems (lake project lean/), Python AST->Lean translator, line-protocol model driver (native lean_exe), in-process differential harness with RNG recorder")],
        checks=checks,
        notes="All checks: ./check <id> [--tier quick|thorough]; VERIF_SEED selects the PRNG seed. Known findings: known_findings.json.",
        not_applicable=na,
    )
    json.dump(m, open(os.path.join(VERIF, "MANIFEST.json"), "w"), indent=1)
    print("checks:", [c["property_id"] for c in checks], "not claimed:", [n["property_id"] for n in na])

if __name__ == "__main__":
    main()
