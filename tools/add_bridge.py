#!/usr/bin/env python3
"""add_bridge.py <srcdir> <model-relpath> <BridgeModule> <prop>[,<prop>…]: integrate a proof sub-agent's deliverable
(one model file + one bridge file from <srcdir>/lean) into /verif/lean: copy both files, append the imports to
LadimModel.lean / LadimProofs.lean, register the module for the properties in harness/obligations.py (BRIDGES) and every
public theorem of the bridge file as an obligation (BRIDGE_THEOREMS).  Nothing is built here: run ./check afterwards."""
import os, re, shutil, sys
VERIF = os.path.dirname(os.path.dirname(os.path.abspath(__file__)))


def theorem_names(path):
    """fully qualified names relative to `Bridge` of the theorems declared in the file (namespaces tracked)"""
    ns, out = [], []
    for line in open(path):
        m = re.match(r"^namespace\s+([A-Za-z0-9_.]+)", line)
        if m:
            ns.append(m.group(1)); continue
        m = re.match(r"^end\s+([A-Za-z0-9_.]+)", line)
        if m and ns and ns[-1] == m.group(1):
            ns.pop(); continue
        m = re.match(r"^(?:@\[[^\]]*\]\s*)?(private\s+|protected\s+)?(?:theorem|lemma)\s+([A-Za-z0-9_.?!']+)", line)
        if m and not (m.group(1) or "").startswith("private"):
            name = m.group(2)
            full = name[len("_root_."):] if name.startswith("_root_.") else ".".join(ns + [name])
            out.append(full)
    return out


def main():
    src, model_rel, mod, props = sys.argv[1:5]
    props = props.split(",")
    lean = os.path.join(VERIF, "lean")
    shutil.copy(os.path.join(src, "lean", "LadimModel", model_rel), os.path.join(lean, "LadimModel", model_rel))
    shutil.copy(os.path.join(src, "lean", "LadimProofs", "Bridge", mod + ".lean"), os.path.join(lean, "LadimProofs", "Bridge", mod + ".lean"))
    for root, imp in (("LadimModel.lean", "import LadimModel." + model_rel[:-5].replace("/", ".")), ("LadimProofs.lean", "import LadimProofs.Bridge." + mod)):
        p = os.path.join(lean, root); s = open(p).read()
        if imp not in s.split("\n"):
            open(p, "w").write(s.rstrip("\n") + "\n" + imp + "\n")
    names = theorem_names(os.path.join(lean, "LadimProofs", "Bridge", mod + ".lean"))
    rel = []
    for n in names:
        if n.startswith("Ladim.Bridge."): rel.append(n[len("Ladim.Bridge."):])
        elif n.startswith("Bridge."): rel.append(n[len("Bridge."):])
        else: raise SystemExit("theorem outside namespace Bridge: " + n)
    p = os.path.join(VERIF, "harness", "obligations.py"); s = open(p).read()
    for prop in props:
        m = re.search(r'    "%s": \[(.*?)\],\n' % prop, s)
        if m:
            parts = [x.strip() for x in m.group(1).split(",")]
            on = [x for x in parts if "OnCode" in x]; rest = [x for x in parts if "OnCode" not in x]
            if '"%s"' % mod not in rest: rest.append('"%s"' % mod)
            s = s.replace(m.group(0), '    "%s": [%s],\n' % (prop, ", ".join(rest + on)), 1)
        else:
            s = s.replace('}\nBRIDGE_THEOREMS = {', '    "%s": ["%s"],\n}\nBRIDGE_THEOREMS = {' % (prop, mod), 1)
    if '    "%s": [' % mod not in s.split("BRIDGE_THEOREMS = {", 1)[1]:
        body = ", ".join('"%s"' % n for n in rel)
        s = s.replace('BRIDGE_THEOREMS = {\n', 'BRIDGE_THEOREMS = {\n    "%s": [%s],\n' % (mod, body), 1)
    open(p, "w").write(s)
    print(mod, "->", props, len(rel), "theorems")


if __name__ == "__main__":
    main()
