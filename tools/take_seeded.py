#!/usr/bin/env python3
"""take_seeded.py <prop> <srcdir> <slug>: validate a sub-agent's seeded change in a fresh scratch worktree
(tools/validate_seeded.sh) and, when confirmed, store it as /verif/seeded/<prop>-<slug>/ with the confirmation."""
import sys, os, json, shutil, subprocess
VERIF = os.path.dirname(os.path.dirname(os.path.abspath(__file__)))
prop, src, slug = sys.argv[1:4]
r = subprocess.run([os.path.join(VERIF, "tools", "validate_seeded.sh"), prop + "_" + slug.replace("-", "_"), src], stdout=subprocess.PIPE, stderr=subprocess.DEVNULL, text=True, cwd="/")
line = [l for l in r.stdout.split("\n") if "tests=" in l]
print(line[0] if line else r.stdout[-500:])
if r.returncode != 0:
    print("NOT CONFIRMED"); sys.exit(1)
head = subprocess.run(["git", "-C", "/repo", "rev-parse", "--short", "HEAD"], stdout=subprocess.PIPE, text=True).stdout.strip()
dst = os.path.join(VERIF, "seeded", "%s-%s" % (prop, slug))
os.makedirs(dst, exist_ok=True)
shutil.copy(os.path.join(src, "patch.diff"), dst); shutil.copy(os.path.join(src, "demo.py"), dst)
m = json.load(open(os.path.join(src, "meta.json")))
m["origin"] = "written by a fresh sub-agent that saw only the property text, the summaries of earlier seeded changes for the same property and a scratch worktree of /repo (nothing from /verif)"
m["base_commit"] = head
m["confirmed"] = ("tools/validate_seeded.sh in a fresh scratch worktree of /repo HEAD %s: patch applies and touches only %s; pinned test suite gives identical "
                  "per-test outcomes to the unchanged tree; demo.py exits 1 with the change and 0 without it" % (head, ", ".join(m.get("files", []))))
json.dump(m, open(os.path.join(dst, "meta.json"), "w"), indent=1)
print("stored", dst)
