#!/usr/bin/env python3
"""add_oncode.py <srcdir> <Module> <prop>[,<prop>…]: integrate an end-to-end file LadimProofs/OnCode/<Module>.lean (property
clauses stated on the interpretation of the generated sequences) from <srcdir>/lean: copy, import in LadimProofs.lean,
register for the properties (BRIDGES entry "../OnCode.<Module>") with every public theorem as an obligation."""
import os, re, shutil, sys
sys.path.insert(0, os.path.dirname(os.path.abspath(__file__)))
from add_bridge import theorem_names, VERIF


def main():
    src, mod, props = sys.argv[1:4]
    props = props.split(",")
    lean = os.path.join(VERIF, "lean")
    dst = os.path.join(lean, "LadimProofs", "OnCode", mod + ".lean")
    shutil.copy(os.path.join(src, "lean", "LadimProofs", "OnCode", mod + ".lean"), dst)
    p = os.path.join(lean, "LadimProofs.lean"); s = open(p).read(); imp = "import LadimProofs.OnCode." + mod
    if imp not in s.split("\n"):
        open(p, "w").write(s.rstrip("\n") + "\n" + imp + "\n")
    names = []
    for n in theorem_names(dst):
        if n.startswith("Ladim.OnCode."): n = n[len("Ladim."):]
        if not n.startswith("OnCode."): raise SystemExit("theorem outside namespace OnCode: " + n)
        names.append(n)
    key = "../OnCode." + mod
    p = os.path.join(VERIF, "harness", "obligations.py"); s = open(p).read()
    for prop in props:
        m = re.search(r'    "%s": \[(.*?)\],\n' % prop, s)
        if m:
            parts = [x.strip() for x in m.group(1).split(",")]
            if '"%s"' % key not in parts: parts.append('"%s"' % key)
            s = s.replace(m.group(0), '    "%s": [%s],\n' % (prop, ", ".join(parts)), 1)
        else:
            s = s.replace('}\nBRIDGE_THEOREMS = {', '    "%s": ["%s"],\n}\nBRIDGE_THEOREMS = {' % (prop, key), 1)
    if '    "%s": [' % key not in s.split("BRIDGE_THEOREMS = {", 1)[1]:
        s = s.replace('BRIDGE_THEOREMS = {\n', 'BRIDGE_THEOREMS = {\n    "%s": [%s],\n' % (key, ", ".join('"%s"' % n for n in names)), 1)
    open(p, "w").write(s)
    print(mod, "->", props, len(names), "theorems")


if __name__ == "__main__":
    main()
