#!/bin/bash
# validate_seeded.sh <id> <dir-with-patch.diff-and-demo.py>
# Confirms a seeded change in a fresh scratch worktree of /repo (outside /repo and /verif):
#   - the patch applies cleanly to /repo's HEAD and touches only files under ladim_plugins/
#   - the pinned test suite gives the same pass/fail sets as on the unchanged tree
#   - the demonstration exits 1 with the change and 0 without it
# The worktree is removed afterwards.  Prints one summary line; exit 0 when everything is confirmed.
id=$1; src=$2
wt=/tmp/val_$id
git -C /repo worktree remove --force $wt >/dev/null 2>&1
git -C /repo worktree add --detach $wt HEAD >/dev/null 2>&1 || { echo "$id: cannot create worktree"; exit 2; }
cd $wt
run_tests() {  # prints sorted "outcome test-id" lines
  /venv/bin/python -m pytest -q -p no:cacheprovider --timeout=900 --continue-on-collection-errors -rA 2>/dev/null \
    | grep -E '^(PASSED|FAILED|ERROR|SKIPPED)' | sed -E 's/ - .*//' | sort
}
base=/tmp/val_baseline.txt
if [ ! -s $base ]; then run_tests > $base; fi
if ! git apply --check $src/patch.diff 2>/dev/null; then echo "$id: patch does not apply"; cd /; git -C /repo worktree remove --force $wt; exit 1; fi
git apply $src/patch.diff
files=$(git status --short | awk '{print $2}' | tr '\n' ' ')
run_tests > /tmp/val_$id.after
if diff -q $base /tmp/val_$id.after >/dev/null; then tests=same; else tests=DIFFERENT; fi
/venv/bin/python $src/demo.py > /tmp/val_$id.with 2>&1; with=$?
git apply -R $src/patch.diff
/venv/bin/python $src/demo.py > /tmp/val_$id.without 2>&1; without=$?
cd /
git -C /repo worktree remove --force $wt
rm -rf $wt
np=$(grep -c '^PASSED' /tmp/val_$id.after)
echo "$id: files=[$files] tests=$tests passed=$np demo_with=$with demo_without=$without"
[ "$tests" = same ] && [ $with = 1 ] && [ $without = 0 ]
