#!/bin/bash
# soak.sh <tier> <seed>...: run every check on the current tree with the given seeds; print non-zero exits
tier=$1; shift
for seed in "$@"; do
  for p in C01 C02 C03 C04 C05 C06 C07 C08 C09 C10 C11 C12 C13 C14 C15 C16 C17 C18 C19 C20; do
    out=$(VERIF_SEED=$seed ./check $p --tier $tier 2>&1 | tail -1)
    case "$out" in *"exit 0") ;; *) echo "seed=$seed $out";; esac
  done
  echo "seed $seed done"
done
