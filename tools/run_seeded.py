#!/usr/bin/env python3
"""Apply each seeded change under /verif/seeded/<id>/patch.diff to /repo, run the quick check of the property it
breaks (or all checks with --all), undo it, and print the detection matrix.  /repo is always restored."""
import os, sys, json, subprocess, glob, argparse
VERIF = os.path.dirname(os.path.dirname(os.path.abspath(__file__)))


def sh(cmd, **kw):
    return subprocess.run(cmd, stdout=subprocess.PIPE, stderr=subprocess.STDOUT, text=True, **kw)


def main():
    ap = argparse.ArgumentParser()
    ap.add_argument("ids", nargs="*")
    ap.add_argument("--all", action="store_true", help="run every property's check against each change")
    ap.add_argument("--tier", default="quick")
    a = ap.parse_args()
    import fcntl
    os.makedirs(os.path.join(VERIF, "lean", ".lake"), exist_ok=True)
    lock = open(os.path.join(VERIF, "lean", ".lake", "repo.lock"), "w")
    fcntl.flock(lock, fcntl.LOCK_EX)          # no check may run while /repo is patched
    os.environ["VERIF_REPO_LOCK_HELD"] = "1"
    assert sh(["git", "-C", "/repo", "status", "--porcelain"]).stdout.strip() == "", "/repo has uncommitted changes"
    props = sorted(json.loads(l)["id"] for l in open(os.path.join(VERIF, "properties.jsonl")))
    rows = []
    # evidence/ and replays/ describe runs against the unchanged tree: keep them out of these runs
    import shutil, tempfile
    keep = tempfile.mkdtemp(prefix="verif_seeded_keep_")
    for sub in ("evidence", "replays"):
        if os.path.isdir(os.path.join(VERIF, sub)):
            shutil.copytree(os.path.join(VERIF, sub), os.path.join(keep, sub))
    try:
        rows = run_all(a, props)
    finally:
        for sub in ("evidence", "replays"):
            if os.path.isdir(os.path.join(keep, sub)):
                shutil.rmtree(os.path.join(VERIF, sub), ignore_errors=True)
                shutil.copytree(os.path.join(keep, sub), os.path.join(VERIF, sub))
        shutil.rmtree(keep, ignore_errors=True)
    for r in rows:
        print("%-10s breaks %-4s own check: %-60s others alarmed: %s" % r)


def run_all(a, props):
    rows = []
    for d in sorted(glob.glob(os.path.join(VERIF, "seeded", "*"))):
        sid = os.path.basename(d)
        if a.ids and sid not in a.ids:
            continue
        meta = json.load(open(os.path.join(d, "meta.json")))
        if meta.get("superseded"):
            rows.append((sid, meta["property"], "superseded (see meta.json)", "")); continue
        r = sh(["git", "-C", "/repo", "apply", os.path.join(d, "patch.diff")])
        if r.returncode != 0:
            rows.append((sid, meta["property"], "PATCH DOES NOT APPLY", "")); continue
        try:
            targets = props if a.all else [meta["property"]]
            res = {}
            for p in targets:
                o = sh([os.path.join(VERIF, "check"), p, "--tier", a.tier], cwd=VERIF, env=dict(os.environ, VERIF_SEED=os.environ.get("VERIF_SEED", "0")))
                line = [l for l in o.stdout.split("\n") if l.startswith("VIOLATION")]
                res[p] = ("exit %d" % o.returncode) + (" " + line[0].split("replay=")[1] if line else "")
        finally:
            sh(["git", "-C", "/repo", "checkout", "--", "."])
        rows.append((sid, meta["property"], res.get(meta["property"]), {k: v for k, v in res.items() if k != meta["property"] and not v.startswith("exit 0")}))
    return rows


if __name__ == "__main__":
    main()
