import LadimModel.Grid.Sample
import LadimModel.IBM.Sequence
import LadimModel.Release.AttrSeq
import LadimModel.Generated.Formulas
/-!
Interpretation of the generated statement sequences of the grid sampling code (property C15):

`chemicals/gridforce.py`
* `Gen.chem_clamp_index_seq`        — `_clamp_index`
* `Gen.chem_z2s_seq`                — `z2s`
* `Gen.chem_sample3D_seq`           — `sample3D`
* `Gen.chem_sample3DUV_seq`         — `sample3DUV`
* `Gen.chem_forcing_velocity_seq`   — `Forcing.velocity`
* `Gen.chem_forcing_field_seq`      — `Forcing.field`
* `Gen.chem_forcing_vertdiff_seq`   — `Forcing.vertdiff`
* `Gen.chem_forcing_horzdiff_seq`   — `Forcing.horzdiff`
* `Gen.chem_forcing_wvel_seq`       — `Forcing.wvel`
* `Gen.chem_grid_ingrid_seq`, `Gen.chem_grid_atsea_seq`, `Gen.chem_grid_sample_depth_seq`,
  `Gen.chem_grid_sample_metric_seq`, `Gen.chem_grid_xy2ll_seq` — methods of `Grid`

`sedimentation/gridforce.py`
* `Gen.sed_grid_sample_depth_seq`, `Gen.sed_grid_xy2ll_seq`

with the operations of the hand-written model `LadimModel/Grid/Sample.lean`.  Every function is run by `Seq.runRet`
(`LadimModel/Release/AttrSeq.lean`): every statement text, every condition text and the text of every `return`
expression must be one the interpreter knows (exact string match) — also in the branch that is not taken and after the
statement that ends the run.  A call of a function that has a generated sequence of its own (`_clamp_index`, `z2s`,
`sample3D`, `sample3DUV`, `Grid.atsea`, the `xy2ll` of the parent class) runs the interpreter of that sequence.
`LadimProofs/Bridge/SampleSeq.lean` proves that the interpretations are the closed forms below (`…Spec`), which are
compositions of the functions of the hand-written model (`clampIdx`, `cellIndex`, `countBelow`, `trilinear`,
`horzdiffValue`, `ingrid`, …).  `z2sSpec` is written on the array reads; for an array of at least two levels it is
`z2sModel` = the hand-written `z2sK` / `z2sA` of the column (`Bridge.chem_z2s_model`); the closed forms of the `Forcing`
methods take the closed form of `z2s` as a parameter (`…SpecWith`), so that they can be stated with either.

Results: `none` = a text the interpreter does not know (the tie is broken); `some none` = the code raises (`NameError`
on a local variable that is not yet assigned); `some (some r)` = the code returns `r`.

Conventions.  One particle (the arrays `X, Y, Z, K, A, …` of the code are treated elementwise).  Integer-valued Python
variables (`I`, `J`, `K`, `K_nearest`, `i0`, `j0`, shapes) are `Int`; an `int` that meets a `float` is converted by
`HasOfInt.ofInt`; the integer literals `0`, `1` that meet a float are `0.0`, `1.0`.  `np.round` / `np.around` /
`.round()` is `HasRound.round`, `.astype('int')` / `.astype(int)` / `np.int32(·)` / `.astype(np.int32)` is
`HasTrunc.trunc` (no overflow), `np.clip(a, lo, hi)` / `a.clip(lo, hi)` is `minimum(maximum(a, lo), hi)`,
`np.minimum` / `np.maximum` are `min` / `max` on `Int` and `fmin` / `fmax` on the scalars, `np.abs` is `fabs`.

Parameters of the interpretation (what is *not* read off the statement texts):

* arrays: `Arr3` / `Arr2` = the shape and the *array read* `F[k, j, i]` / `H[j, i]` as a total function of the integer
  indices (what numpy does with an index outside the array — wrap-around of a negative index, `IndexError` — is the
  read's; the Bridge theorems show at which indices the code reads).  `z_rho[:, J, I]` is the list of the reads at
  `k = 0 … shape[0] - 1` (`Arr3.col`);
* `z2s`: the arguments `X`, `Y` are `Coord`s — a float, or an integer (as `vertdiff` / `horzdiff` pass them; `np.around`
  of an integer array is the array itself);
* `Forcing`: `attr name` = `getattr(self, name)`; `self[name]` is `getattr(self, name)` (`Forcing.__getitem__`), so
  `self.U` and `self['U']` are both `attr "U"`; array arithmetic `self.U + tstep * self.dU` is elementwise on the reads;
* `Grid` (`GridEnv`): the attributes `i0, j0, z_w, z_r, H, M, dx, lon, lat, xmin, xmax, ymin, ymax` and
  `nCsw = len(self.Cs_w)`;
* library calls: `np.nextafter(·, 0)` (`nextafter0`), `ladim.sample.sample2D` (`sample2D`, arguments `F, x, y`),
  `scipy.ndimage.map_coordinates(·, [j, i], order=1, mode='nearest')` (`mapNearest`, arguments `H, j, i`).
-/
namespace Ladim.SampleSeq
open Ladim.Seq Ladim.GridSample

/-! ### arrays, call helpers -/

/-- a 3-D array `F[k, j, i]`: `shape = (kmax, jmax, imax)` and the array read -/
structure Arr3 (α : Type) where
  kmax : Nat
  jmax : Nat
  imax : Nat
  get : Int → Int → Int → α

/-- a 2-D array `H[j, i]`: `shape = (jmax, imax)` and the array read -/
structure Arr2 (α : Type) where
  jmax : Nat
  imax : Nat
  get : Int → Int → α

/-- `F[:, j, i]` -/
def Arr3.col {α : Type} (F : Arr3 α) (j i : Int) : List α := (List.range F.kmax).map (fun (k : Nat) => F.get (k : Int) j i)

/-- `F + t * dF`, elementwise, with the shape of `F` -/
def Arr3.axpy {α : Type} [Add α] [Mul α] (F : Arr3 α) (t : α) (dF : Arr3 α) : Arr3 α :=
  { F with get := fun k j i => F.get k j i + t * dF.get k j i }

/-- a horizontal coordinate handed to `z2s`: a float or an integer array element -/
inductive Coord (α : Type) where
  | real (x : α)
  | int (i : Int)

/-- `np.around(X).astype('int')` -/
def Coord.around {α : Type} [HasRound α] [HasTrunc α] : Coord α → Int
  | .real x => trunc (round x)
  | .int i => i

/-- a call of a function that is itself an interpreted sequence.  `args = none`: an argument is a local variable that
is not yet assigned (`NameError`).  Unknown text in the callee / the callee raises / the new state. -/
def callWith {σ P R : Type} (args : Option P) (f : P → Option (Option R)) (k : R → σ) : Option (Option σ) :=
  match args with
  | none => some none
  | some p =>
    match f p with
    | none => none
    | some none => some none
    | some (some v) => some (some (k v))

/-- a `return` of a value computed by one call -/
def retWith {P R : Type} (args : Option P) (f : P → Option (Option R)) : Option (Option R) :=
  callWith args f id

/-- a pair of two calls (left first) -/
def both {A B : Type} (a : Option (Option A)) (b : Option (Option B)) : Option (Option (A × B)) :=
  match a, b with
  | none, _ => none
  | _, none => none
  | some none, _ => some none
  | _, some none => some none
  | some (some x), some (some y) => some (some (x, y))

def map2 {A B C : Type} (f : A → B → C) : Option A → Option B → Option C
  | some a, some b => some (f a b)
  | _, _ => none

def map3 {A B C D : Type} (f : A → B → C → D) : Option A → Option B → Option C → Option D
  | some a, some b, some c => some (f a b c)
  | _, _, _ => none

def noAtom {σ : Type} (_ : σ) : String → Option Bool
  | _ => none

/-! ### `_clamp_index(I, J, shape)` -/

structure CiSt where
  I : Int
  J : Int

def ciStep (shape : Nat × Nat) (s : CiSt) : String → String → Option (Option CiSt)
  | "assign", "I = np.minimum(np.maximum(I, 0), shape[1] - 1)" =>
    some (some { s with I := min (max s.I 0) ((shape.2 : Int) - 1) })
  | "assign", "J = np.minimum(np.maximum(J, 0), shape[0] - 1)" =>
    some (some { s with J := min (max s.J 0) ((shape.1 : Int) - 1) })
  | _, _ => none

def ciRet (s : CiSt) : String → Option (Option (Int × Int))
  | "(I, J)" => some (some (s.I, s.J))
  | _ => none

/-- `_clamp_index(I, J, shape)` as the generated sequence says; `shape = (shape[0], shape[1])` -/
def clampIndexSeq (I J : Int) (shape : Nat × Nat) : Option (Option (Int × Int)) :=
  runRet noAtom (ciStep shape) ciRet Gen.chem_clamp_index_seq ⟨I, J⟩

section
variable {α : Type} [Add α] [Sub α] [Mul α] [Div α] [Neg α] [LT α] [DecidableLT α]
  [LE α] [DecidableLE α] [OfScientific α] [HasRound α] [HasTrunc α] [HasOfInt α]

/-! ### `z2s(z_rho, X, Y, Z)` -/

structure Z2sSt (α : Type) where
  kmax : Option Int
  I : Option Int
  J : Option Int
  K : Option Int
  A : Option α

def Z2sSt.init : Z2sSt α := ⟨none, none, none, none, none⟩

def z2sStep (zr : Arr3 α) (X Y : Coord α) (Z : α) (s : Z2sSt α) : String → String → Option (Option (Z2sSt α))
  | "assign", "kmax = z_rho.shape[0]" => some (some { s with kmax := some (zr.kmax : Int) })
  | "assign", "I = np.around(X).astype('int')" => some (some { s with I := some X.around })
  | "assign", "J = np.around(Y).astype('int')" => some (some { s with J := some Y.around })
  | "assign", "I, J = _clamp_index(I, J, z_rho.shape[1:])" =>
    callWith (map2 Prod.mk s.I s.J) (fun a => clampIndexSeq a.1 a.2 (zr.jmax, zr.imax))
      (fun r => { s with I := some r.1, J := some r.2 })
  | "assign", "K = np.sum(z_rho[:, J, I] < -Z, axis=0)" =>
    some (map2 (fun i j => { s with K := some ((countBelow (zr.col j i) Z : Nat) : Int) }) s.I s.J)
  | "assign", "K = K.clip(1, kmax - 1)" =>
    some (map2 (fun k n => { s with K := some (min (max k 1) (n - 1)) }) s.K s.kmax)
  | "assign", "A = (z_rho[K, J, I] + Z) / (z_rho[K, J, I] - z_rho[K - 1, J, I])" =>
    some (map3 (fun k j i => { s with A := some ((zr.get k j i + Z) / (zr.get k j i - zr.get (k - 1) j i)) })
      s.K s.J s.I)
  | "assign", "A = A.clip(0, 1)" => some (s.A.map (fun a => { s with A := some (fmin (fmax a 0.0) 1.0) }))
  | _, _ => none

def z2sRet (s : Z2sSt α) : String → Option (Option (Int × α))
  | "(K, A)" => some (map2 Prod.mk s.K s.A)
  | _ => none

/-- `z2s(z_rho, X, Y, Z)` as the generated sequences say: `(K, A)` -/
def z2sSeq (zr : Arr3 α) (X Y : Coord α) (Z : α) : Option (Option (Int × α)) :=
  runRet noAtom (z2sStep zr X Y Z) z2sRet Gen.chem_z2s_seq Z2sSt.init

/-- closed form of `z2s` on the array reads: the column of the cell `J, I` (rounded, then clamped to the array), the
level count clipped to `[1, kmax - 1]`, the weight clipped to `[0, 1]` -/
def z2sSpec (zr : Arr3 α) (X Y : Coord α) (Z : α) : Int × α :=
  let J := clampIdx zr.jmax Y.around
  let I := clampIdx zr.imax X.around
  let K : Int := min (max ((countBelow (zr.col J I) Z : Nat) : Int) 1) ((zr.kmax : Int) - 1)
  (K, fmin (fmax ((zr.get K J I + Z) / (zr.get K J I - zr.get (K - 1) J I)) 0.0) 1.0)

/-- `z2s` by the hand-written model: `z2sK` and `z2sA` (`zero` = the default of its list reads) of the column of the
cell.  Equal to `z2sSpec` for an array of at least two levels (`Bridge.chem_z2s_model`). -/
def z2sModel (zero : α) (zr : Arr3 α) (X Y : Coord α) (Z : α) : Int × α :=
  (((z2sK (zr.col (clampIdx zr.jmax Y.around) (clampIdx zr.imax X.around)) Z : Nat) : Int),
    z2sA (zr.col (clampIdx zr.jmax Y.around) (clampIdx zr.imax X.around)) Z zero)

/-- the type of a closed form of `z2s` (`z2sSpec`, `z2sModel zero`): the closed forms of the `Forcing` methods take it
as a parameter -/
abbrev Z2s (α : Type) := Arr3 α → Coord α → Coord α → α → Int × α

/-! ### `sample3D(F, X, Y, K, A, method)` -/

structure S3St (α : Type) where
  I : Option Int
  J : Option Int
  P : Option α
  Q : Option α
  W000 : Option α
  W010 : Option α
  W100 : Option α
  W110 : Option α
  W001 : Option α
  W011 : Option α
  W101 : Option α
  W111 : Option α

def S3St.init : S3St α := ⟨none, none, none, none, none, none, none, none, none, none, none, none⟩

/-- `bilinear` = the value of `method == 'bilinear'` -/
def s3Atom (bilinear : Bool) (_ : S3St α) : String → Option Bool
  | "method == 'bilinear'" => some bilinear
  | _ => none

def s3Step (F : Arr3 α) (X Y : α) (A : α) (s : S3St α) : String → String → Option (Option (S3St α))
  | "assign", "I = np.clip(X.astype('int'), 0, F.shape[2] - 2)" =>
    some (some { s with I := some (min (max (trunc X) 0) ((F.imax : Int) - 2)) })
  | "assign", "J = np.clip(Y.astype('int'), 0, F.shape[1] - 2)" =>
    some (some { s with J := some (min (max (trunc Y) 0) ((F.jmax : Int) - 2)) })
  | "assign", "P = np.clip(X - I, 0, 1)" =>
    some (s.I.map (fun i => { s with P := some (fmin (fmax (X - ofInt i) 0.0) 1.0) }))
  | "assign", "Q = np.clip(Y - J, 0, 1)" =>
    some (s.J.map (fun j => { s with Q := some (fmin (fmax (Y - ofInt j) 0.0) 1.0) }))
  | "assign", "W000 = (1 - P) * (1 - Q) * (1 - A)" =>
    some (map2 (fun p q => { s with W000 := some ((1.0 - p) * (1.0 - q) * (1.0 - A)) }) s.P s.Q)
  | "assign", "W010 = (1 - P) * Q * (1 - A)" =>
    some (map2 (fun p q => { s with W010 := some ((1.0 - p) * q * (1.0 - A)) }) s.P s.Q)
  | "assign", "W100 = P * (1 - Q) * (1 - A)" =>
    some (map2 (fun p q => { s with W100 := some (p * (1.0 - q) * (1.0 - A)) }) s.P s.Q)
  | "assign", "W110 = P * Q * (1 - A)" =>
    some (map2 (fun p q => { s with W110 := some (p * q * (1.0 - A)) }) s.P s.Q)
  | "assign", "W001 = (1 - P) * (1 - Q) * A" =>
    some (map2 (fun p q => { s with W001 := some ((1.0 - p) * (1.0 - q) * A) }) s.P s.Q)
  | "assign", "W011 = (1 - P) * Q * A" =>
    some (map2 (fun p q => { s with W011 := some ((1.0 - p) * q * A) }) s.P s.Q)
  | "assign", "W101 = P * (1 - Q) * A" =>
    some (map2 (fun p q => { s with W101 := some (p * (1.0 - q) * A) }) s.P s.Q)
  | "assign", "W111 = P * Q * A" =>
    some (map2 (fun p q => { s with W111 := some (p * q * A) }) s.P s.Q)
  | "assign", "I = X.round().astype('int')" => some (some { s with I := some (trunc (round X)) })
  | "assign", "J = Y.round().astype('int')" => some (some { s with J := some (trunc (round Y)) })
  | "assign", "I, J = _clamp_index(I, J, F.shape[1:])" =>
    callWith (map2 Prod.mk s.I s.J) (fun a => clampIndexSeq a.1 a.2 (F.jmax, F.imax))
      (fun r => { s with I := some r.1, J := some r.2 })
  | _, _ => none

/-- the weighted sum of the eight reads, as the `return` expression writes it -/
def s3Sum (F : Arr3 α) (K I J : Int) (w000 w010 w100 w110 w001 w011 w101 w111 : α) : α :=
  w000 * F.get K J I + w010 * F.get K (J + 1) I + w100 * F.get K J (I + 1) + w110 * F.get K (J + 1) (I + 1)
    + w001 * F.get (K - 1) J I + w011 * F.get (K - 1) (J + 1) I + w101 * F.get (K - 1) J (I + 1)
    + w111 * F.get (K - 1) (J + 1) (I + 1)

def s3Ret (F : Arr3 α) (K : Int) (s : S3St α) : String → Option (Option α)
  | "W000 * F[K, J, I] + W010 * F[K, J + 1, I] + W100 * F[K, J, I + 1] + W110 * F[K, J + 1, I + 1] + W001 * F[K - 1, J, I] + W011 * F[K - 1, J + 1, I] + W101 * F[K - 1, J, I + 1] + W111 * F[K - 1, J + 1, I + 1]" =>
    some (s.I.bind fun i => s.J.bind fun j =>
      s.W000.bind fun w000 => s.W010.bind fun w010 => s.W100.bind fun w100 => s.W110.bind fun w110 =>
      s.W001.bind fun w001 => s.W011.bind fun w011 => s.W101.bind fun w101 => s.W111.map fun w111 =>
        s3Sum F K i j w000 w010 w100 w110 w001 w011 w101 w111)
  | "F[K, J, I]" => some (map2 (fun j i => F.get K j i) s.J s.I)
  | _ => none

/-- `sample3D(F, X, Y, K, A, method)` as the generated sequences say; `bilinear` = `method == 'bilinear'` -/
def sample3DSeq (F : Arr3 α) (X Y : α) (K : Int) (A : α) (bilinear : Bool) : Option (Option α) :=
  runRet (s3Atom bilinear) (s3Step F X Y A) (s3Ret F K) Gen.chem_sample3D_seq S3St.init

/-- the lower left corner of `sample3D(method='bilinear')`: `clip(int(x), 0, n - 2)` -/
def corner (n : Nat) (x : α) : Int := min (max (trunc x) 0) ((n : Int) - 2)

/-- the in-cell offset relative to the (clamped) corner, clipped to `[0, 1]` -/
def offset (x : α) (c : Int) : α := fmin (fmax (x - ofInt c) 0.0) 1.0

/-- closed form of `sample3D`: bilinear = the corner first, the offsets relative to the clamped corner, `trilinear`
on the eight reads; nearest = the read at the rounded, then clamped cell -/
def sample3DSpec (F : Arr3 α) (X Y : α) (K : Int) (A : α) (bilinear : Bool) : α :=
  if bilinear then
    let I := corner F.imax X
    let J := corner F.jmax Y
    trilinear (offset X I) (offset Y J) A
      (F.get K J I) (F.get K (J + 1) I) (F.get K J (I + 1)) (F.get K (J + 1) (I + 1))
      (F.get (K - 1) J I) (F.get (K - 1) (J + 1) I) (F.get (K - 1) J (I + 1)) (F.get (K - 1) (J + 1) (I + 1))
  else
    F.get K (clampIdx F.jmax (trunc (round Y))) (clampIdx F.imax (trunc (round X)))

/-! ### `sample3DUV(U, V, X, Y, K, A, method)` -/

def uvRet (U V : Arr3 α) (X Y : α) (K : Int) (A : α) (bilinear : Bool) (_ : Unit) :
    String → Option (Option (α × α))
  | "(sample3D(U, X + 0.5, np.round(Y), K, A, method=method), sample3D(V, np.round(X), Y + 0.5, K, A, method=method))" =>
    both (sample3DSeq U (X + 0.5) (round Y) K A bilinear) (sample3DSeq V (round X) (Y + 0.5) K A bilinear)
  | _ => none

def noStep {σ : Type} (_ : σ) : String → String → Option (Option σ)
  | _, _ => none

/-- `sample3DUV(U, V, X, Y, K, A, method)` as the generated sequences say -/
def sample3DUVSeq (U V : Arr3 α) (X Y : α) (K : Int) (A : α) (bilinear : Bool) : Option (Option (α × α)) :=
  runRet noAtom noStep (uvRet U V X Y K A bilinear) Gen.chem_sample3DUV_seq ()

/-- closed form: `U` at `(X + 0.5, round(Y))`, `V` at `(round(X), Y + 0.5)` -/
def sample3DUVSpec (U V : Arr3 α) (X Y : α) (K : Int) (A : α) (bilinear : Bool) : α × α :=
  (sample3DSpec U (X + 0.5) (round Y) K A bilinear, sample3DSpec V (round X) (Y + 0.5) K A bilinear)

/-! ### the grid object -/

structure GridEnv (α : Type) where
  i0 : Int
  j0 : Int
  z_w : Arr3 α
  z_r : Arr3 α
  H : Arr2 α
  M : Arr2 α
  dx : Arr2 α
  lon : Arr2 α
  lat : Arr2 α
  /-- `len(self.Cs_w)` -/
  nCsw : Nat
  xmin : α
  xmax : α
  ymin : α
  ymax : α

/-! ### `Grid.ingrid(X, Y)` -/

def ingridRet (g : GridEnv α) (X Y : α) (_ : Unit) : String → Option (Option Bool)
  | "(self.xmin - 0.5 < X) & (X < self.xmax + 0.5) & (self.ymin - 0.5 < Y) & (Y < self.ymax + 0.5)" =>
    some (some (decide (g.xmin - 0.5 < X) && decide (X < g.xmax + 0.5) && decide (g.ymin - 0.5 < Y)
      && decide (Y < g.ymax + 0.5)))
  | _ => none

def ingridSeq (g : GridEnv α) (X Y : α) : Option (Option Bool) :=
  runRet noAtom noStep (ingridRet g X Y) Gen.chem_grid_ingrid_seq ()

/-! ### `Grid.atsea`, `Grid.sample_depth`, `Grid.sample_metric`: nearest cell of a 2-D array -/

structure CellSt (α : Type) where
  I : Option Int
  J : Option Int
  A : Option α

def CellSt.init : CellSt α := ⟨none, none, none⟩

/-- the statements of `atsea`, `sample_depth`, `sample_metric` (they differ in the array whose shape clamps) -/
def cellStep (g : GridEnv α) (X Y : α) (s : CellSt α) : String → String → Option (Option (CellSt α))
  | "assign", "I = X.round().astype(int) - self.i0" => some (some { s with I := some (trunc (round X) - g.i0) })
  | "assign", "J = Y.round().astype(int) - self.j0" => some (some { s with J := some (trunc (round Y) - g.j0) })
  | "assign", "I, J = _clamp_index(I, J, self.M.shape)" =>
    callWith (map2 Prod.mk s.I s.J) (fun a => clampIndexSeq a.1 a.2 (g.M.jmax, g.M.imax))
      (fun r => { s with I := some r.1, J := some r.2 })
  | "assign", "I, J = _clamp_index(I, J, self.H.shape)" =>
    callWith (map2 Prod.mk s.I s.J) (fun a => clampIndexSeq a.1 a.2 (g.H.jmax, g.H.imax))
      (fun r => { s with I := some r.1, J := some r.2 })
  | "assign", "I, J = _clamp_index(I, J, self.dx.shape)" =>
    callWith (map2 Prod.mk s.I s.J) (fun a => clampIndexSeq a.1 a.2 (g.dx.jmax, g.dx.imax))
      (fun r => { s with I := some r.1, J := some r.2 })
  | "assign", "A = self.dx[J, I]" => some (map2 (fun j i => { s with A := some (g.dx.get j i) }) s.J s.I)
  | _, _ => none

def atseaRet (g : GridEnv α) (s : CellSt α) : String → Option (Option Bool)
  | "self.M[J, I] > 0" => some (map2 (fun j i => decide (0.0 < g.M.get j i)) s.J s.I)
  | _ => none

def depthRet (g : GridEnv α) (s : CellSt α) : String → Option (Option α)
  | "self.H[J, I]" => some (map2 (fun j i => g.H.get j i) s.J s.I)
  | _ => none

def metricRet (s : CellSt α) : String → Option (Option (α × α))
  | "(A, A)" => some (s.A.map (fun a => (a, a)))
  | _ => none

def atseaSeq (g : GridEnv α) (X Y : α) : Option (Option Bool) :=
  runRet noAtom (cellStep g X Y) (atseaRet g) Gen.chem_grid_atsea_seq CellSt.init

def sampleDepthSeq (g : GridEnv α) (X Y : α) : Option (Option α) :=
  runRet noAtom (cellStep g X Y) (depthRet g) Gen.chem_grid_sample_depth_seq CellSt.init

def sampleMetricSeq (g : GridEnv α) (X Y : α) : Option (Option (α × α)) :=
  runRet noAtom (cellStep g X Y) metricRet Gen.chem_grid_sample_metric_seq CellSt.init

/-- the read of a 2-D array at the particle's own cell: `round`, minus the offset, clamped to the array -/
def Arr2.atCell (H : Arr2 α) (i0 j0 : Int) (X Y : α) : α :=
  H.get (cellIndex H.jmax j0 Y) (cellIndex H.imax i0 X)

/-! ### `Grid.xy2ll` (chemicals), `Grid.sample_depth` / `Grid.xy2ll` (sedimentation) -/

structure LlSt (α : Type) where
  x : Option α
  y : Option α

def LlSt.init : LlSt α := ⟨none, none⟩

/-- `nextafter0 v` = `np.nextafter(v, 0)` -/
def llStep (nextafter0 : α → α) (g : GridEnv α) (X Y : α) (s : LlSt α) :
    String → String → Option (Option (LlSt α))
  | "assign", "x = np.clip(X - self.i0, 0, np.nextafter(self.lon.shape[1] - 1.0, 0))" =>
    some (some { s with x := some (fmin (fmax (X - ofInt g.i0) 0.0) (nextafter0 (ofInt (g.lon.imax : Int) - 1.0))) })
  | "assign", "y = np.clip(Y - self.j0, 0, np.nextafter(self.lon.shape[0] - 1.0, 0))" =>
    some (some { s with y := some (fmin (fmax (Y - ofInt g.j0) 0.0) (nextafter0 (ofInt (g.lon.jmax : Int) - 1.0))) })
  | _, _ => none

def llRet {β : Type} (sample2D : Arr2 α → α → α → β) (g : GridEnv α) (s : LlSt α) :
    String → Option (Option (β × β))
  | "(sample2D(self.lon, x, y), sample2D(self.lat, x, y))" =>
    some (map2 (fun x y => (sample2D g.lon x y, sample2D g.lat x y)) s.x s.y)
  | _ => none

/-- chemicals `Grid.xy2ll(X, Y)` as the generated sequence says -/
def xy2llSeq {β : Type} (nextafter0 : α → α) (sample2D : Arr2 α → α → α → β) (g : GridEnv α) (X Y : α) :
    Option (Option (β × β)) :=
  runRet noAtom (llStep nextafter0 g X Y) (llRet sample2D g) Gen.chem_grid_xy2ll_seq LlSt.init

/-- closed form: the local coordinate clipped to `[0, nextafter(n - 1, 0)]`, `sample2D` of `lon` and of `lat` there -/
def xy2llSpec {β : Type} (nextafter0 : α → α) (sample2D : Arr2 α → α → α → β) (g : GridEnv α) (X Y : α) : β × β :=
  let x := fmin (fmax (X - ofInt g.i0) 0.0) (nextafter0 (ofInt (g.lon.imax : Int) - 1.0))
  let y := fmin (fmax (Y - ofInt g.j0) 0.0) (nextafter0 (ofInt (g.lon.jmax : Int) - 1.0))
  (sample2D g.lon x y, sample2D g.lat x y)

structure SedDepthSt (α : Type) where
  i : Option α
  j : Option α

def sedDepthStep (g : GridEnv α) (X Y : α) (s : SedDepthSt α) : String → String → Option (Option (SedDepthSt α))
  | "import", "from scipy.ndimage import map_coordinates" => some (some s)
  | "assign", "i = X - self.i0" => some (some { s with i := some (X - ofInt g.i0) })
  | "assign", "j = Y - self.j0" => some (some { s with j := some (Y - ofInt g.j0) })
  | _, _ => none

/-- `mapNearest H j i` = `map_coordinates(H, [j, i], order=1, mode='nearest')` -/
def sedDepthRet {β : Type} (mapNearest : Arr2 α → α → α → β) (g : GridEnv α) (s : SedDepthSt α) :
    String → Option (Option β)
  | "map_coordinates(self.H, [j, i], order=1, mode='nearest')" =>
    some (map2 (fun j i => mapNearest g.H j i) s.j s.i)
  | _ => none

/-- sedimentation `Grid.sample_depth(X, Y)` as the generated sequence says -/
def sedSampleDepthSeq {β : Type} (mapNearest : Arr2 α → α → α → β) (g : GridEnv α) (X Y : α) : Option (Option β) :=
  runRet noAtom (sedDepthStep g X Y) (sedDepthRet mapNearest g) Gen.sed_grid_sample_depth_seq ⟨none, none⟩

/-- the meaning of `map_coordinates(H, [j, i], order=1, mode='nearest')`: the coordinate clamped to the array
(`[0, n - 1]`), the lower left node `j0, i0` of its cell (`floor`, at most `n - 2`), `GridSample.bilinear` of the four
reads there.  (A reference instance of the parameter `mapNearest`; `floor` is given as `trunc` of a non-negative
number.) -/
def mapNearestRef (H : Arr2 α) (j i : α) : α :=
  let jc := fmin (fmax j 0.0) (ofInt (H.jmax : Int) - 1.0)
  let ic := fmin (fmax i 0.0) (ofInt (H.imax : Int) - 1.0)
  let j0 : Int := max (min (trunc jc) ((H.jmax : Int) - 2)) 0
  let i0 : Int := max (min (trunc ic) ((H.imax : Int) - 2)) 0
  bilinear (ic - ofInt i0) (jc - ofInt j0) (H.get j0 i0) (H.get j0 (i0 + 1)) (H.get (j0 + 1) i0)
    (H.get (j0 + 1) (i0 + 1))

def sedLlStep (nextafter0 : α → α) (g : GridEnv α) (X Y : α) (s : LlSt α) :
    String → String → Option (Option (LlSt α))
  | "import", "import numpy as np" => some (some s)
  | "assign", "x = np.clip(X, self.i0, np.nextafter(self.i0 + self.lon.shape[1] - 1.0, 0))" =>
    some (some { s with x := some (fmin (fmax X (ofInt g.i0)) (nextafter0 (ofInt (g.i0 + (g.lon.imax : Int)) - 1.0))) })
  | "assign", "y = np.clip(Y, self.j0, np.nextafter(self.j0 + self.lon.shape[0] - 1.0, 0))" =>
    some (some { s with y := some (fmin (fmax Y (ofInt g.j0)) (nextafter0 (ofInt (g.j0 + (g.lon.jmax : Int)) - 1.0))) })
  | _, _ => none

/-- `superXy2ll x y` = the `xy2ll` of the parent class (`ladim.gridforce.ROMS.Grid`, LADiM's own) -/
def sedLlRet {β : Type} (superXy2ll : α → α → β) (s : LlSt α) : String → Option (Option β)
  | "super().xy2ll(x, y)" => some (map2 superXy2ll s.x s.y)
  | _ => none

/-- sedimentation `Grid.xy2ll(X, Y)` as the generated sequence says -/
def sedXy2llSeq {β : Type} (nextafter0 : α → α) (superXy2ll : α → α → β) (g : GridEnv α) (X Y : α) :
    Option (Option β) :=
  runRet noAtom (sedLlStep nextafter0 g X Y) (sedLlRet superXy2ll) Gen.sed_grid_xy2ll_seq LlSt.init

/-- closed form: the *global* coordinate clipped to `[i0, nextafter(i0 + n - 1, 0)]`, then the parent's `xy2ll` -/
def sedXy2llSpec {β : Type} (nextafter0 : α → α) (superXy2ll : α → α → β) (g : GridEnv α) (X Y : α) : β :=
  superXy2ll (fmin (fmax X (ofInt g.i0)) (nextafter0 (ofInt (g.i0 + (g.lon.imax : Int)) - 1.0)))
    (fmin (fmax Y (ofInt g.j0)) (nextafter0 (ofInt (g.j0 + (g.lon.jmax : Int)) - 1.0)))

/-! ### `Forcing.velocity(X, Y, Z, tstep, method)` -/

structure VelSt (α : Type) where
  i0 : Option Int
  j0 : Option Int
  K : Option Int
  A : Option α
  lim : Option Bool
  U : Option (Arr3 α)
  V : Option (Arr3 α)

def VelSt.init : VelSt α := ⟨none, none, none, none, none, none, none⟩

/-- `small` = the value of `tstep < 0.001` -/
def velAtom (small : Bool) (_ : VelSt α) : String → Option Bool
  | "tstep < 0.001" => some small
  | _ => none

def velStep (g : GridEnv α) (attr : String → Arr3 α) (X Y Z tstep : α) (s : VelSt α) :
    String → String → Option (Option (VelSt α))
  | "assign", "i0 = self._grid.i0" => some (some { s with i0 := some g.i0 })
  | "assign", "j0 = self._grid.j0" => some (some { s with j0 := some g.j0 })
  | "assign", "K, A = z2s(self._grid.z_w, X - i0, Y - j0, Z)" =>
    callWith (map2 Prod.mk s.i0 s.j0) (fun a => z2sSeq g.z_w (.real (X - ofInt a.1)) (.real (Y - ofInt a.2)) Z)
      (fun r => { s with K := some r.1, A := some r.2 })
  | "assign", "A = np.ones_like(A)" => some (s.A.map (fun _ => { s with A := some 1.0 }))
  | "assign", "idx_K_limit = K >= self._grid.z_w.shape[0] - 1" =>
    some (s.K.map (fun k => { s with lim := some (decide ((g.z_w.kmax : Int) - 1 ≤ k)) }))
  | "assign", "K[idx_K_limit] = self._grid.z_w.shape[0] - 2" =>
    some (map2 (fun k (l : Bool) => { s with K := some (if l then (g.z_w.kmax : Int) - 2 else k) }) s.K s.lim)
  | "assign", "A[idx_K_limit] = 0" =>
    some (map2 (fun a (l : Bool) => { s with A := some (if l then 0.0 else a) }) s.A s.lim)
  | "assign", "U = self.U" => some (some { s with U := some (attr "U") })
  | "assign", "V = self.V" => some (some { s with V := some (attr "V") })
  | "assign", "U = self.U + tstep * self.dU" => some (some { s with U := some ((attr "U").axpy tstep (attr "dU")) })
  | "assign", "V = self.V + tstep * self.dV" => some (some { s with V := some ((attr "V").axpy tstep (attr "dV")) })
  | _, _ => none

structure UVArgs (α : Type) where
  U : Arr3 α
  V : Arr3 α
  i0 : Int
  j0 : Int
  K : Int
  A : α

def uvArgs (s : VelSt α) : Option (UVArgs α) :=
  s.U.bind fun u => s.V.bind fun v => s.i0.bind fun i0 => s.j0.bind fun j0 => s.K.bind fun k => s.A.map fun a =>
    ⟨u, v, i0, j0, k, a⟩

def velRet (X Y : α) (bilinear : Bool) (s : VelSt α) : String → Option (Option (α × α))
  | "sample3DUV(U, V, X - i0, Y - j0, K, A, method=method)" =>
    retWith (uvArgs s) (fun a => sample3DUVSeq a.U a.V (X - ofInt a.i0) (Y - ofInt a.j0) a.K a.A bilinear)
  | _ => none

/-- `Forcing.velocity(X, Y, Z, tstep, method)` as the generated sequences say -/
def velocitySeq (g : GridEnv α) (attr : String → Arr3 α) (X Y Z tstep : α) (bilinear : Bool) :
    Option (Option (α × α)) :=
  runRet (velAtom (decide (tstep < 0.001))) (velStep g attr X Y Z tstep) (velRet X Y bilinear) Gen.chem_forcing_velocity_seq VelSt.init

/-- closed form of `velocity`: `K` from `z2s` on `z_w` at the local coordinates `X - i0`, `Y - j0`; the weight set to 1
(the value of layer `K - 1`), except at the top (`K ≥ kmax - 1`: level `kmax - 2`, weight 0); the fields advanced by
`tstep * dU` only for `tstep ≥ 0.001`; `sample3DUV` at the local coordinates -/
def velocitySpecWith (z2s : Z2s α) (g : GridEnv α) (attr : String → Arr3 α) (X Y Z tstep : α) (bilinear : Bool) :
    α × α :=
  let K0 := (z2s g.z_w (.real (X - ofInt g.i0)) (.real (Y - ofInt g.j0)) Z).1
  let lim := decide ((g.z_w.kmax : Int) - 1 ≤ K0)
  let K := if lim then (g.z_w.kmax : Int) - 2 else K0
  let A : α := if lim then 0.0 else 1.0
  let U := if tstep < 0.001 then attr "U" else (attr "U").axpy tstep (attr "dU")
  let V := if tstep < 0.001 then attr "V" else (attr "V").axpy tstep (attr "dV")
  sample3DUVSpec U V (X - ofInt g.i0) (Y - ofInt g.j0) K A bilinear

/-- on the array reads (`z2sSpec`) -/
def velocitySpec (g : GridEnv α) (attr : String → Arr3 α) (X Y Z tstep : α) (bilinear : Bool) : α × α :=
  velocitySpecWith z2sSpec g attr X Y Z tstep bilinear

/-! ### `Forcing.field(X, Y, Z, name)` -/

structure FieldSt (α : Type) where
  i0 : Option Int
  j0 : Option Int
  K : Option Int
  A : Option α
  F : Option (Arr3 α)

def FieldSt.init : FieldSt α := ⟨none, none, none, none, none⟩

structure S3Args (α : Type) where
  F : Arr3 α
  i0 : Int
  j0 : Int
  K : Int
  A : α

def s3Args (s : FieldSt α) : Option (S3Args α) :=
  s.F.bind fun f => s.i0.bind fun i0 => s.j0.bind fun j0 => s.K.bind fun k => s.A.map fun a => ⟨f, i0, j0, k, a⟩

def fieldStep (g : GridEnv α) (attr : String → Arr3 α) (name : String) (X Y Z : α) (s : FieldSt α) :
    String → String → Option (Option (FieldSt α))
  | "assign", "i0 = self._grid.i0" => some (some { s with i0 := some g.i0 })
  | "assign", "j0 = self._grid.j0" => some (some { s with j0 := some g.j0 })
  | "assign", "K, A = z2s(self._grid.z_r, X - i0, Y - j0, Z)" =>
    callWith (map2 Prod.mk s.i0 s.j0) (fun a => z2sSeq g.z_r (.real (X - ofInt a.1)) (.real (Y - ofInt a.2)) Z)
      (fun r => { s with K := some r.1, A := some r.2 })
  | "assign", "F = self[name]" => some (some { s with F := some (attr name) })
  | _, _ => none

def fieldRet (X Y : α) (s : FieldSt α) : String → Option (Option α)
  | "sample3D(F, X - i0, Y - j0, K, A, method='nearest')" =>
    retWith (s3Args s) (fun a => sample3DSeq a.F (X - ofInt a.i0) (Y - ofInt a.j0) a.K a.A false)
  | _ => none

/-- `Forcing.field(X, Y, Z, name)` as the generated sequences say -/
def fieldSeq (g : GridEnv α) (attr : String → Arr3 α) (name : String) (X Y Z : α) : Option (Option α) :=
  runRet noAtom (fieldStep g attr name X Y Z) (fieldRet X Y) Gen.chem_forcing_field_seq FieldSt.init

/-- closed form of `field`: `K` from `z2s` on `z_r` at the local coordinates, nearest sampling of `self[name]` -/
def fieldSpecWith (z2s : Z2s α) (g : GridEnv α) (attr : String → Arr3 α) (name : String) (X Y Z : α) : α :=
  let KA := z2s g.z_r (.real (X - ofInt g.i0)) (.real (Y - ofInt g.j0)) Z
  sample3DSpec (attr name) (X - ofInt g.i0) (Y - ofInt g.j0) KA.1 KA.2 false

/-- on the array reads (`z2sSpec`) -/
def fieldSpec (g : GridEnv α) (attr : String → Arr3 α) (name : String) (X Y Z : α) : α :=
  fieldSpecWith z2sSpec g attr name X Y Z

/-! ### `Forcing.wvel(X, Y, Z, tstep, method)` -/

/-- `large` = the value of `tstep >= 0.001` -/
def wvelAtom (large : Bool) (_ : FieldSt α) : String → Option Bool
  | "tstep >= 0.001" => some large
  | _ => none

def wvelStep (g : GridEnv α) (attr : String → Arr3 α) (X Y Z tstep : α) (s : FieldSt α) :
    String → String → Option (Option (FieldSt α))
  | "assign", "i0 = self._grid.i0" => some (some { s with i0 := some g.i0 })
  | "assign", "j0 = self._grid.j0" => some (some { s with j0 := some g.j0 })
  | "assign", "K, A = z2s(self._grid.z_w, X - i0, Y - j0, Z)" =>
    callWith (map2 Prod.mk s.i0 s.j0) (fun a => z2sSeq g.z_w (.real (X - ofInt a.1)) (.real (Y - ofInt a.2)) Z)
      (fun r => { s with K := some r.1, A := some r.2 })
  | "assign", "F = self['W']" => some (some { s with F := some (attr "W") })
  -- in place: `F` *is* the stored array `self['W']`, which is changed as well (see `wvelSeq`)
  | "assign", "F += tstep * self['dW']" => some (s.F.map (fun f => { s with F := some (f.axpy tstep (attr "dW")) }))
  | _, _ => none

/-- the value, and the array object `F` (= the stored `self['W']`, updated in place by `F += …`) afterwards -/
def wvelRet (X Y : α) (bilinear : Bool) (s : FieldSt α) : String → Option (Option (α × Arr3 α))
  | "sample3D(F, np.round(X - i0), np.round(Y - j0), K, A, method=method)" =>
    retWith (s3Args s) (fun a =>
      (sample3DSeq a.F (round (X - ofInt a.i0)) (round (Y - ofInt a.j0)) a.K a.A bilinear).map
        (fun r => r.map (fun v => (v, a.F))))
  | _ => none

/-- `Forcing.wvel(X, Y, Z, tstep, method)` as the generated sequences say: the value and the stored `self['W']`
after the call -/
def wvelSeq (g : GridEnv α) (attr : String → Arr3 α) (X Y Z tstep : α) (bilinear : Bool) :
    Option (Option (α × Arr3 α)) :=
  runRet (wvelAtom (decide (0.001 ≤ tstep))) (wvelStep g attr X Y Z tstep) (wvelRet X Y bilinear) Gen.chem_forcing_wvel_seq
    FieldSt.init

/-- closed form of `wvel`: `z2s` on `z_w` at the local coordinates, `W` (advanced by `tstep * dW` for
`tstep ≥ 0.001`, in place) sampled at the *rounded* local coordinates -/
def wvelSpecWith (z2s : Z2s α) (g : GridEnv α) (attr : String → Arr3 α) (X Y Z tstep : α) (bilinear : Bool) :
    α × Arr3 α :=
  let KA := z2s g.z_w (.real (X - ofInt g.i0)) (.real (Y - ofInt g.j0)) Z
  let F := if 0.001 ≤ tstep then (attr "W").axpy tstep (attr "dW") else attr "W"
  (sample3DSpec F (round (X - ofInt g.i0)) (round (Y - ofInt g.j0)) KA.1 KA.2 bilinear, F)

/-- on the array reads (`z2sSpec`) -/
def wvelSpec (g : GridEnv α) (attr : String → Arr3 α) (X Y Z tstep : α) (bilinear : Bool) : α × Arr3 α :=
  wvelSpecWith z2sSpec g attr X Y Z tstep bilinear

/-! ### `Forcing.vertdiff(X, Y, Z, name)` -/

structure VdSt (α : Type) where
  maxK : Option Int
  minK : Option Int
  minD : Option α
  I : Option Int
  J : Option Int
  K : Option Int
  A : Option α
  Kn : Option Int
  F : Option (Arr3 α)

def VdSt.init : VdSt α := ⟨none, none, none, none, none, none, none, none, none⟩

def vdStep (g : GridEnv α) (attr : String → Arr3 α) (name : String) (X Y Z : α) (s : VdSt α) :
    String → String → Option (Option (VdSt α))
  | "assign", "MAXIMUM_K = len(self._grid.Cs_w) - 2" => some (some { s with maxK := some ((g.nCsw : Int) - 2) })
  | "assign", "MINIMUM_K = 1" => some (some { s with minK := some 1 })
  | "assign", "MINIMUM_D = 0" => some (some { s with minD := some 0.0 })
  | "assign", "I = np.int32(np.round(X)) - self._grid.i0" => some (some { s with I := some (trunc (round X) - g.i0) })
  | "assign", "J = np.int32(np.round(Y)) - self._grid.j0" => some (some { s with J := some (trunc (round Y) - g.j0) })
  | "assign", "I, J = _clamp_index(I, J, self._grid.H.shape)" =>
    callWith (map2 Prod.mk s.I s.J) (fun a => clampIndexSeq a.1 a.2 (g.H.jmax, g.H.imax))
      (fun r => { s with I := some r.1, J := some r.2 })
  | "assign", "K, A = z2s(self._grid.z_w, I, J, Z)" =>
    callWith (map2 Prod.mk s.I s.J) (fun a => z2sSeq g.z_w (.int a.1) (.int a.2) Z)
      (fun r => { s with K := some r.1, A := some r.2 })
  | "assign", "K_nearest = np.round(K - A).astype(np.int32)" =>
    some (map2 (fun k a => { s with Kn := some (trunc (round (ofInt k - a))) }) s.K s.A)
  | "assign", "K_nearest = np.minimum(MAXIMUM_K, K_nearest)" =>
    some (map2 (fun m k => { s with Kn := some (min m k) }) s.maxK s.Kn)
  | "assign", "K_nearest = np.maximum(MINIMUM_K, K_nearest)" =>
    some (map2 (fun m k => { s with Kn := some (max m k) }) s.minK s.Kn)
  | "assign", "F = self[name]" => some (some { s with F := some (attr name) })
  | _, _ => none

def vdRet (s : VdSt α) : String → Option (Option α)
  | "np.maximum(MINIMUM_D, F[K_nearest, J, I])" =>
    some (s.minD.bind fun d => s.F.bind fun f => map3 (fun k j i => fmax d (f.get k j i)) s.Kn s.J s.I)
  | _ => none

/-- `Forcing.vertdiff(X, Y, Z, name)` as the generated sequences say -/
def vertdiffSeq (g : GridEnv α) (attr : String → Arr3 α) (name : String) (X Y Z : α) : Option (Option α) :=
  runRet noAtom (vdStep g attr name X Y Z) vdRet Gen.chem_forcing_vertdiff_seq VdSt.init

/-- closed form of `vertdiff` on the array reads: the particle's own cell of `H` (round first, then minus the offset,
then clamped), `z2s` on `z_w` at that (integer) cell, the w-level nearest to `K - A` kept inside
`[1, len(Cs_w) - 2]`, the value floored at 0 -/
def vertdiffSpecWith (z2s : Z2s α) (g : GridEnv α) (attr : String → Arr3 α) (name : String) (X Y Z : α) : α :=
  let I := cellIndex g.H.imax g.i0 X
  let J := cellIndex g.H.jmax g.j0 Y
  let KA := z2s g.z_w (.int I) (.int J) Z
  let Kn : Int := max 1 (min ((g.nCsw : Int) - 2) (trunc (round (ofInt KA.1 - KA.2))))
  fmax 0.0 ((attr name).get Kn J I)

/-- on the array reads (`z2sSpec`) -/
def vertdiffSpec (g : GridEnv α) (attr : String → Arr3 α) (name : String) (X Y Z : α) : α :=
  vertdiffSpecWith z2sSpec g attr name X Y Z

/-! ### `Forcing.horzdiff(X, Y, Z)` -/

structure HdSt (α : Type) where
  jmax : Option Int
  imax : Option Int
  I : Option Int
  J : Option Int
  K : Option Int
  A : Option α
  u1 : Option α
  u2 : Option α
  v1 : Option α
  v2 : Option α
  dudy : Option α
  dvdx : Option α
  AHs : Option α

def HdSt.init : HdSt α := ⟨none, none, none, none, none, none, none, none, none, none, none, none, none⟩

structure KJIA (α : Type) where
  K : Int
  J : Int
  I : Int
  A : α

def kjia (s : HdSt α) : Option (KJIA α) :=
  s.K.bind fun k => s.J.bind fun j => s.I.bind fun i => s.A.map fun a => ⟨k, j, i, a⟩

def hdStep (g : GridEnv α) (attr : String → Arr3 α) (X Y Z : α) (s : HdSt α) :
    String → String → Option (Option (HdSt α))
  | "assign", "jmax, imax = self._grid.H.shape" =>
    some (some { s with jmax := some (g.H.jmax : Int), imax := some (g.H.imax : Int) })
  | "assign", "I = np.int32(np.round(X)) - self._grid.i0" => some (some { s with I := some (trunc (round X) - g.i0) })
  | "assign", "J = np.int32(np.round(Y)) - self._grid.j0" => some (some { s with J := some (trunc (round Y) - g.j0) })
  | "assign", "I = np.maximum(0, np.minimum(imax - 2, I))" =>
    some (map2 (fun n i => { s with I := some (max 0 (min (n - 2) i)) }) s.imax s.I)
  | "assign", "J = np.maximum(0, np.minimum(jmax - 2, J))" =>
    some (map2 (fun n j => { s with J := some (max 0 (min (n - 2) j)) }) s.jmax s.J)
  | "assign", "K, A = z2s(self._grid.z_r, I, J, Z)" =>
    callWith (map2 Prod.mk s.I s.J) (fun a => z2sSeq g.z_r (.int a.1) (.int a.2) Z)
      (fun r => { s with K := some r.1, A := some r.2 })
  | "assign", "u1 = (1 - A) * self['U'][K, J, I] + A * self['U'][K - 1, J, I]" =>
    some ((kjia s).map fun c => { s with
      u1 := some ((1.0 - c.A) * (attr "U").get c.K c.J c.I + c.A * (attr "U").get (c.K - 1) c.J c.I) })
  | "assign", "u2 = (1 - A) * self['U'][K, J + 1, I] + A * self['U'][K - 1, J + 1, I]" =>
    some ((kjia s).map fun c => { s with
      u2 := some ((1.0 - c.A) * (attr "U").get c.K (c.J + 1) c.I + c.A * (attr "U").get (c.K - 1) (c.J + 1) c.I) })
  | "assign", "v1 = (1 - A) * self['V'][K, J, I] + A * self['V'][K - 1, J, I]" =>
    some ((kjia s).map fun c => { s with
      v1 := some ((1.0 - c.A) * (attr "V").get c.K c.J c.I + c.A * (attr "V").get (c.K - 1) c.J c.I) })
  | "assign", "v2 = (1 - A) * self['V'][K, J, I + 1] + A * self['V'][K - 1, J, I + 1]" =>
    some ((kjia s).map fun c => { s with
      v2 := some ((1.0 - c.A) * (attr "V").get c.K c.J (c.I + 1) + c.A * (attr "V").get (c.K - 1) c.J (c.I + 1)) })
  | "assign", "dudy = u2 - u1" => some (map2 (fun a b => { s with dudy := some (a - b) }) s.u2 s.u1)
  | "assign", "dvdx = v2 - v1" => some (map2 (fun a b => { s with dvdx := some (a - b) }) s.v2 s.v1)
  | "assign", "AHs = 0.04 * self._grid.dx[J, I] * np.abs(dudy + dvdx)" =>
    some (s.J.bind fun j => s.I.bind fun i =>
      map2 (fun a b => { s with AHs := some (0.04 * g.dx.get j i * fabs (a + b)) }) s.dudy s.dvdx)
  | "assign", "AHs[~self._grid.atsea(X, Y)] = 0" =>
    callWith s.AHs (fun _ => atseaSeq g X Y) (fun (sea : Bool) => { s with AHs := s.AHs.map (fun a => if sea then a else 0.0) })
  | _, _ => none

def hdRet (s : HdSt α) : String → Option (Option α)
  | "AHs" => some s.AHs
  | _ => none

/-- `Forcing.horzdiff(X, Y, Z)` as the generated sequences say -/
def horzdiffSeq (g : GridEnv α) (attr : String → Arr3 α) (X Y Z : α) : Option (Option α) :=
  runRet noAtom (hdStep g attr X Y Z) hdRet Gen.chem_forcing_horzdiff_seq HdSt.init

/-- closed form of `horzdiff`: the stencil cell clipped to `[0, imax - 2] × [0, jmax - 2]` (so that `I + 1`, `J + 1`
exist), `z2s` on `z_r` there, the Smagorinsky value (`Gen.horzdiff_smag` = `GridSample.horzdiffValue`), zero where the
particle's *own* cell (`Grid.atsea(X, Y)`, clamped to the whole array) is land -/
def horzdiffSpecWith (z2s : Z2s α) (g : GridEnv α) (attr : String → Arr3 α) (X Y Z : α) : α :=
  let I : Int := max 0 (min ((g.H.imax : Int) - 2) (trunc (round X) - g.i0))
  let J : Int := max 0 (min ((g.H.jmax : Int) - 2) (trunc (round Y) - g.j0))
  let KA := z2s g.z_r (.int I) (.int J) Z
  let K := KA.1
  let A := KA.2
  let U := attr "U"
  let V := attr "V"
  horzdiffValue (g.dx.get J I)
    (((1.0 - A) * U.get K (J + 1) I + A * U.get (K - 1) (J + 1) I) - ((1.0 - A) * U.get K J I + A * U.get (K - 1) J I))
    (((1.0 - A) * V.get K J (I + 1) + A * V.get (K - 1) J (I + 1)) - ((1.0 - A) * V.get K J I + A * V.get (K - 1) J I))
    (decide (0.0 < g.M.atCell g.i0 g.j0 X Y))

/-- on the array reads (`z2sSpec`) -/
def horzdiffSpec (g : GridEnv α) (attr : String → Arr3 α) (X Y Z : α) : α :=
  horzdiffSpecWith z2sSpec g attr X Y Z

end
end Ladim.SampleSeq
