import LadimModel.Scalar
import LadimModel.Grid.Fjord
import LadimModel.IBM.Sequence
import LadimModel.Generated.Formulas
/-!
Interpretation of the generated statement sequences of `vps/gridforce.py`:
`Forcing._ocean_dist_cells` (`Gen.vps_ocean_dist_cells_seq`), `Forcing._compute_fish_velocity`
(`Gen.vps_compute_fish_velocity_seq`) and `Forcing.fish_velocity` (`Gen.vps_fish_velocity_seq`), with the operations of
the hand-written model `LadimModel/Grid/Fjord.lean` (`fjordIndex`, `descentDir`, `uOf`, `vOf`, `VSign`) and of
`LadimModel/Scalar.lean` (`round` = `np.round`, half to even; `trunc` = `int(..)` / `.astype('int32')`; `ofInt`).

`Fjord.lean` has no definition for the ocean distance in cells, for the velocity *field* (direction times swimming
speed) or for the lookup with sub-grid offsets: their closed forms are stated here, built from the model's functions
(`oceanDistCells`, `fishField`, `fishIndex`, `fishVelocity`); `LadimProofs/Bridge/FjordSeq.lean` proves that the
interpretations return exactly these, and ties `fishField` to the model's `nextCell`.

Strict runner `runFn`: every statement text, every condition text and every `return` expression — also in branches
not taken and after the statement that ends the run — must be one the interpreter knows (exact string match);
anything else makes the run fail with `none`.  Results: `none` = unknown text (the tie is broken); `some none` = the
code raises (here: a local variable is read before it is assigned); `some (some r)` = the code returns `r`.

Parameters of the interpretation (environment queries, array reads; not interpreted further):
* `_ocean_dist_cells`: `oceanDistance` = `self.ocean_distance` (km), `dx00` = `self._grid.dx[0, 0]` (m);
* `_compute_fish_velocity`: `M` = `np.asarray(self._grid.M).astype('int32')` (1 at sea, 0 on land), `speed` =
  `self.fish_swim_speed`, and the two parameters of `_ocean_dist_cells` (the call `self._ocean_dist_cells()` runs the
  interpretation of `Gen.vps_ocean_dist_cells_seq`); library calls `ibm.fjord_index`, `ibm.descent` = the model's
  `fjordIndex`, `descentDir` with `uOf` / `vOf`; `logger.info` and the import are no-ops;
* `fish_velocity`: `i0`, `j0` = `self._grid.i0`, `self._grid.j0`; `shape` = `np.shape(self._grid.M)` (rows, columns);
  `fishU`, `fishV` = the arrays `self.fish_u`, `self.fish_v`, indexed `[row, column]`; `X`, `Y` = one particle.

KNOWN defect F-C12a (`v` of `ibm.descent` has picture orientation but is served as the `+Y` grid velocity): the
statement `self._fish_v = v * self.fish_swim_speed` (the code as it is, `VSign.picture`) and the repair
`self._fish_v = -v * self.fish_swim_speed` (`VSign.grid`) are both accepted; `vSignSeen` reports which one the
generated sequence contains.
-/
namespace Ladim.Fjord

/-! ### closed forms -/

/-- `land = 1 - M`: 1 on land, 0 at sea -/
def landOfMask (M : Mat) : Mat := { M with val := fun i j => 1 - M.val i j }

/-- the `v` direction as the tracker adds it to `Y` (the row index): `picture` = `v` of `ibm.descent` as it is,
`grid` = `-v` -/
def vDir : VSign → Nat → Int
  | .picture, d => vOf d
  | .grid, d => -(vOf d)

/-- a velocity field, indexed `[row, column]` -/
structure Field (α : Type) where
  u : Int → Int → α
  v : Int → Int → α

section
variable {α : Type} [Sub α] [Mul α] [Div α] [LT α] [DecidableLT α] [OfScientific α]
  [HasRound α] [HasTrunc α] [HasOfInt α]

/-- `int(np.round(ocean_distance / (dx[0, 0] / 1000)))`; `round` is numpy's (half to even) -/
def oceanDistCells (oceanDistance dx00 : α) : Int := trunc (round (oceanDistance / (dx00 / 1000.0)))

/-- `descent(fjord_index(1 - M, d))` times the swimming speed; `s`: the sign with which `v` is stored -/
def fishField (s : VSign) (M : Mat) (d : Int) (speed : α) : Field α :=
  ⟨fun i j => ofInt (uOf (descentDir (fjordIndex (landOfMask M) d) i j)) * speed,
   fun i j => ofInt (vDir s (descentDir (fjordIndex (landOfMask M) d) i j)) * speed⟩

/-- `np.asarray(X - i0).round().clip(0, n - 1).astype('int32')`: subtract the offset, round (half to even), clip as
`minimum(maximum(·, 0), n - 1)` on the scalar type, convert to an integer -/
def fishIndex (n : Nat) (i0 : Int) (x : α) : Int :=
  trunc (fmin (fmax (round (x - ofInt i0)) (ofInt 0)) (ofInt ((n : Int) - 1)))

/-- `fish_velocity(X, Y)`: `shape = (jmax, imax)` = (rows, columns); column index from `X`, `i0`, `imax`; row index
from `Y`, `j0`, `jmax`; both arrays read at `[row, column]` -/
def fishVelocity (i0 j0 : Int) (shape : Nat × Nat) (fishU fishV : Int → Int → α) (X Y : α) : α × α :=
  (fishU (fishIndex shape.1 j0 Y) (fishIndex shape.2 i0 X), fishV (fishIndex shape.1 j0 Y) (fishIndex shape.2 i0 X))

end
end Ladim.Fjord

namespace Ladim.Seq
open Ladim.Fjord

/-! ### strict runner -/

/-- every condition of the guard is a known one -/
def fnGuardKnown {σ : Type} (atom : σ → String → Option Bool) (s : σ) (g : List Cond) : Bool :=
  g.all (fun c => (atom s c.2).isSome)

/-- the statement is a known one: the expression of a `return` is looked up in `ret`, anything else in `step` -/
def fnStmtKnown {σ ρ : Type} (atom : σ → String → Option Bool) (step : σ → String → String → Option (Option σ))
    (ret : σ → String → Option (Option ρ)) (s : σ) (st : Stmt) : Bool :=
  fnGuardKnown atom s st.1 && (if st.2.1 = "return" then (ret s st.2.2).isSome else (step s st.2.1 st.2.2).isSome)

/-- run a function body.  The guard conditions and the statement are checked to be known ones for every statement of
the list (in branches not taken and after the statement that ends the run as well); the expression of a `return` is
interpreted by `ret`; `fin` is the outcome of falling off the end of the body (`fun _ => none` for a function that
is modelled as always returning a value). -/
def runFn {σ ρ : Type} (atom : σ → String → Option Bool) (step : σ → String → String → Option (Option σ))
    (ret : σ → String → Option (Option ρ)) (fin : σ → Option (Option ρ)) : List Stmt → σ → Option (Option ρ)
  | [], s => fin s
  | (g, k, t) :: rest, s =>
    if !fnStmtKnown atom step ret s (g, k, t) then none else
    match guardVal atom s g with
    | none => none
    | some false => runFn atom step ret fin rest s
    | some true =>
      if k = "return" then
        match ret s t with
        | none => none
        | some r => if rest.all (fnStmtKnown atom step ret s) then some r else none
      else
        match step s k t with
        | none => none
        | some none => if rest.all (fnStmtKnown atom step ret s) then some none else none
        | some (some s') => runFn atom step ret fin rest s'

section
variable {α : Type} [Sub α] [Mul α] [Div α] [LT α] [DecidableLT α] [OfScientific α]
  [HasRound α] [HasTrunc α] [HasOfInt α]

/-! ### `_ocean_dist_cells` -/

/-- the local variables; `none` = not assigned yet -/
structure OdSt (α : Type) where
  km : Option α
  cell : Option α
  cells : Option Int

def OdSt.init : OdSt α := ⟨none, none, none⟩

def odAtom (_ : OdSt α) : String → Option Bool
  | _ => none

def odStep (oceanDistance dx00 : α) (s : OdSt α) : String → String → Option (Option (OdSt α))
  | "assign", "ocean_dist_km = self.ocean_distance" => some (some { s with km := some oceanDistance })
  | "assign", "cell_size_km = self._grid.dx[0, 0] / 1000" => some (some { s with cell := some (dx00 / 1000.0) })
  | "assign", "ocean_dist_cells = int(np.round(ocean_dist_km / cell_size_km))" =>
    some (match s.km, s.cell with
      | some a, some b => some { s with cells := some (trunc (round (a / b))) }
      | _, _ => none)
  | _, _ => none

def odRet (s : OdSt α) : String → Option (Option Int)
  | "ocean_dist_cells" => some s.cells
  | _ => none

/-- `self._ocean_dist_cells()` as the generated sequence says -/
def oceanDistCellsSeq (oceanDistance dx00 : α) : Option (Option Int) :=
  runFn odAtom (odStep oceanDistance dx00) odRet (fun _ => none) Gen.vps_ocean_dist_cells_seq OdSt.init

/-! ### `_compute_fish_velocity` -/

/-- the assignment of `self._fish_v`: the two texts that the model knows (F-C12a) -/
def vSignOfText : String → Option VSign
  | "self._fish_v = v * self.fish_swim_speed" => some .picture
  | "self._fish_v = -v * self.fish_swim_speed" => some .grid
  | _ => none

/-- what the sequence says about the sign of the stored `v`: the first assignment with one of the two texts -/
def vSignSeen (l : List Stmt) : Option VSign :=
  l.findSome? (fun st => if st.2.1 = "assign" then vSignOfText st.2.2 else none)

/-- the local variables and the two attributes that are set; `none` = not assigned -/
structure CfSt (α : Type) where
  land : Option Mat
  fjordIdx : Option Mat
  uv : Option ((Int → Int → Int) × (Int → Int → Int))
  fishU : Option (Int → Int → α)
  fishV : Option (Int → Int → α)

def CfSt.init : CfSt α := ⟨none, none, none, none, none⟩

def cfAtom (_ : CfSt α) : String → Option Bool
  | _ => none

def cfStep (M : Mat) (oceanDistance dx00 speed : α) (s : CfSt α) : String → String → Option (Option (CfSt α))
  | "expr", "logger.info('Compute fjord index')" => some (some s)
  | "import", "from . import ibm" => some (some s)
  | "assign", "land = 1 - np.asarray(self._grid.M).astype('int32')" => some (some { s with land := some (landOfMask M) })
  | "assign", "fjord_idx = ibm.fjord_index(land, self._ocean_dist_cells())" =>
    match oceanDistCellsSeq oceanDistance dx00 with
    | none => none
    | some none => some none
    | some (some d) =>
      some (match s.land with
        | some l => some { s with fjordIdx := some (fjordIndex l d) }
        | none => none)
  | "assign", "u, v = ibm.descent(fjord_idx)" =>
    some (match s.fjordIdx with
      | some w => some { s with uv := some (fun i j => uOf (descentDir w i j), fun i j => vOf (descentDir w i j)) }
      | none => none)
  | "assign", "self._fish_u = u * self.fish_swim_speed" =>
    some (match s.uv with
      | some (u, _) => some { s with fishU := some (fun i j => ofInt (u i j) * speed) }
      | none => none)
  | "expr", "logger.info('Finished computing fjord index')" => some (some s)
  | "assign", t =>
    match vSignOfText t with
    | some .picture =>
      some (match s.uv with
        | some (_, v) => some { s with fishV := some (fun i j => ofInt (v i j) * speed) }
        | none => none)
    | some .grid =>
      some (match s.uv with
        | some (_, v) => some { s with fishV := some (fun i j => ofInt (-(v i j)) * speed) }
        | none => none)
    | none => none
  | _, _ => none

/-- the function has no `return` statement -/
def cfRet (_ : CfSt α) : String → Option (Option (Field α))
  | _ => none

/-- falling off the end: the outcome is the pair of attributes `(self._fish_u, self._fish_v)`; a body that ends
without having set both is not the function that was modelled -/
def cfFin (s : CfSt α) : Option (Option (Field α)) :=
  match s.fishU, s.fishV with
  | some u, some v => some (some ⟨u, v⟩)
  | _, _ => none

/-- interpretation of a statement sequence of `_compute_fish_velocity` -/
def runComputeFishVelocity (M : Mat) (oceanDistance dx00 speed : α) (prog : List Stmt) : Option (Option (Field α)) :=
  runFn cfAtom (cfStep M oceanDistance dx00 speed) cfRet cfFin prog CfSt.init

/-- `self._compute_fish_velocity()` as the generated sequences say: `(self._fish_u, self._fish_v)` afterwards -/
def computeFishVelocitySeq (M : Mat) (oceanDistance dx00 speed : α) : Option (Option (Field α)) :=
  runComputeFishVelocity M oceanDistance dx00 speed Gen.vps_compute_fish_velocity_seq

/-! ### `fish_velocity` -/

structure FvSt (α : Type) where
  i0 : Option Int
  j0 : Option Int
  jmax : Option Nat
  imax : Option Nat
  i : Option Int
  j : Option Int
  u : Option α
  v : Option α

def FvSt.init : FvSt α := ⟨none, none, none, none, none, none, none, none⟩

def fvAtom (_ : FvSt α) : String → Option Bool
  | _ => none

def fvStep (i0 j0 : Int) (shape : Nat × Nat) (fishU fishV : Int → Int → α) (X Y : α) (s : FvSt α) :
    String → String → Option (Option (FvSt α))
  | "assign", "i0 = self._grid.i0" => some (some { s with i0 := some i0 })
  | "assign", "j0 = self._grid.j0" => some (some { s with j0 := some j0 })
  | "assign", "jmax, imax = np.shape(self._grid.M)" => some (some { s with jmax := some shape.1, imax := some shape.2 })
  | "assign", "i = np.asarray(X - i0).round().clip(0, imax - 1).astype('int32')" =>
    some (match s.i0, s.imax with
      | some a, some n => some { s with i := some (fishIndex n a X) }
      | _, _ => none)
  | "assign", "j = np.asarray(Y - j0).round().clip(0, jmax - 1).astype('int32')" =>
    some (match s.j0, s.jmax with
      | some a, some n => some { s with j := some (fishIndex n a Y) }
      | _, _ => none)
  | "assign", "u = self.fish_u[j, i]" =>
    some (match s.j, s.i with
      | some j, some i => some { s with u := some (fishU j i) }
      | _, _ => none)
  | "assign", "v = self.fish_v[j, i]" =>
    some (match s.j, s.i with
      | some j, some i => some { s with v := some (fishV j i) }
      | _, _ => none)
  | _, _ => none

def fvRet (s : FvSt α) : String → Option (Option (α × α))
  | "(u, v)" =>
    some (match s.u, s.v with
      | some u, some v => some (u, v)
      | _, _ => none)
  | _ => none

/-- `self.fish_velocity(X, Y)` (one particle) as the generated sequence says -/
def fishVelocitySeq (i0 j0 : Int) (shape : Nat × Nat) (fishU fishV : Int → Int → α) (X Y : α) :
    Option (Option (α × α)) :=
  runFn fvAtom (fvStep i0 j0 shape fishU fishV X Y) fvRet (fun _ => none) Gen.vps_fish_velocity_seq FvSt.init

end
end Ladim.Seq
