import LadimModel.Grid.Sample
import LadimModel.Grid.SampleSeq
import LadimModel.Post.RasterSeq
import LadimModel.Generated.Formulas
/-!
Interpretation of the generated statement sequences of the constructor and the coordinate helpers of the chemicals
`Grid` (`chemicals/gridforce.py`; also the grid of `mine` and, through subclasses, of `sedimentation` and
`salmon_lice`) — properties C15 / C14:

* `Gen.chem_grid_ctor_seq`   — `Grid.__init__`                         (`gridCtorSeq`, `gridCtor`)
* `Gen.chem_grid_lonlat_seq` — `Grid.lonlat(X, Y, method)`             (`gcLonlatSeq`)
* `Gen.chem_grid_onland_seq` — `Grid.onland(X, Y)`                     (`gcOnlandSeq`)
* `Gen.chem_grid_ll2xy_seq`  — `Grid.ll2xy(lon, lat)`                  (`gcLl2xySeq`)
* `Gen.lice_vert_mix_seq`    — `salmon_lice/gridforce.py :: Forcing.vert_mix(X, Y, Z)` (`gcVertMixSeq`)

The constructor is run by `Seq.Loops.run` (`LadimModel/Post/RasterSeq.lean`): every statement text and every
condition text — executed or not — must be one the interpretation knows (exact string match); the loop
`for (ind, val) in enumerate(limits)` is really iterated.  The four methods are run by `Seq.runRet`
(`LadimModel/Release/AttrSeq.lean`), which also pins the text of every `return` expression.
`LadimProofs/Bridge/GridCtorSeq.lean` proves that the interpretations are the closed forms below (`gridCtorSpec`,
`gcLonlatSpec`, …) and connects the constructed grid with `SampleSeq.GridEnv` and the sampling methods.

Outcomes: `none` = a text the interpretation does not know (the tie with the code is broken); `some none` = the code
raises; `some (some r)` = the code finishes / returns `r`.

Parameters of the interpretation of the constructor (what is *not* read off the statement texts):

* `GcConfig` = `config['gridforce']`: is `grid_file` / `input_file` / `subgrid` / `Vinfo` a key, and the values.
  A file reference (`GcFileRef`: a path or a `memoryview`) carries what opening it gives: `content = none` is an
  `OSError` of `Dataset(…)`; `input_file` is a list / tuple of references or a pattern string *together with* what
  `sorted(glob.glob(pat))` finds (environment queries as part of the parameters).  `subgrid` is the list of its entries
  (`none` = Python `None`; the entries are integers).  `Vinfo` has the keys `N`, `hc`, `theta_s`, `theta_b` (a missing
  one — `KeyError` — is not modelled) and optionally `Vstretching`, `Vtransform`.
* `GcFile` = the opened netCDF file: the variables `h, mask_rho, pm, pn, lon_rho, lat_rho, angle` as `Arr2` (shape and
  array read; these seven are assumed to be present), `hc`, `Cs_r`, `Cs_w`, `Vtransform` (`none` = not a variable of the
  file: `KeyError`, caught only for `Vtransform`).
* `GcEnv`: the calls `s_stretch(N, theta_s, theta_b, stagger, Vstretching)` and `sdepth(H, hc, C, stagger,
  Vtransform)` of the same module (`stagger == 'rho'` as a `Bool`); a `ValueError` inside them (unknown `Vstretching` /
  `Vtransform`) is not modelled.

Conventions.  `try:` is true as long as no exception is pending, `except E:` is true when an `E` is pending; the
statements that can raise a caught exception (`Dataset(…)`: `OSError`; `ncid.variables['Vtransform']`: `KeyError`) set
the pending exception instead of ending the run.  A slice `slice(a, b)` is the pair `(a, b)`; `var[J, I]` with two
slices follows `slice.indices` (a negative bound counts from the end, a bound beyond the end is clipped —
`gcPyBound`), the result (`gcSlice`) has the shape of the slices and the read `F[start_J + j, start_I + i]`
(meaningful for an index inside that shape).  `.astype(int)` is `HasTrunc.trunc`; `float(n)` is `HasOfInt.ofInt`.
The masks `M`, `Mu`, `Mv` are integer arrays (`Arr2 Int`).  `np.zeros(shape)` raises on a negative dimension; the
slice assignments `Mu[:, 1:-1] = …`, `Mu[:, 0] = M[:, 0]`, … raise when the value does not broadcast to the target
(`ValueError`) or a column / row `0`, `-1` does not exist (`IndexError`) — `gcZeros?`, `gcSetInnerCols?`, …; a
broadcast axis of length 1 repeats its entry (`gcBidx`).  Reading a Python variable or attribute before it is assigned
raises (`Option` fields of the state).
-/
namespace Ladim.GridCtorSeq
open Ladim.Seq Ladim.SampleSeq Ladim.GridSample

/-! ### parameters -/

/-- the opened grid file -/
structure GcFile (α : Type) where
  h : Arr2 α
  mask_rho : Arr2 α
  pm : Arr2 α
  pn : Arr2 α
  lon_rho : Arr2 α
  lat_rho : Arr2 α
  angle : Arr2 α
  hc : Option α
  Cs_r : Option (List α)
  Cs_w : Option (List α)
  Vtransform : Option Int

/-- a file reference: its name, `isinstance(·, memoryview)`, and what `Dataset(…)` gives for it (`none`: `OSError`) -/
structure GcFileRef (α : Type) where
  name : String
  isMemoryview : Bool
  content : Option (GcFile α)

/-- `config['gridforce']['input_file']`: a list / tuple of file references, or a pattern string with the list that
`sorted(glob.glob(pat))` finds -/
inductive GcPattern (α : Type) where
  | files (fs : List (GcFileRef α))
  | pattern (pat : String) (found : List (GcFileRef α))

/-- `config['gridforce']['Vinfo']` -/
structure GcVinfo (α : Type) where
  N : Int
  hc : α
  Vstretching : Option Int
  Vtransform : Option Int
  theta_s : α
  theta_b : α

/-- `config['gridforce']` (`none` = the key is absent) -/
structure GcConfig (α : Type) where
  gridFile : Option (GcFileRef α)
  inputFile : Option (GcPattern α)
  subgrid : Option (List (Option Int))
  vinfo : Option (GcVinfo α)

/-- the two functions of the module that the constructor calls; `rho` = `stagger == 'rho'` (else `'w'`) -/
structure GcEnv (α : Type) where
  sStretch : (N : Int) → (theta_s theta_b : α) → (rho : Bool) → (Vstretching : Int) → List α
  sdepth : (H : Arr2 α) → (hc : α) → (C : List α) → (rho : Bool) → (Vtransform : Int) → Arr3 α

/-! ### slices and array assignments -/

/-- one bound of `slice(a, b).indices(n)` (step 1): a negative bound counts from the end, then clipped to `[0, n]` -/
def gcPyBound (n : Nat) (a : Int) : Int := if a < 0 then max (a + (n : Int)) 0 else min a (n : Int)

/-- first index of `range(n)[a:b]` -/
def gcSliceStart (n : Nat) (ab : Int × Int) : Int := gcPyBound n ab.1

/-- length of `range(n)[a:b]` -/
def gcSliceLen (n : Nat) (ab : Int × Int) : Nat := (gcPyBound n ab.2 - gcPyBound n ab.1).toNat

/-- `F[J, I]` for two slices: the shape of the slices; the read at `(j, i)` inside that shape is
`F[start_J + j, start_I + i]` -/
def gcSlice {β : Type} (F : Arr2 β) (J I : Int × Int) : Arr2 β :=
  { jmax := gcSliceLen F.jmax J, imax := gcSliceLen F.imax I,
    get := fun j i => F.get (gcSliceStart F.jmax J + j) (gcSliceStart F.imax I + i) }

/-- elementwise map (`.astype(int)`, `1.0 / ·`) -/
def gcMap {β γ : Type} (f : β → γ) (F : Arr2 β) : Arr2 γ :=
  { jmax := F.jmax, imax := F.imax, get := fun j i => f (F.get j i) }

/-- `np.zeros((jmax, imax), dtype=int)` -/
def gcZeros (jmax imax : Int) : Arr2 Int := { jmax := jmax.toNat, imax := imax.toNat, get := fun _ _ => 0 }

/-- … which raises `ValueError` on a negative dimension -/
def gcZeros? (jmax imax : Int) : Option (Arr2 Int) :=
  if decide (0 ≤ jmax) && decide (0 ≤ imax) then some (gcZeros jmax imax) else none

/-- numpy broadcasting of one axis of the assigned value (length `r`) to the axis of the target (length `t`) -/
def gcBcast (r t : Nat) : Bool := r == t || r == 1

/-- the index that is read on an axis of length `r` of the assigned value (a broadcast axis repeats its only entry) -/
def gcBidx (r : Nat) (j : Int) : Int := if r = 1 then 0 else j

/-- `Mu[:, 1:-1] = M[:, :-1] * M[:, 1:]` on the reads: columns `1 … n - 2` of `Mu` -/
def gcSetInnerCols (Mu M : Arr2 Int) : Arr2 Int :=
  { Mu with get := fun j i =>
      if 1 ≤ i ∧ i < (Mu.imax : Int) - 1 then
        M.get (gcBidx M.jmax j) (gcBidx (M.imax - 1) (i - 1)) * M.get (gcBidx M.jmax j) (gcBidx (M.imax - 1) (i - 1) + 1)
      else Mu.get j i }

/-- … with the shape check of the assignment (`ValueError: could not broadcast`): the value has the shape
`(M.shape[0], M.shape[1] - 1)`, the target `(Mu.shape[0], Mu.shape[1] - 2)` (lengths of slices: never negative) -/
def gcSetInnerCols? (Mu M : Arr2 Int) : Option (Arr2 Int) :=
  if gcBcast M.jmax Mu.jmax && gcBcast (M.imax - 1) (Mu.imax - 2) then some (gcSetInnerCols Mu M) else none

/-- `Mu[:, 0] = M[:, 0]` -/
def gcSetFirstCol (Mu M : Arr2 Int) : Arr2 Int :=
  { Mu with get := fun j i => if i = 0 then M.get (gcBidx M.jmax j) 0 else Mu.get j i }

/-- `Mu[:, -1] = M[:, -1]` -/
def gcSetLastCol (Mu M : Arr2 Int) : Arr2 Int :=
  { Mu with get := fun j i =>
      if i = (Mu.imax : Int) - 1 then M.get (gcBidx M.jmax j) ((M.imax : Int) - 1) else Mu.get j i }

/-- the checks of `Mu[:, 0] = M[:, 0]` and `Mu[:, -1] = M[:, -1]`: both arrays have a column (`IndexError`), the
column of `M` broadcasts to the column of `Mu` -/
def gcColOk (Mu M : Arr2 Int) : Bool := decide (1 ≤ M.imax) && decide (1 ≤ Mu.imax) && gcBcast M.jmax Mu.jmax

def gcSetFirstCol? (Mu M : Arr2 Int) : Option (Arr2 Int) := if gcColOk Mu M then some (gcSetFirstCol Mu M) else none

def gcSetLastCol? (Mu M : Arr2 Int) : Option (Arr2 Int) := if gcColOk Mu M then some (gcSetLastCol Mu M) else none

/-- `Mv[1:-1, :] = M[:-1, :] * M[1:, :]` -/
def gcSetInnerRows (Mv M : Arr2 Int) : Arr2 Int :=
  { Mv with get := fun j i =>
      if 1 ≤ j ∧ j < (Mv.jmax : Int) - 1 then
        M.get (gcBidx (M.jmax - 1) (j - 1)) (gcBidx M.imax i) * M.get (gcBidx (M.jmax - 1) (j - 1) + 1) (gcBidx M.imax i)
      else Mv.get j i }

def gcSetInnerRows? (Mv M : Arr2 Int) : Option (Arr2 Int) :=
  if gcBcast (M.jmax - 1) (Mv.jmax - 2) && gcBcast M.imax Mv.imax then some (gcSetInnerRows Mv M) else none

/-- `Mv[0, :] = M[0, :]` -/
def gcSetFirstRow (Mv M : Arr2 Int) : Arr2 Int :=
  { Mv with get := fun j i => if j = 0 then M.get 0 (gcBidx M.imax i) else Mv.get j i }

/-- `Mv[-1, :] = M[-1, :]` -/
def gcSetLastRow (Mv M : Arr2 Int) : Arr2 Int :=
  { Mv with get := fun j i =>
      if j = (Mv.jmax : Int) - 1 then M.get ((M.jmax : Int) - 1) (gcBidx M.imax i) else Mv.get j i }

def gcRowOk (Mv M : Arr2 Int) : Bool := decide (1 ≤ M.jmax) && decide (1 ≤ Mv.jmax) && gcBcast M.imax Mv.imax

def gcSetFirstRow? (Mv M : Arr2 Int) : Option (Arr2 Int) := if gcRowOk Mv M then some (gcSetFirstRow Mv M) else none

def gcSetLastRow? (Mv M : Arr2 Int) : Option (Arr2 Int) := if gcRowOk Mv M then some (gcSetLastRow Mv M) else none

/-! ### the state of the constructor -/

/-- a pending (caught) exception -/
inductive GcExc where
  | osError
  | keyError

structure GcSt (α : Type) where
  gridFile : Option (GcFileRef α) := none
  pat : Option (GcPattern α) := none
  files : Option (List (GcFileRef α)) := none
  ncid : Option (GcFile α) := none
  exc : Option GcExc := none
  /-- `ncid.close()` was called -/
  closed : Bool := false
  jmaxF : Option Int := none
  imaxF : Option Int := none
  wholeGrid : Option (List Int) := none
  limits : Option (List (Option Int)) := none
  ind : Nat := 0
  val : Option Int := none
  i0 : Option Int := none
  i1 : Option Int := none
  j0 : Option Int := none
  j1 : Option Int := none
  imax : Option Int := none
  jmax : Option Int := none
  xmin : Option α := none
  xmax : Option α := none
  ymin : Option α := none
  ymax : Option α := none
  I : Option (Int × Int) := none
  J : Option (Int × Int) := none
  Iu : Option (Int × Int) := none
  Ju : Option (Int × Int) := none
  Iv : Option (Int × Int) := none
  Jv : Option (Int × Int) := none
  vinfo : Option (GcVinfo α) := none
  N : Option Int := none
  hc : Option α := none
  Vstretching : Option Int := none
  Vtransform : Option Int := none
  Cs_r : Option (List α) := none
  Cs_w : Option (List α) := none
  H : Option (Arr2 α) := none
  M : Option (Arr2 Int) := none
  dx : Option (Arr2 α) := none
  dy : Option (Arr2 α) := none
  lon : Option (Arr2 α) := none
  lat : Option (Arr2 α) := none
  angle : Option (Arr2 α) := none
  z_r : Option (Arr3 α) := none
  z_w : Option (Arr3 α) := none
  /-- the local `M` -/
  Mloc : Option (Arr2 Int) := none
  /-- the local `Mu` -/
  MuLoc : Option (Arr2 Int) := none
  /-- the local `Mv` -/
  MvLoc : Option (Arr2 Int) := none
  Mu : Option (Arr2 Int) := none
  Mv : Option (Arr2 Int) := none

def GcSt.init {α : Type} : GcSt α := {}

section
variable {α : Type} [Add α] [Sub α] [Mul α] [Div α] [Neg α] [LT α] [DecidableLT α]
  [LE α] [DecidableLE α] [OfScientific α] [HasRound α] [HasTrunc α] [HasOfInt α]

/-! ### conditions, statements, the loop -/

def gcAtom (cfg : GcConfig α) (s : GcSt α) : String → Option Bool
  | "'grid_file' in config['gridforce']" => some cfg.gridFile.isSome
  | "'input_file' in config['gridforce']" => some cfg.inputFile.isSome
  | "isinstance(pat, list) or isinstance(pat, tuple)" => some (match s.pat with | some (.files _) => true | _ => false)
  | "try" => some s.exc.isNone
  | "isinstance(grid_file, memoryview)" => some (match s.gridFile with | some f => f.isMemoryview | none => false)
  | "except OSError" => some (match s.exc with | some .osError => true | _ => false)
  | "'subgrid' in config['gridforce']" => some cfg.subgrid.isSome
  | "val is None" => some s.val.isNone
  | "'Vinfo' in config['gridforce']" => some cfg.vinfo.isSome
  | "except KeyError" => some (match s.exc with | some .keyError => true | _ => false)
  | _ => none

def gcIsLoop (c : String) : Bool := c == "for (ind, val) in enumerate(limits)"

/-- `enumerate(limits)`: one trip per entry -/
def gcTrips (s : GcSt α) (_ : String) : Nat := (s.limits.getD []).length

/-- trip `i`: `ind = i`, `val = limits[i]` (the list as it is now) -/
def gcBind (s : GcSt α) (_ : String) (i : Nat) : GcSt α := { s with ind := i, val := ((s.limits.getD [])[i]?).join }

/-- `Dataset(…)` on the reference: the opened file, or a pending `OSError` -/
def gcOpenInto (s : GcSt α) (f : GcFileRef α) : GcSt α :=
  match f.content with
  | some d => { s with ncid := some d }
  | none => { s with exc := some .osError }

def gcStep (E : GcEnv α) (cfg : GcConfig α) (s : GcSt α) : String → String → Option (Option (GcSt α))
  | "expr", "logging.info('Initializing ROMS-type grid object')" => some (some s)
  -- the grid file
  | "assign", "grid_file = config['gridforce']['grid_file']" =>
    some (cfg.gridFile.map fun f => { s with gridFile := some f })
  | "assign", "pat = config['gridforce']['input_file']" => some (cfg.inputFile.map fun p => { s with pat := some p })
  | "assign", "files = pat" =>
    some (s.pat.bind fun p => match p with | .files fs => some { s with files := some fs } | .pattern _ _ => none)
  | "assign", "files = sorted(glob.glob(pat))" =>
    some (s.pat.bind fun p => match p with | .pattern _ found => some { s with files := some found } | .files _ => none)
  | "assign", "grid_file = files[0]" =>
    some (s.files.bind fun fs => fs.head?.map fun f => { s with gridFile := some f })      -- empty: `IndexError`
  | "expr", "logging.error('No grid file specified')" => some (some s)
  | "raise", "raise SystemExit(1)" => some none
  | "import", "import uuid" => some (some s)
  | "assign", "ncid = Dataset(uuid.uuid4(), mode='r', memory=grid_file)" => some (s.gridFile.map (gcOpenInto s))
  | "assign", "ncid = Dataset(grid_file)" => some (s.gridFile.map (gcOpenInto s))
  | "expr", "ncid.set_auto_mask(False)" => some (s.ncid.map fun _ => s)
  -- `str + memoryview` is a `TypeError`, otherwise the message is logged; the constructor raises either way
  | "expr", "logging.error('Could not open grid file ' + grid_file)" =>
    some (s.gridFile.bind fun f => if f.isMemoryview then none else some s)
  -- the subgrid
  | "assign", "jmax, imax = ncid.variables['h'].shape" =>
    some (s.ncid.map fun f => { s with jmaxF := some (f.h.jmax : Int), imaxF := some (f.h.imax : Int) })
  | "assign", "whole_grid = [1, imax - 1, 1, jmax - 1]" =>
    some (map2 (fun im jm => { s with wholeGrid := some [1, im - 1, 1, jm - 1] }) s.imaxF s.jmaxF)
  | "assign", "limits = list(config['gridforce']['subgrid'])" =>
    some (cfg.subgrid.map fun l => { s with limits := some l })
  | "assign", "limits = whole_grid" => some (s.wholeGrid.map fun w => { s with limits := some (w.map some) })
  | "assign", "limits[ind] = whole_grid[ind]" =>                        -- `IndexError` beyond the fourth entry
    some (s.limits.bind fun l => s.wholeGrid.bind fun w => w[s.ind]?.map fun x =>
      { s with limits := some (l.set s.ind (some x)) })
  | "assign", "self.i0, self.i1, self.j0, self.j1 = limits" =>           -- not four entries: `ValueError`
    some (match s.limits with
      | some [some a, some b, some c, some d] => some { s with i0 := some a, i1 := some b, j0 := some c, j1 := some d }
      | _ => none)
  | "assign", "self.imax = self.i1 - self.i0" => some (map2 (fun a b => { s with imax := some (a - b) }) s.i1 s.i0)
  | "assign", "self.jmax = self.j1 - self.j0" => some (map2 (fun a b => { s with jmax := some (a - b) }) s.j1 s.j0)
  | "assign", "self.xmin = float(self.i0)" => some (s.i0.map fun a => { s with xmin := some (ofInt a) })
  | "assign", "self.xmax = float(self.i1 - 1)" => some (s.i1.map fun a => { s with xmax := some (ofInt (a - 1)) })
  | "assign", "self.ymin = float(self.j0)" => some (s.j0.map fun a => { s with ymin := some (ofInt a) })
  | "assign", "self.ymax = float(self.j1 - 1)" => some (s.j1.map fun a => { s with ymax := some (ofInt (a - 1)) })
  | "assign", "self.I = slice(self.i0, self.i1)" => some (map2 (fun a b => { s with I := some (a, b) }) s.i0 s.i1)
  | "assign", "self.J = slice(self.j0, self.j1)" => some (map2 (fun a b => { s with J := some (a, b) }) s.j0 s.j1)
  | "assign", "self.Iu = slice(self.i0 - 1, self.i1)" =>
    some (map2 (fun a b => { s with Iu := some (a - 1, b) }) s.i0 s.i1)
  | "assign", "self.Ju = self.J" => some (s.J.map fun a => { s with Ju := some a })
  | "assign", "self.Iv = self.I" => some (s.I.map fun a => { s with Iv := some a })
  | "assign", "self.Jv = slice(self.j0 - 1, self.j1)" =>
    some (map2 (fun a b => { s with Jv := some (a - 1, b) }) s.j0 s.j1)
  -- the vertical grid: from the configuration …
  | "assign", "Vinfo = config['gridforce']['Vinfo']" => some (cfg.vinfo.map fun v => { s with vinfo := some v })
  | "assign", "self.N = Vinfo['N']" => some (s.vinfo.map fun v => { s with N := some v.N })
  | "assign", "self.hc = Vinfo['hc']" => some (s.vinfo.map fun v => { s with hc := some v.hc })
  | "assign", "self.Vstretching = Vinfo.get('Vstretching', 1)" =>
    some (s.vinfo.map fun v => { s with Vstretching := some (v.Vstretching.getD 1) })
  | "assign", "self.Vtransform = Vinfo.get('Vtransform', 1)" =>
    some (s.vinfo.map fun v => { s with Vtransform := some (v.Vtransform.getD 1) })
  | "assign", "self.Cs_r = s_stretch(self.N, Vinfo['theta_s'], Vinfo['theta_b'], stagger='rho', Vstretching=self.Vstretching)" =>
    some (map3 (fun n (v : GcVinfo α) vs => { s with Cs_r := some (E.sStretch n v.theta_s v.theta_b true vs) })
      s.N s.vinfo s.Vstretching)
  | "assign", "self.Cs_w = s_stretch(self.N, Vinfo['theta_s'], Vinfo['theta_b'], stagger='w', Vstretching=self.Vstretching)" =>
    some (map3 (fun n (v : GcVinfo α) vs => { s with Cs_w := some (E.sStretch n v.theta_s v.theta_b false vs) })
      s.N s.vinfo s.Vstretching)
  -- … or from the grid file
  | "assign", "self.hc = ncid.variables['hc'].getValue()" =>
    some (s.ncid.bind fun f => f.hc.map fun x => { s with hc := some x })
  | "assign", "self.Cs_r = ncid.variables['Cs_r'][:]" =>
    some (s.ncid.bind fun f => f.Cs_r.map fun x => { s with Cs_r := some x })
  | "assign", "self.Cs_w = ncid.variables['Cs_w'][:]" =>
    some (s.ncid.bind fun f => f.Cs_w.map fun x => { s with Cs_w := some x })
  | "assign", "self.N = len(self.Cs_r)" => some (s.Cs_r.map fun c => { s with N := some (c.length : Int) })
  | "assign", "self.Vtransform = ncid.variables['Vtransform'].getValue()" =>
    some (s.ncid.map fun f =>
      match f.Vtransform with
      | some v => { s with Vtransform := some v }
      | none => { s with exc := some .keyError })
  | "assign", "self.Vtransform = 1" => some (some { s with Vtransform := some 1, exc := none })
  -- the horizontal arrays of the subgrid
  | "assign", "self.H = ncid.variables['h'][self.J, self.I]" =>
    some (map3 (fun (f : GcFile α) J I => { s with H := some (gcSlice f.h J I) }) s.ncid s.J s.I)
  | "assign", "self.M = ncid.variables['mask_rho'][self.J, self.I].astype(int)" =>
    some (map3 (fun (f : GcFile α) J I => { s with M := some (gcMap trunc (gcSlice f.mask_rho J I)) }) s.ncid s.J s.I)
  | "assign", "self.dx = 1.0 / ncid.variables['pm'][self.J, self.I]" =>
    some (map3 (fun (f : GcFile α) J I => { s with dx := some (gcMap (fun v => 1.0 / v) (gcSlice f.pm J I)) })
      s.ncid s.J s.I)
  | "assign", "self.dy = 1.0 / ncid.variables['pn'][self.J, self.I]" =>
    some (map3 (fun (f : GcFile α) J I => { s with dy := some (gcMap (fun v => 1.0 / v) (gcSlice f.pn J I)) })
      s.ncid s.J s.I)
  | "assign", "self.lon = ncid.variables['lon_rho'][self.J, self.I]" =>
    some (map3 (fun (f : GcFile α) J I => { s with lon := some (gcSlice f.lon_rho J I) }) s.ncid s.J s.I)
  | "assign", "self.lat = ncid.variables['lat_rho'][self.J, self.I]" =>
    some (map3 (fun (f : GcFile α) J I => { s with lat := some (gcSlice f.lat_rho J I) }) s.ncid s.J s.I)
  | "assign", "self.angle = ncid.variables['angle'][self.J, self.I]" =>
    some (map3 (fun (f : GcFile α) J I => { s with angle := some (gcSlice f.angle J I) }) s.ncid s.J s.I)
  | "assign", "self.z_r = sdepth(self.H, self.hc, self.Cs_r, stagger='rho', Vtransform=self.Vtransform)" =>
    some (s.Vtransform.bind fun vt =>
      map3 (fun H hc C => { s with z_r := some (E.sdepth H hc C true vt) }) s.H s.hc s.Cs_r)
  | "assign", "self.z_w = sdepth(self.H, self.hc, self.Cs_w, stagger='w', Vtransform=self.Vtransform)" =>
    some (s.Vtransform.bind fun vt =>
      map3 (fun H hc C => { s with z_w := some (E.sdepth H hc C false vt) }) s.H s.hc s.Cs_w)
  -- the land masks at the u- and v-points
  | "assign", "M = self.M" => some (s.M.map fun m => { s with Mloc := some m })
  | "assign", "Mu = np.zeros((self.jmax, self.imax + 1), dtype=int)" =>
    some (s.jmax.bind fun jm => s.imax.bind fun im => (gcZeros? jm (im + 1)).map fun z => { s with MuLoc := some z })
  | "assign", "Mu[:, 1:-1] = M[:, :-1] * M[:, 1:]" =>
    some (s.MuLoc.bind fun mu => s.Mloc.bind fun m => (gcSetInnerCols? mu m).map fun z => { s with MuLoc := some z })
  | "assign", "Mu[:, 0] = M[:, 0]" =>
    some (s.MuLoc.bind fun mu => s.Mloc.bind fun m => (gcSetFirstCol? mu m).map fun z => { s with MuLoc := some z })
  | "assign", "Mu[:, -1] = M[:, -1]" =>
    some (s.MuLoc.bind fun mu => s.Mloc.bind fun m => (gcSetLastCol? mu m).map fun z => { s with MuLoc := some z })
  | "assign", "self.Mu = Mu" => some (s.MuLoc.map fun mu => { s with Mu := some mu })
  | "assign", "Mv = np.zeros((self.jmax + 1, self.imax), dtype=int)" =>
    some (s.jmax.bind fun jm => s.imax.bind fun im => (gcZeros? (jm + 1) im).map fun z => { s with MvLoc := some z })
  | "assign", "Mv[1:-1, :] = M[:-1, :] * M[1:, :]" =>
    some (s.MvLoc.bind fun mv => s.Mloc.bind fun m => (gcSetInnerRows? mv m).map fun z => { s with MvLoc := some z })
  | "assign", "Mv[0, :] = M[0, :]" =>
    some (s.MvLoc.bind fun mv => s.Mloc.bind fun m => (gcSetFirstRow? mv m).map fun z => { s with MvLoc := some z })
  | "assign", "Mv[-1, :] = M[-1, :]" =>
    some (s.MvLoc.bind fun mv => s.Mloc.bind fun m => (gcSetLastRow? mv m).map fun z => { s with MvLoc := some z })
  | "assign", "self.Mv = Mv" => some (s.MvLoc.map fun mv => { s with Mv := some mv })
  | "expr", "ncid.close()" => some (s.ncid.map fun _ => { s with closed := true })
  | _, _ => none

def gcInterp (E : GcEnv α) (cfg : GcConfig α) : Loops.Interp (GcSt α) :=
  ⟨Loops.ofAtom (gcAtom cfg), gcStep E cfg, gcIsLoop, gcTrips, gcBind⟩

/-- `Grid.__init__(config)` as the generated sequence says: the local variables and the attributes at the end -/
def gridCtorSeq (E : GcEnv α) (cfg : GcConfig α) : Option (Option (GcSt α)) :=
  Loops.run (gcInterp E cfg) Gen.chem_grid_ctor_seq GcSt.init

/-! ### the constructed object -/

/-- the attributes of the `Grid` object.  `Vstretching` is an attribute only when `Vinfo` is configured. -/
structure GcGrid (α : Type) where
  /-- the reference that was opened -/
  gridFile : GcFileRef α
  i0 : Int
  i1 : Int
  j0 : Int
  j1 : Int
  imax : Int
  jmax : Int
  xmin : α
  xmax : α
  ymin : α
  ymax : α
  I : Int × Int
  J : Int × Int
  Iu : Int × Int
  Ju : Int × Int
  Iv : Int × Int
  Jv : Int × Int
  N : Int
  hc : α
  Vstretching : Option Int
  Vtransform : Int
  Cs_r : List α
  Cs_w : List α
  H : Arr2 α
  M : Arr2 Int
  dx : Arr2 α
  dy : Arr2 α
  lon : Arr2 α
  lat : Arr2 α
  angle : Arr2 α
  z_r : Arr3 α
  z_w : Arr3 α
  Mu : Arr2 Int
  Mv : Arr2 Int

/-- the object at the end of the run: every attribute assigned, the file closed, no exception pending -/
def GcSt.toGrid (s : GcSt α) : Option (GcGrid α) :=
  if s.closed && s.exc.isNone then
    s.gridFile.bind fun gridFile => s.i0.bind fun i0 => s.i1.bind fun i1 => s.j0.bind fun j0 => s.j1.bind fun j1 =>
    s.imax.bind fun imax => s.jmax.bind fun jmax =>
    s.xmin.bind fun xmin => s.xmax.bind fun xmax => s.ymin.bind fun ymin => s.ymax.bind fun ymax =>
    s.I.bind fun I => s.J.bind fun J => s.Iu.bind fun Iu => s.Ju.bind fun Ju => s.Iv.bind fun Iv => s.Jv.bind fun Jv =>
    s.N.bind fun N => s.hc.bind fun hc => s.Vtransform.bind fun Vtransform =>
    s.Cs_r.bind fun Cs_r => s.Cs_w.bind fun Cs_w =>
    s.H.bind fun H => s.M.bind fun M => s.dx.bind fun dx => s.dy.bind fun dy =>
    s.lon.bind fun lon => s.lat.bind fun lat => s.angle.bind fun angle =>
    s.z_r.bind fun z_r => s.z_w.bind fun z_w => s.Mu.bind fun Mu => s.Mv.map fun Mv =>
      { gridFile, i0, i1, j0, j1, imax, jmax, xmin, xmax, ymin, ymax, I, J, Iu, Ju, Iv, Jv, N, hc,
        Vstretching := s.Vstretching, Vtransform, Cs_r, Cs_w, H, M, dx, dy, lon, lat, angle, z_r, z_w, Mu, Mv }
  else none

/-- the outcome of a run as an object; a run that ends with an attribute unassigned, the file open or an exception
pending is not the constructor that was modelled (`none`) -/
def gcFinish (r : Option (Option (GcSt α))) : Option (Option (GcGrid α)) :=
  match r with
  | none => none
  | some none => some none
  | some (some s) => s.toGrid.map some

/-- `Grid(config)`: `some none` = the constructor raises, `some (some g)` = the object -/
def gridCtor (E : GcEnv α) (cfg : GcConfig α) : Option (Option (GcGrid α)) :=
  gcFinish (gridCtorSeq E cfg)

/-- what the sampling methods see of the object (`SampleSeq.GridEnv`); the integer mask as scalars -/
def GcGrid.env (g : GcGrid α) : GridEnv α :=
  { i0 := g.i0, j0 := g.j0, z_w := g.z_w, z_r := g.z_r, H := g.H, M := gcMap ofInt g.M, dx := g.dx,
    lon := g.lon, lat := g.lat, nCsw := g.Cs_w.length, xmin := g.xmin, xmax := g.xmax, ymin := g.ymin, ymax := g.ymax }

/-! ### closed form of the constructor -/

/-- which file is opened: `grid_file` if configured; else the first entry of `input_file` (a list / tuple), or the
first of the sorted matches of the pattern; `none` = the constructor raises (`SystemExit(1)` without either key,
`IndexError` on an empty list / no match) -/
def gcGridFileOf (cfg : GcConfig α) : Option (GcFileRef α) :=
  match cfg.gridFile, cfg.inputFile with
  | some f, _ => some f
  | none, some (.files fs) => fs.head?
  | none, some (.pattern _ found) => found.head?
  | none, none => none

/-- `[i0, i1, j0, j1]`: the configured `subgrid` with every `None` replaced by the entry of
`whole_grid = [1, imax - 1, 1, jmax - 1]` (`imax`, `jmax` = the shape of the file's `h`); without `subgrid` the whole
grid without its outermost cells.  No entry is checked against the file (no `1 ≤ i0 < i1 ≤ imax - 1`).  `none` = the
constructor raises: `subgrid` has not four entries (`ValueError` at the unpacking; `IndexError` in the loop for a `None`
beyond the fourth entry). -/
def gcLimits (imaxF jmaxF : Int) : Option (List (Option Int)) → Option (Int × Int × Int × Int)
  | none => some (1, imaxF - 1, 1, jmaxF - 1)
  | some [a, b, c, d] => some (a.getD 1, b.getD (imaxF - 1), c.getD 1, d.getD (jmaxF - 1))
  | some _ => none

/-- the s-level data -/
structure GcSLevels (α : Type) where
  N : Int
  hc : α
  Vstretching : Option Int
  Vtransform : Int
  Cs_r : List α
  Cs_w : List α

/-- where the s-level data come from: with `Vinfo` in the configuration everything from there (`Vstretching`,
`Vtransform` default 1, `Cs_r` / `Cs_w` computed by `s_stretch`), the file is not consulted; otherwise `hc`, `Cs_r`,
`Cs_w` from the grid file (`none` = `KeyError`: the constructor raises), `N = len(Cs_r)`, `Vtransform` from the file or
1 if the file has none -/
def gcSLevels (E : GcEnv α) (cfg : GcConfig α) (f : GcFile α) : Option (GcSLevels α) :=
  match cfg.vinfo with
  | some v =>
    some { N := v.N, hc := v.hc, Vstretching := some (v.Vstretching.getD 1), Vtransform := v.Vtransform.getD 1,
           Cs_r := E.sStretch v.N v.theta_s v.theta_b true (v.Vstretching.getD 1),
           Cs_w := E.sStretch v.N v.theta_s v.theta_b false (v.Vstretching.getD 1) }
  | none =>
    f.hc.bind fun hc => f.Cs_r.bind fun r => f.Cs_w.map fun w =>
      { N := (r.length : Int), hc := hc, Vstretching := none, Vtransform := f.Vtransform.getD 1, Cs_r := r, Cs_w := w }

/-- the u- and v-masks, in the order of the code: `Mu` = zeros of shape `(jmax, imax + 1)`, inside the product of the
two neighbours, the first / last column of `M` at the two edges; `Mv` alike with rows.  `none` = one of the eight
statements raises: a negative dimension, or `M` (the shape of the slices of the *file*) does not fit `jmax = j1 - j0`,
`imax = i1 - i0` (up to broadcasting), or is empty — the only place where the constructor notices a `subgrid` that
does not fit the file. -/
def gcMasks (jmax imax : Int) (M : Arr2 Int) : Option (Arr2 Int × Arr2 Int) :=
  (gcZeros? jmax (imax + 1)).bind fun u0 => (gcSetInnerCols? u0 M).bind fun u1 => (gcSetFirstCol? u1 M).bind fun u2 =>
  (gcSetLastCol? u2 M).bind fun mu =>
  (gcZeros? (jmax + 1) imax).bind fun v0 => (gcSetInnerRows? v0 M).bind fun v1 => (gcSetFirstRow? v1 M).bind fun v2 =>
  (gcSetLastRow? v2 M).map fun mv => (mu, mv)

/-- `self.M` -/
def gcMaskOf (f : GcFile α) (lim : Int × Int × Int × Int) : Arr2 Int :=
  gcMap trunc (gcSlice f.mask_rho (lim.2.2.1, lim.2.2.2) (lim.1, lim.2.1))

/-- the object built from the opened file `f`, the limits, the s-level data and the two masks -/
def gcBuild (E : GcEnv α) (ref : GcFileRef α) (f : GcFile α) (lim : Int × Int × Int × Int) (sl : GcSLevels α)
    (masks : Arr2 Int × Arr2 Int) : GcGrid α :=
  let i0 := lim.1
  let i1 := lim.2.1
  let j0 := lim.2.2.1
  let j1 := lim.2.2.2
  let H := gcSlice f.h (j0, j1) (i0, i1)
  { gridFile := ref, i0 := i0, i1 := i1, j0 := j0, j1 := j1, imax := i1 - i0, jmax := j1 - j0,
    xmin := ofInt i0, xmax := ofInt (i1 - 1), ymin := ofInt j0, ymax := ofInt (j1 - 1),
    I := (i0, i1), J := (j0, j1), Iu := (i0 - 1, i1), Ju := (j0, j1), Iv := (i0, i1), Jv := (j0 - 1, j1),
    N := sl.N, hc := sl.hc, Vstretching := sl.Vstretching, Vtransform := sl.Vtransform, Cs_r := sl.Cs_r, Cs_w := sl.Cs_w,
    H := H, M := gcMaskOf f lim,
    dx := gcMap (fun v => 1.0 / v) (gcSlice f.pm (j0, j1) (i0, i1)),
    dy := gcMap (fun v => 1.0 / v) (gcSlice f.pn (j0, j1) (i0, i1)),
    lon := gcSlice f.lon_rho (j0, j1) (i0, i1), lat := gcSlice f.lat_rho (j0, j1) (i0, i1),
    angle := gcSlice f.angle (j0, j1) (i0, i1),
    z_r := E.sdepth H sl.hc sl.Cs_r true sl.Vtransform, z_w := E.sdepth H sl.hc sl.Cs_w false sl.Vtransform,
    Mu := masks.1, Mv := masks.2 }

/-- closed form of `Grid(config)`; `none` = the constructor raises.  The order of the failures is the order of the
code: no grid file, the file cannot be opened, the subgrid has not four entries, an s-level variable is missing, the
masks at the u- and v-points cannot be filled. -/
def gridCtorSpec (E : GcEnv α) (cfg : GcConfig α) : Option (GcGrid α) :=
  (gcGridFileOf cfg).bind fun ref => ref.content.bind fun f =>
  (gcLimits (f.h.imax : Int) (f.h.jmax : Int) cfg.subgrid).bind fun lim =>
  (gcSLevels E cfg f).bind fun sl =>
  (gcMasks (lim.2.2.2 - lim.2.2.1) (lim.2.1 - lim.1) (gcMaskOf f lim)).map fun masks => gcBuild E ref f lim sl masks

/-! ### `Grid.lonlat(X, Y, method)` -/

def gcLonlatAtom (bilinear : Bool) (_ : CellSt α) : String → Option Bool
  | "method == 'bilinear'" => some bilinear
  | _ => none

def gcLonlatStep (g : GridEnv α) (X Y : α) (s : CellSt α) : String → String → Option (Option (CellSt α))
  | "assign", "I = X.round().astype('int') - self.i0" => some (some { s with I := some (trunc (round X) - g.i0) })
  | "assign", "J = Y.round().astype('int') - self.j0" => some (some { s with J := some (trunc (round Y) - g.j0) })
  | "assign", "I, J = _clamp_index(I, J, self.lon.shape)" =>
    callWith (map2 Prod.mk s.I s.J) (fun a => clampIndexSeq a.1 a.2 (g.lon.jmax, g.lon.imax))
      (fun r => { s with I := some r.1, J := some r.2 })
  | _, _ => none

/-- `self.xy2ll(X, Y)` runs the interpretation of `Gen.chem_grid_xy2ll_seq` -/
def gcLonlatRet (nextafter0 : α → α) (sample2D : Arr2 α → α → α → α) (g : GridEnv α) (X Y : α) (s : CellSt α) :
    String → Option (Option (α × α))
  | "self.xy2ll(X, Y)" => xy2llSeq nextafter0 sample2D g X Y
  | "(self.lon[J, I], self.lat[J, I])" => some (map2 (fun j i => (g.lon.get j i, g.lat.get j i)) s.J s.I)
  | _ => none

/-- `Grid.lonlat(X, Y, method)` as the generated sequence says; `bilinear` = `method == 'bilinear'` (the default) -/
def gcLonlatSeq (nextafter0 : α → α) (sample2D : Arr2 α → α → α → α) (g : GridEnv α) (X Y : α) (bilinear : Bool) :
    Option (Option (α × α)) :=
  runRet (gcLonlatAtom bilinear) (gcLonlatStep g X Y) (gcLonlatRet nextafter0 sample2D g X Y) Gen.chem_grid_lonlat_seq
    CellSt.init

/-- closed form: `xy2ll` (`sample2D` at the clipped local coordinates) for `bilinear`, else `lon` / `lat` at the
particle's own cell (`cellIndex`, clamped with the shape of `lon`) -/
def gcLonlatSpec (nextafter0 : α → α) (sample2D : Arr2 α → α → α → α) (g : GridEnv α) (X Y : α) (bilinear : Bool) :
    α × α :=
  if bilinear then xy2llSpec nextafter0 sample2D g X Y
  else (g.lon.get (cellIndex g.lon.jmax g.j0 Y) (cellIndex g.lon.imax g.i0 X),
        g.lat.get (cellIndex g.lon.jmax g.j0 Y) (cellIndex g.lon.imax g.i0 X))

/-! ### `Grid.onland(X, Y)` -/

def gcOnlandRet (g : GridEnv α) (s : CellSt α) : String → Option (Option Bool)
  | "self.M[J, I] < 1" => some (map2 (fun j i => decide (g.M.get j i < 1.0)) s.J s.I)
  | _ => none

/-- `Grid.onland(X, Y)` as the generated sequence says (the statements are those of `atsea`: `cellStep`) -/
def gcOnlandSeq (g : GridEnv α) (X Y : α) : Option (Option Bool) :=
  runRet noAtom (cellStep g X Y) (gcOnlandRet g) Gen.chem_grid_onland_seq CellSt.init

/-! ### `Grid.ll2xy(lon, lat)` -/

structure GcLlSt (α : Type) where
  X : Option α
  Y : Option α

/-- `bilinInv lon lat glon glat` = `ladim.sample.bilin_inv(lon, lat, glon, glat, maxiter=20, tol=1e-20)`: `(Y, X)` -/
def gcLl2xyStep (bilinInv : α → α → Arr2 α → Arr2 α → α × α) (g : GridEnv α) (lon lat : α) (s : GcLlSt α) :
    String → String → Option (Option (GcLlSt α))
  | "assign", "Y, X = bilin_inv(lon, lat, self.lon, self.lat, maxiter=20, tol=1e-20)" =>
    some (some { s with Y := some (bilinInv lon lat g.lon g.lat).1, X := some (bilinInv lon lat g.lon g.lat).2 })
  | _, _ => none

def gcLl2xyRet (g : GridEnv α) (s : GcLlSt α) : String → Option (Option (α × α))
  | "(X + self.i0, Y + self.j0)" => some (map2 (fun x y => (x + ofInt g.i0, y + ofInt g.j0)) s.X s.Y)
  | _ => none

/-- `Grid.ll2xy(lon, lat)` as the generated sequence says -/
def gcLl2xySeq (bilinInv : α → α → Arr2 α → Arr2 α → α × α) (g : GridEnv α) (lon lat : α) : Option (Option (α × α)) :=
  runRet noAtom (gcLl2xyStep bilinInv g lon lat) (gcLl2xyRet g) Gen.chem_grid_ll2xy_seq ⟨none, none⟩

/-- closed form: the library's inverse on the subgrid arrays (it returns row first), shifted to global coordinates -/
def gcLl2xySpec (bilinInv : α → α → Arr2 α → Arr2 α → α × α) (g : GridEnv α) (lon lat : α) : α × α :=
  ((bilinInv lon lat g.lon g.lat).2 + ofInt g.i0, (bilinInv lon lat g.lon g.lat).1 + ofInt g.j0)

/-! ### salmon lice `Forcing.vert_mix(X, Y, Z)` -/

def gcVertMixStep (g : GridEnv α) (attr : String → Arr3 α) (X Y Z : α) (s : FieldSt α) :
    String → String → Option (Option (FieldSt α))
  | "assign", "i0 = self._grid.i0" => some (some { s with i0 := some g.i0 })
  | "assign", "j0 = self._grid.j0" => some (some { s with j0 := some g.j0 })
  | "assign", "K, A = z2s(self._grid.z_w, X - i0, Y - j0, Z)" =>
    callWith (map2 Prod.mk s.i0 s.j0) (fun a => z2sSeq g.z_w (.real (X - ofInt a.1)) (.real (Y - ofInt a.2)) Z)
      (fun r => { s with K := some r.1, A := some r.2 })
  | "assign", "F = self['AKs']" => some (some { s with F := some (attr "AKs") })
  | _, _ => none

/-- `Forcing.vert_mix(X, Y, Z)` as the generated sequence says (the `return` text is that of `Forcing.field`) -/
def gcVertMixSeq (g : GridEnv α) (attr : String → Arr3 α) (X Y Z : α) : Option (Option α) :=
  runRet noAtom (gcVertMixStep g attr X Y Z) (fieldRet X Y) Gen.lice_vert_mix_seq FieldSt.init

/-- closed form: `z2s` on `z_w` (not `z_r`) at the local coordinates, nearest sampling of `AKs` -/
def gcVertMixSpecWith (z2s : Z2s α) (g : GridEnv α) (attr : String → Arr3 α) (X Y Z : α) : α :=
  let KA := z2s g.z_w (.real (X - ofInt g.i0)) (.real (Y - ofInt g.j0)) Z
  sample3DSpec (attr "AKs") (X - ofInt g.i0) (Y - ofInt g.j0) KA.1 KA.2 false

def gcVertMixSpec (g : GridEnv α) (attr : String → Arr3 α) (X Y Z : α) : α :=
  gcVertMixSpecWith z2sSpec g attr X Y Z

end
end Ladim.GridCtorSeq
