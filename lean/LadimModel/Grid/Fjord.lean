/-!
`vps/ibm.py`: `dilate`, `distance`, `fjord_index`, `descent`; `vps/gridforce.py :: fish_velocity`.

Matrices are functions `Int → Int → Int` on a `rows × cols` index box (row index first, as numpy);
`scipy.ndimage.generic_filter(mode='constant', cval=c)` reads `c` outside the box.
Values of a distance matrix: `-2` obstacle, `-1` unknown, `n ≥ 0` taxicab distance to the sources.
-/
namespace Ladim.Fjord

structure Mat where
  rows : Nat
  cols : Nat
  val : Int → Int → Int

/-- entry with constant extension `c` outside the box -/
def Mat.get (m : Mat) (c : Int) (i j : Int) : Int :=
  if 0 ≤ i ∧ i < m.rows ∧ 0 ≤ j ∧ j < m.cols then m.val i j else c

def Mat.inBox (m : Mat) (i j : Int) : Bool := decide (0 ≤ i ∧ i < m.rows ∧ 0 ≤ j ∧ j < m.cols)

/-- smallest non-negative value of a list, if any -/
def minNonneg : List Int → Option Int
  | [] => none
  | x :: xs =>
    match minNonneg xs with
    | none => if 0 ≤ x then some x else none
    | some y => if 0 ≤ x ∧ x < y then some x else some y

/-- `_dilate_filter` applied at `(i, j)`: footprint order up, left, center, right, down -/
def dilateAt (m : Mat) (i j : Int) : Int :=
  let center := m.get (-2) i j
  if center ≠ -1 then center
  else
    match minNonneg [m.get (-2) (i - 1) j, m.get (-2) i (j - 1), m.get (-2) i (j + 1), m.get (-2) (i + 1) j] with
    | none => center
    | some v => v + 1

/-- `dilate(matrix)` -/
def dilate (m : Mat) : Mat := { m with val := fun i j => dilateAt m i j }

/-- `k` dilations -/
def dilateIter (m : Mat) : Nat → Mat
  | 0 => m
  | k + 1 => dilate (dilateIter m k)

/-- `distance(matrix)`: dilate until nothing changes, at most `size` times (`size` dilations always
suffice: the model applies exactly `size`, which yields the same matrix because a fixed point is
absorbing) -/
def distance (m : Mat) : Mat := dilateIter m (m.rows * m.cols)

/-- binary dilation with the taxicab footprint, `border_value = 0` -/
def bdilateAt (m : Mat) (i j : Int) : Int :=
  if m.get 0 i j ≠ 0 ∨ m.get 0 (i - 1) j ≠ 0 ∨ m.get 0 i (j - 1) ≠ 0 ∨ m.get 0 i (j + 1) ≠ 0 ∨ m.get 0 (i + 1) j ≠ 0
  then 1 else 0

def bdilate (m : Mat) : Mat := { m with val := fun i j => bdilateAt m i j }

def bdilateIter (m : Mat) : Nat → Mat
  | 0 => m
  | k + 1 => bdilate (bdilateIter m k)

/-- `binary_dilation(input, structure, iterations)`: `iterations < 1` means "until no change" -/
def binaryDilation (m : Mat) (iterations : Int) : Mat :=
  if iterations < 1 then bdilateIter m (m.rows * m.cols) else bdilateIter m iterations.toNat

/-- the cells that are *not* open ocean: land dilated `ocean_dist - 1` times; no dilation at all for an ocean
distance of at most one cell (since the `fix:` commit 8d30123; before it `binary_dilation` was called with
`iterations < 1`, i.e. "until no change", and no cell was ocean) -/
def notOcean (land : Mat) (oceanDist : Int) : Mat :=
  if 1 < oceanDist then binaryDilation land (oceanDist - 1) else land

/-- `fjord_index(land, ocean_dist)`; `land` holds 1 on land, 0 at sea -/
def fjordInput (land : Mat) (oceanDist : Int) : Mat :=
  let no := notOcean land oceanDist
  { land with val := fun i j => -(no.get 0 i j) - land.get 0 i j }

/-- the code before the `fix:` commit 8d30123 -/
def fjordInputOld (land : Mat) (oceanDist : Int) : Mat :=
  let no := binaryDilation land (oceanDist - 1)
  { land with val := fun i j => -(no.get 0 i j) - land.get 0 i j }

def fjordIndex (land : Mat) (oceanDist : Int) : Mat := distance (fjordInput land oceanDist)

/-- `_descent_filter_type`: 0 = stay, 1 = left, 2 = right, 3 = down (row + 1), 4 = up (row − 1) -/
def descentDir (w : Mat) (i j : Int) : Nat :=
  let up := w.get (-1) (i - 1) j
  let left := w.get (-1) i (j - 1)
  let center := w.get (-1) i j
  let right := w.get (-1) i (j + 1)
  let down := w.get (-1) (i + 1) j
  if center ≤ 0 then 0
  else
    match minNonneg [up, left, center, right, down] with
    | none => 0
    | some s =>
      if center = s then 0 else if left = s then 1 else if right = s then 2 else if down = s then 3
      else if up = s then 4 else 0

/-- `u_values = [0, -1, 1, 0, 0]`, `v_values = [0, 0, 0, -1, 1]` -/
def uOf : Nat → Int
  | 1 => -1
  | 2 => 1
  | _ => 0
def vOf : Nat → Int
  | 3 => -1
  | 4 => 1
  | _ => 0

/-- how the tracker uses `(u, v)`: `X` is the column index, `Y` the row index, both grow with the
index.  `picture`: the code as it is (`v = +1` means "up" = row − 1 in the picture, but the tracker adds
it to `Y`); `grid`: `v` re-expressed in grid coordinates. -/
inductive VSign where
  | picture
  | grid
  deriving DecidableEq, Repr

/-- the cell the fish moves to in one step of following the velocity field -/
def nextCell (s : VSign) (w : Mat) (i j : Int) : Int × Int :=
  let d := descentDir w i j
  match s with
  | .picture => (i + vOf d, j + uOf d)     -- row += v  (v = -1 for "down": moves to row − 1)
  | .grid => (i - vOf d, j + uOf d)        -- row −= v  (down: row + 1)

/-- follow the field for `fuel` steps -/
def follow (s : VSign) (w : Mat) : Nat → Int × Int → List (Int × Int)
  | 0, c => [c]
  | k + 1, c => c :: follow s w k (nextCell s w c.1 c.2)

end Ladim.Fjord
