import LadimModel.Grid.ComputeW
import LadimModel.Release.ReleaseSeq
import LadimModel.Generated.Formulas
/-!
Interpretation of the generated statement sequences of `chemicals/gridforce.py`:
`compute_w` (`Gen.compute_w_seq`, the whole-array numpy program), `Forcing.compute_w` (`Gen.forcing_compute_w_seq`, its
caller), `s_stretch` (`Gen.s_stretch_seq`) and `sdepth` (`Gen.sdepth_seq`).

**Array semantics.**  An array is a *total* function of its indices together with a shape and a validity flag
(`CwA2`: `(J, I)`; `CwA3`: `(n0, J, I)`; `CwA4`: `(T, K, J, I)`).  The two leading axes (time, level) are indexed by
`Nat`, the two horizontal axes by `Int` (as in `LadimModel/Grid/ComputeW.lean`).  A slice is an index shift and a new
length: `A[:, 1:, :, :]` is `fun t k j i => A t (k+1) j i` with `K-1` levels, `A[..., :-1]` keeps the function and
shortens the axis, `A[:, -1:, ...]` shifts by `K-1` and has `min K 1` levels, `A[:, -2, :, :]` is the 3-D array at level
`K-2` (an `IndexError` — flag `ok = false` — when `K < 2`).  `ok = false` is the error value: an unbound (never
assigned, or `del`eted) name, an index out of range, or operands whose shapes differ.  Element-wise operations require
*equal* shapes; the broadcasts that the program really uses are explicit operations chosen per statement:
a scalar against an array (`scale`, `sdiv`), a 2-D metric array against a 4-D array (`lift24`: aligned on the two
trailing axes, repeated over time and level), and a 4-D array with ONE level against a 4-D array with many
(`bcastK`).  (numpy would also broadcast any other axis of length 1; such calls are outside the model and are reported
as an error.)  Values are computed regardless of the flags, so that the result of the run is a closed term; the flags
are collected in `CwSt.good` (every assignment adds the flag of the assigned value, every `del` the flag of the deleted
name), and the run *raises* (`some none`) when `good` is false at the end — the program is a straight line without side
effects, so "some statement raises" and "some flag is false" are the same thing.

Parameters of the interpretations (everything that is not in the statement texts): the argument arrays; for
`Forcing.compute_w` the grid arrays `self._grid.z_r / z_w / dx / dy` and the interpretation of the callee; for
`s_stretch` / `sdepth` the library functions `np.sinh`, `np.cosh`, `np.tanh` (and `np.exp`, `**` through `HasExp`,
`HasRpow`), the conversion of an integer to a float (`HasOfInt`), and the values of `stagger`, `Vstretching`,
`Vtransform`.

`LadimProofs/Bridge/ComputeWSeq.lean` proves that the interpretation of `Gen.compute_w_seq` is `ComputeW.computeW` cell by
cell, and closed forms for the others.
-/
namespace Ladim.Seq

/-! ## arrays -/

/-- 2-D array, shape `(nj, ni)` -/
structure CwA2 (α : Type) where
  ok : Bool
  nj : Nat
  ni : Nat
  f : Int → Int → α

/-- 3-D array, shape `(n0, nj, ni)`; the leading axis is time or level -/
structure CwA3 (α : Type) where
  ok : Bool
  n0 : Nat
  nj : Nat
  ni : Nat
  f : Nat → Int → Int → α

/-- 4-D array, shape `(nt, nk, nj, ni)` -/
structure CwA4 (α : Type) where
  ok : Bool
  nt : Nat
  nk : Nat
  nj : Nat
  ni : Nat
  f : Nat → Nat → Int → Int → α

/-- a scalar variable (`ok = false`: unbound) -/
structure CwS (α : Type) where
  ok : Bool
  v : α

section
variable {α : Type}

def CwA2.zip (op : α → α → α) (A B : CwA2 α) : CwA2 α :=
  ⟨A.ok && B.ok && (A.nj == B.nj && A.ni == B.ni), A.nj, A.ni, fun j i => op (A.f j i) (B.f j i)⟩
def CwA3.zip (op : α → α → α) (A B : CwA3 α) : CwA3 α :=
  ⟨A.ok && B.ok && (A.n0 == B.n0 && A.nj == B.nj && A.ni == B.ni), A.n0, A.nj, A.ni,
    fun t j i => op (A.f t j i) (B.f t j i)⟩
def CwA4.zip (op : α → α → α) (A B : CwA4 α) : CwA4 α :=
  ⟨A.ok && B.ok && (A.nt == B.nt && A.nk == B.nk && A.nj == B.nj && A.ni == B.ni), A.nt, A.nk, A.nj, A.ni,
    fun t k j i => op (A.f t k j i) (B.f t k j i)⟩

/-- element-wise `+ - * /` of arrays of EQUAL shape -/
instance [Add α] : Add (CwA2 α) := ⟨CwA2.zip (· + ·)⟩
instance [Mul α] : Mul (CwA2 α) := ⟨CwA2.zip (· * ·)⟩
instance [Add α] : Add (CwA3 α) := ⟨CwA3.zip (· + ·)⟩
instance [Sub α] : Sub (CwA3 α) := ⟨CwA3.zip (· - ·)⟩
instance [Mul α] : Mul (CwA3 α) := ⟨CwA3.zip (· * ·)⟩
instance [Div α] : Div (CwA3 α) := ⟨CwA3.zip (· / ·)⟩
instance [Add α] : Add (CwA4 α) := ⟨CwA4.zip (· + ·)⟩
instance [Sub α] : Sub (CwA4 α) := ⟨CwA4.zip (· - ·)⟩
instance [Mul α] : Mul (CwA4 α) := ⟨CwA4.zip (· * ·)⟩
instance [Div α] : Div (CwA4 α) := ⟨CwA4.zip (· / ·)⟩

/-- `c * A`, `c / A` for a float `c` -/
def CwA2.sdiv [Div α] (c : α) (A : CwA2 α) : CwA2 α := ⟨A.ok, A.nj, A.ni, fun j i => c / A.f j i⟩
def CwA4.scale [Mul α] (c : α) (A : CwA4 α) : CwA4 α := ⟨A.ok, A.nt, A.nk, A.nj, A.ni, fun t k j i => c * A.f t k j i⟩
/-- `c * A` for a scalar variable `c` -/
def CwA3.scaleS [Mul α] (c : CwS α) (A : CwA3 α) : CwA3 α :=
  ⟨c.ok && A.ok, A.n0, A.nj, A.ni, fun t j i => c.v * A.f t j i⟩
def CwA4.scaleS [Mul α] (c : CwS α) (A : CwA4 α) : CwA4 α :=
  ⟨c.ok && A.ok, A.nt, A.nk, A.nj, A.ni, fun t k j i => c.v * A.f t k j i⟩
/-- `-A` -/
def CwA4.neg [Neg α] (A : CwA4 α) : CwA4 α := ⟨A.ok, A.nt, A.nk, A.nj, A.ni, fun t k j i => -A.f t k j i⟩

/-! ### slices of a 2-D array -/
/-- `A[a:, :]` -/
def CwA2.jFrom (a : Nat) (A : CwA2 α) : CwA2 α := ⟨A.ok, A.nj - a, A.ni, fun j i => A.f (j + a) i⟩
/-- `A[:-b, :]` -/
def CwA2.jTo (b : Nat) (A : CwA2 α) : CwA2 α := ⟨A.ok, A.nj - b, A.ni, A.f⟩
/-- `A[a:-b, :]` -/
def CwA2.jMid (a b : Nat) (A : CwA2 α) : CwA2 α := ⟨A.ok, A.nj - b - a, A.ni, fun j i => A.f (j + a) i⟩
/-- `A[:, a:]` -/
def CwA2.iFrom (a : Nat) (A : CwA2 α) : CwA2 α := ⟨A.ok, A.nj, A.ni - a, fun j i => A.f j (i + a)⟩
/-- `A[:, :-b]` -/
def CwA2.iTo (b : Nat) (A : CwA2 α) : CwA2 α := ⟨A.ok, A.nj, A.ni - b, A.f⟩
/-- `A[:, a:-b]` -/
def CwA2.iMid (a b : Nat) (A : CwA2 α) : CwA2 α := ⟨A.ok, A.nj, A.ni - b - a, fun j i => A.f j (i + a)⟩

/-! ### slices of a 4-D array, one axis at a time (`A[:, 0, 1:-1, 1:-1]` is `((A.jMid 1 1).iMid 1 1).atK 0`) -/
/-- `A[:, a:, :, :]` -/
def CwA4.kFrom (a : Nat) (A : CwA4 α) : CwA4 α :=
  ⟨A.ok, A.nt, A.nk - a, A.nj, A.ni, fun t k j i => A.f t (k + a) j i⟩
/-- `A[:, :-b, :, :]` -/
def CwA4.kTo (b : Nat) (A : CwA4 α) : CwA4 α := ⟨A.ok, A.nt, A.nk - b, A.nj, A.ni, A.f⟩
/-- `A[:, a:-b, :, :]` (`a`, `b` ≥ 0 literals): starts at `a`, `(nk - b) - a` levels -/
def CwA4.kMid (a b : Nat) (A : CwA4 α) : CwA4 α :=
  ⟨A.ok, A.nt, A.nk - b - a, A.nj, A.ni, fun t k j i => A.f t (k + a) j i⟩
/-- `A[:, 0:1, :, :]` -/
def CwA4.kFirst1 (A : CwA4 α) : CwA4 α := ⟨A.ok, A.nt, min A.nk 1, A.nj, A.ni, A.f⟩
/-- `A[:, -1:, :, :]` -/
def CwA4.kLast1 (A : CwA4 α) : CwA4 α :=
  ⟨A.ok, A.nt, min A.nk 1, A.nj, A.ni, fun t k j i => A.f t (k + (A.nk - 1)) j i⟩
/-- `A[:, :, a:, :]` -/
def CwA4.jFrom (a : Nat) (A : CwA4 α) : CwA4 α :=
  ⟨A.ok, A.nt, A.nk, A.nj - a, A.ni, fun t k j i => A.f t k (j + a) i⟩
/-- `A[:, :, :-b, :]` -/
def CwA4.jTo (b : Nat) (A : CwA4 α) : CwA4 α := ⟨A.ok, A.nt, A.nk, A.nj - b, A.ni, A.f⟩
/-- `A[:, :, a:-b, :]` -/
def CwA4.jMid (a b : Nat) (A : CwA4 α) : CwA4 α :=
  ⟨A.ok, A.nt, A.nk, A.nj - b - a, A.ni, fun t k j i => A.f t k (j + a) i⟩
/-- `A[:, :, :, a:]` -/
def CwA4.iFrom (a : Nat) (A : CwA4 α) : CwA4 α :=
  ⟨A.ok, A.nt, A.nk, A.nj, A.ni - a, fun t k j i => A.f t k j (i + a)⟩
/-- `A[:, :, :, :-b]` -/
def CwA4.iTo (b : Nat) (A : CwA4 α) : CwA4 α := ⟨A.ok, A.nt, A.nk, A.nj, A.ni - b, A.f⟩
/-- `A[:, :, :, a:-b]` -/
def CwA4.iMid (a b : Nat) (A : CwA4 α) : CwA4 α :=
  ⟨A.ok, A.nt, A.nk, A.nj, A.ni - b - a, fun t k j i => A.f t k j (i + a)⟩
/-- `A[:, n, :, :]` (`n` ≥ 0): `IndexError` unless `n < nk` -/
def CwA4.atK (n : Nat) (A : CwA4 α) : CwA3 α :=
  ⟨A.ok && decide (n < A.nk), A.nt, A.nj, A.ni, fun t j i => A.f t n j i⟩
/-- `A[:, -n, :, :]` (`n` ≥ 1): `IndexError` unless `n ≤ nk` -/
def CwA4.atKNeg (n : Nat) (A : CwA4 α) : CwA3 α :=
  ⟨A.ok && decide (n ≤ A.nk), A.nt, A.nj, A.ni, fun t j i => A.f t (A.nk - n) j i⟩
/-- `A[0]`: `IndexError` on an empty leading axis -/
def CwA4.at0 (A : CwA4 α) : CwA3 α := ⟨A.ok && decide (0 < A.nt), A.nk, A.nj, A.ni, fun k j i => A.f 0 k j i⟩
/-- `A[:, np.newaxis, :, :]` of a 3-D array -/
def CwA3.newK (A : CwA3 α) : CwA4 α := ⟨A.ok, A.n0, 1, A.nj, A.ni, fun t _ j i => A.f t j i⟩
/-- `A[np.newaxis, :, :, :]` of a 3-D array -/
def CwA3.newT (A : CwA3 α) : CwA4 α := ⟨A.ok, 1, A.n0, A.nj, A.ni, fun _ k j i => A.f k j i⟩

/-! ### broadcasts -/
/-- a 2-D array against a 4-D array with `nt` times and `nk` levels: aligned on the trailing axes -/
def CwA2.lift24 (nt nk : Nat) (A : CwA2 α) : CwA4 α := ⟨A.ok, nt, nk, A.nj, A.ni, fun _ _ j i => A.f j i⟩
/-- an array with ONE level against an array with `nk` levels -/
def CwA4.bcastK (nk : Nat) (A : CwA4 α) : CwA4 α :=
  ⟨A.ok && A.nk == 1, A.nt, nk, A.nj, A.ni, fun t _ j i => A.f t 0 j i⟩

/-! ### `cumsum`, `concatenate`, `pad` -/
/-- `a.cumsum()`: `c[0] = a[0]`, `c[k+1] = c[k] + a[k+1]` (the order of the additions matters in floating point) -/
def cwCsum [Add α] (a : Nat → α) : Nat → α
  | 0 => a 0
  | k + 1 => cwCsum a k + a (k + 1)
/-- `A.cumsum(axis=1)` -/
def CwA4.cumsumK [Add α] (A : CwA4 α) : CwA4 α :=
  ⟨A.ok, A.nt, A.nk, A.nj, A.ni, fun t k j i => cwCsum (fun l => A.f t l j i) k⟩
/-- `np.concatenate((A, B), axis=1)`: the other axes must agree -/
def CwA4.catK (A B : CwA4 α) : CwA4 α :=
  ⟨A.ok && B.ok && (A.nt == B.nt && A.nj == B.nj && A.ni == B.ni), A.nt, A.nk + B.nk, A.nj, A.ni,
    fun t k j i => if k < A.nk then A.f t k j i else B.f t (k - A.nk) j i⟩
/-- `np.pad(A, ((0, 0), (0, 0), (1, 1), (1, 1)), 'constant')`: one ring of zeros around the two horizontal axes -/
def CwA4.pad11 [OfScientific α] (A : CwA4 α) : CwA4 α :=
  ⟨A.ok, A.nt, A.nk, A.nj + 2, A.ni + 2,
    fun t k j i => if 1 ≤ j ∧ j < (A.nj : Int) + 1 ∧ 1 ≤ i ∧ i < (A.ni : Int) + 1 then A.f t k (j - 1) (i - 1) else 0.0⟩

/-- an unbound name -/
def CwA2.unbound [OfScientific α] : CwA2 α := ⟨false, 0, 0, fun _ _ => 0.0⟩
def CwA3.unbound [OfScientific α] : CwA3 α := ⟨false, 0, 0, 0, fun _ _ _ => 0.0⟩
def CwA4.unbound [OfScientific α] : CwA4 α := ⟨false, 0, 0, 0, 0, fun _ _ _ _ => 0.0⟩
def CwS.unbound [OfScientific α] : CwS α := ⟨false, 0.0⟩

end

/-! ## `compute_w(pn, pm, u, v, z_w, z_r)` -/

/-- the local names of `compute_w`; `good`: no statement so far has raised -/
structure CwSt (α : Type) where
  good : Bool
  pn : CwA2 α
  pm : CwA2 α
  u : CwA4 α
  v : CwA4 α
  z_w : CwA4 α
  z_r : CwA4 α
  Hz_r : CwA4 α
  Hz_u : CwA4 α
  Hz_v : CwA4 α
  on_u : CwA2 α
  om_v : CwA2 α
  Huon : CwA4 α
  Hvom : CwA4 α
  dW : CwA4 α
  W_0 : CwA4 α
  W : CwA4 α
  wrk : CwA4 α
  Wscl : CwA4 α
  wrk_u : CwA4 α
  vert_u : CwA4 α
  wrk_v : CwA4 α
  vert_v : CwA4 α
  vert : CwA4 α
  cff1 : CwS α
  cff2 : CwS α
  cff3 : CwS α
  cff4 : CwS α
  cff5 : CwS α
  slope_bot : CwA3 α
  vert_b0 : CwA3 α
  vert_b1 : CwA3 α
  vert_m : CwA4 α
  slope_top : CwA3 α
  vert_t0 : CwA3 α
  vert_t1 : CwA3 α
  vert_w : CwA4 α
  wvel_pad : CwA4 α
  ret : Option (CwA4 α)

section
variable {α : Type} [Add α] [Sub α] [Mul α] [Div α] [Neg α] [OfScientific α]

def CwSt.init (pn pm : CwA2 α) (u v z_w z_r : CwA4 α) : CwSt α :=
  { good := true, pn := pn, pm := pm, u := u, v := v, z_w := z_w, z_r := z_r,
    Hz_r := .unbound, Hz_u := .unbound, Hz_v := .unbound, on_u := .unbound, om_v := .unbound, Huon := .unbound,
    Hvom := .unbound, dW := .unbound, W_0 := .unbound, W := .unbound, wrk := .unbound, Wscl := .unbound,
    wrk_u := .unbound, vert_u := .unbound, wrk_v := .unbound, vert_v := .unbound, vert := .unbound,
    cff1 := .unbound, cff2 := .unbound, cff3 := .unbound, cff4 := .unbound, cff5 := .unbound,
    slope_bot := .unbound, vert_b0 := .unbound, vert_b1 := .unbound, vert_m := .unbound, slope_top := .unbound,
    vert_t0 := .unbound, vert_t1 := .unbound, vert_w := .unbound, wvel_pad := .unbound, ret := none }

/-- `compute_w` has no conditions -/
def cwAtom (_ : CwSt α) : String → Option Bool
  | _ => none

/-- one statement of `compute_w`.  Python's `3 / 8` … `1 / 16` are the exact binary fractions `0.375` … `0.0625`;
`2 / A`, `0 * A` are float operations with `2.0`, `0.0`; `W -= X` is `W = W - X`. -/
def cwStep (s : CwSt α) : String → String → Option (Option (CwSt α))
  | "assign", "Hz_r = z_w[:, 1:, :, :] - z_w[:, :-1, :, :]" =>
    let r := s.z_w.kFrom 1 - s.z_w.kTo 1
    some (some { s with Hz_r := r, good := s.good && r.ok })
  | "assign", "Hz_u = 0.5 * (Hz_r[:, :, :, :-1] + Hz_r[:, :, :, 1:])" =>
    let r := (s.Hz_r.iTo 1 + s.Hz_r.iFrom 1).scale 0.5
    some (some { s with Hz_u := r, good := s.good && r.ok })
  | "assign", "Hz_v = 0.5 * (Hz_r[:, :, :-1, :] + Hz_r[:, :, 1:, :])" =>
    let r := (s.Hz_r.jTo 1 + s.Hz_r.jFrom 1).scale 0.5
    some (some { s with Hz_v := r, good := s.good && r.ok })
  | "assign", "on_u = 2 / (pn[:, :-1] + pn[:, 1:])" =>
    let r := (s.pn.iTo 1 + s.pn.iFrom 1).sdiv 2.0
    some (some { s with on_u := r, good := s.good && r.ok })
  | "assign", "om_v = 2 / (pm[:-1, :] + pm[1:, :])" =>
    let r := (s.pm.jTo 1 + s.pm.jFrom 1).sdiv 2.0
    some (some { s with om_v := r, good := s.good && r.ok })
  | "assign", "Huon = Hz_u * u * on_u" =>
    let r := s.Hz_u * s.u * s.on_u.lift24 s.u.nt s.u.nk
    some (some { s with Huon := r, good := s.good && r.ok })
  | "assign", "Hvom = Hz_v * v * om_v" =>
    let r := s.Hz_v * s.v * s.om_v.lift24 s.v.nt s.v.nk
    some (some { s with Hvom := r, good := s.good && r.ok })
  | "expr", "del Hz_r, Hz_u, Hz_v, on_u, om_v" =>
    some (some { s with Hz_r := .unbound, Hz_u := .unbound, Hz_v := .unbound, on_u := .unbound, om_v := .unbound,
                        good := s.good && s.Hz_r.ok && s.Hz_u.ok && s.Hz_v.ok && s.on_u.ok && s.om_v.ok })
  | "assign", "dW = Huon[:, :, 1:-1, :-1] - Huon[:, :, 1:-1, 1:] + Hvom[:, :, :-1, 1:-1] - Hvom[:, :, 1:, 1:-1]" =>
    let r := (s.Huon.jMid 1 1).iTo 1 - (s.Huon.jMid 1 1).iFrom 1 + (s.Hvom.jTo 1).iMid 1 1 - (s.Hvom.jFrom 1).iMid 1 1
    some (some { s with dW := r, good := s.good && r.ok })
  | "expr", "del Huon, Hvom" =>
    some (some { s with Huon := .unbound, Hvom := .unbound, good := s.good && s.Huon.ok && s.Hvom.ok })
  | "assign", "W_0 = 0 * dW[:, 0:1, :, :]" =>
    let r := s.dW.kFirst1.scale 0.0
    some (some { s with W_0 := r, good := s.good && r.ok })
  | "assign", "W = np.concatenate((W_0, dW.cumsum(axis=1)), axis=1)" =>
    let r := s.W_0.catK s.dW.cumsumK
    some (some { s with W := r, good := s.good && r.ok })
  | "expr", "del dW, W_0" =>
    some (some { s with dW := .unbound, W_0 := .unbound, good := s.good && s.dW.ok && s.W_0.ok })
  | "assign", "wrk = W[:, -1:, :, :] / (z_w[:, -1:, 1:-1, 1:-1] - z_w[:, 0:1, 1:-1, 1:-1])" =>
    let r := s.W.kLast1 / (((s.z_w.kLast1).jMid 1 1).iMid 1 1 - ((s.z_w.kFirst1).jMid 1 1).iMid 1 1)
    some (some { s with wrk := r, good := s.good && r.ok })
  | "assign", "W -= wrk * (z_w[:, :, 1:-1, 1:-1] - z_w[:, 0:1, 1:-1, 1:-1])" =>
    let r := s.W - s.wrk.bcastK s.W.nk *
      ((s.z_w.jMid 1 1).iMid 1 1 - (((s.z_w.kFirst1).jMid 1 1).iMid 1 1).bcastK s.z_w.nk)
    some (some { s with W := r, good := s.good && r.ok })
  | "expr", "del wrk" => some (some { s with wrk := .unbound, good := s.good && s.wrk.ok })
  | "assign", "Wscl = W * (pm[1:-1, 1:-1] * pn[1:-1, 1:-1])" =>
    let r := s.W * ((s.pm.jMid 1 1).iMid 1 1 * (s.pn.jMid 1 1).iMid 1 1).lift24 s.W.nt s.W.nk
    some (some { s with Wscl := r, good := s.good && r.ok })
  | "expr", "del W" => some (some { s with W := .unbound, good := s.good && s.W.ok })
  | "assign", "wrk_u = u * (z_r[:, :, :, 1:] - z_r[:, :, :, :-1]) * (pm[:, :-1] + pm[:, 1:])" =>
    let r := s.u * (s.z_r.iFrom 1 - s.z_r.iTo 1) * (s.pm.iTo 1 + s.pm.iFrom 1).lift24 s.u.nt s.u.nk
    some (some { s with wrk_u := r, good := s.good && r.ok })
  | "assign", "vert_u = 0.25 * (wrk_u[:, :, :, :-1] + wrk_u[:, :, :, 1:])" =>
    let r := (s.wrk_u.iTo 1 + s.wrk_u.iFrom 1).scale 0.25
    some (some { s with vert_u := r, good := s.good && r.ok })
  | "expr", "del wrk_u" => some (some { s with wrk_u := .unbound, good := s.good && s.wrk_u.ok })
  | "assign", "wrk_v = v * (z_r[:, :, 1:, :] - z_r[:, :, :-1, :]) * (pn[:-1, :] + pn[1:, :])" =>
    let r := s.v * (s.z_r.jFrom 1 - s.z_r.jTo 1) * (s.pn.jTo 1 + s.pn.jFrom 1).lift24 s.v.nt s.v.nk
    some (some { s with wrk_v := r, good := s.good && r.ok })
  | "assign", "vert_v = 0.25 * (wrk_v[:, :, :-1, :] + wrk_v[:, :, 1:, :])" =>
    let r := (s.wrk_v.jTo 1 + s.wrk_v.jFrom 1).scale 0.25
    some (some { s with vert_v := r, good := s.good && r.ok })
  | "expr", "del wrk_v" => some (some { s with wrk_v := .unbound, good := s.good && s.wrk_v.ok })
  | "assign", "vert = vert_u[:, :, 1:-1, :] + vert_v[:, :, :, 1:-1]" =>
    let r := s.vert_u.jMid 1 1 + s.vert_v.iMid 1 1
    some (some { s with vert := r, good := s.good && r.ok })
  | "expr", "del vert_u, vert_v" =>
    some (some { s with vert_u := .unbound, vert_v := .unbound, good := s.good && s.vert_u.ok && s.vert_v.ok })
  | "assign", "cff1 = 3 / 8" => some (some { s with cff1 := ⟨true, 0.375⟩ })
  | "assign", "cff2 = 3 / 4" => some (some { s with cff2 := ⟨true, 0.75⟩ })
  | "assign", "cff3 = 1 / 8" => some (some { s with cff3 := ⟨true, 0.125⟩ })
  | "assign", "cff4 = 9 / 16" => some (some { s with cff4 := ⟨true, 0.5625⟩ })
  | "assign", "cff5 = 1 / 16" => some (some { s with cff5 := ⟨true, 0.0625⟩ })
  | "assign", "slope_bot = (z_r[:, 0, 1:-1, 1:-1] - z_w[:, 0, 1:-1, 1:-1]) / (z_r[:, 1, 1:-1, 1:-1] - z_r[:, 0, 1:-1, 1:-1])" =>
    let zr := (s.z_r.jMid 1 1).iMid 1 1
    let zw := (s.z_w.jMid 1 1).iMid 1 1
    let r := (zr.atK 0 - zw.atK 0) / (zr.atK 1 - zr.atK 0)
    some (some { s with slope_bot := r, good := s.good && r.ok })
  | "assign", "vert_b0 = cff1 * (vert[:, 0, :, :] - slope_bot * (vert[:, 1, :, :] - vert[:, 0, :, :])) + cff2 * vert[:, 0, :, :] - cff3 * vert[:, 1, :, :]" =>
    let r := (s.vert.atK 0 - s.slope_bot * (s.vert.atK 1 - s.vert.atK 0)).scaleS s.cff1 + (s.vert.atK 0).scaleS s.cff2
      - (s.vert.atK 1).scaleS s.cff3
    some (some { s with vert_b0 := r, good := s.good && r.ok })
  | "assign", "vert_b1 = cff1 * vert[:, 0, :, :] + cff2 * vert[:, 1, :, :] - cff3 * vert[:, 2, :, :]" =>
    let r := (s.vert.atK 0).scaleS s.cff1 + (s.vert.atK 1).scaleS s.cff2 - (s.vert.atK 2).scaleS s.cff3
    some (some { s with vert_b1 := r, good := s.good && r.ok })
  | "expr", "del slope_bot" => some (some { s with slope_bot := .unbound, good := s.good && s.slope_bot.ok })
  | "assign", "vert_m = cff4 * (vert[:, 1:-2, :, :] + vert[:, 2:-1, :, :]) - cff5 * (vert[:, 0:-3, :, :] + vert[:, 3:, :, :])" =>
    let r := (s.vert.kMid 1 2 + s.vert.kMid 2 1).scaleS s.cff4 - (s.vert.kMid 0 3 + s.vert.kFrom 3).scaleS s.cff5
    some (some { s with vert_m := r, good := s.good && r.ok })
  | "assign", "slope_top = (z_w[:, -1, 1:-1, 1:-1] - z_r[:, -1, 1:-1, 1:-1]) / (z_r[:, -1, 1:-1, 1:-1] - z_r[:, -2, 1:-1, 1:-1])" =>
    let zr := (s.z_r.jMid 1 1).iMid 1 1
    let zw := (s.z_w.jMid 1 1).iMid 1 1
    let r := (zw.atKNeg 1 - zr.atKNeg 1) / (zr.atKNeg 1 - zr.atKNeg 2)
    some (some { s with slope_top := r, good := s.good && r.ok })
  | "assign", "vert_t0 = cff1 * (vert[:, -1, :, :] + slope_top * (vert[:, -1, :, :] - vert[:, -2, :, :])) + cff2 * vert[:, -1, :, :] - cff3 * vert[:, -2, :, :]" =>
    let r := (s.vert.atKNeg 1 + s.slope_top * (s.vert.atKNeg 1 - s.vert.atKNeg 2)).scaleS s.cff1
      + (s.vert.atKNeg 1).scaleS s.cff2 - (s.vert.atKNeg 2).scaleS s.cff3
    some (some { s with vert_t0 := r, good := s.good && r.ok })
  | "assign", "vert_t1 = cff1 * vert[:, -1, :, :] + cff2 * vert[:, -2, :, :] - cff3 * vert[:, -3, :, :]" =>
    let r := (s.vert.atKNeg 1).scaleS s.cff1 + (s.vert.atKNeg 2).scaleS s.cff2 - (s.vert.atKNeg 3).scaleS s.cff3
    some (some { s with vert_t1 := r, good := s.good && r.ok })
  | "expr", "del slope_top" => some (some { s with slope_top := .unbound, good := s.good && s.slope_top.ok })
  | "assign", "vert_w = np.concatenate((vert_b0[:, np.newaxis, :, :], vert_b1[:, np.newaxis, :, :], vert_m, vert_t1[:, np.newaxis, :, :], vert_t0[:, np.newaxis, :, :]), axis=1)" =>
    let r := s.vert_b0.newK.catK (s.vert_b1.newK.catK (s.vert_m.catK (s.vert_t1.newK.catK s.vert_t0.newK)))
    some (some { s with vert_w := r, good := s.good && r.ok })
  | "expr", "del vert_b0, vert_b1, vert_m, vert_t1, vert_t0" =>
    some (some { s with vert_b0 := .unbound, vert_b1 := .unbound, vert_m := .unbound, vert_t1 := .unbound,
                        vert_t0 := .unbound,
                        good := s.good && s.vert_b0.ok && s.vert_b1.ok && s.vert_m.ok && s.vert_t1.ok && s.vert_t0.ok })
  | "assign", "vert = Wscl + vert_w" =>
    let r := s.Wscl + s.vert_w
    some (some { s with vert := r, good := s.good && r.ok })
  | "expr", "del Wscl, vert_w" =>
    some (some { s with Wscl := .unbound, vert_w := .unbound, good := s.good && s.Wscl.ok && s.vert_w.ok })
  | "assign", "wvel_pad = np.pad(vert, ((0, 0), (0, 0), (1, 1), (1, 1)), 'constant')" =>
    let r := s.vert.pad11
    some (some { s with wvel_pad := r, good := s.good && r.ok })
  | "expr", "del vert" => some (some { s with vert := .unbound, good := s.good && s.vert.ok })
  | "return", "-wvel_pad[:]" =>
    let r := s.wvel_pad.neg
    some (some { s with ret := some r, good := s.good && r.ok })
  | _, _ => none

/-- outcome of a run of `compute_w`: `none` = an unknown statement (or no `return`); `some none` = a statement raises
(a shape mismatch, an index out of range, an unbound name); `some (some W)` = the returned array -/
def cwOutcome : Option (Option (CwSt α)) → Option (Option (CwA4 α))
  | none => none
  | some none => some none
  | some (some s) =>
    match s.ret with
    | none => none
    | some r => if s.good then some (some r) else some none

/-- interpretation of a statement sequence of `compute_w(pn, pm, u, v, z_w, z_r)` -/
def cwRun (pn pm : CwA2 α) (u v z_w z_r : CwA4 α) (prog : List Stmt) : Option (Option (CwA4 α)) :=
  cwOutcome (runStrictRet cwAtom cwStep prog (CwSt.init pn pm u v z_w z_r))

/-- the call `compute_w(pn, pm, u, v, z_w, z_r)` on a rho grid of `J × I` cells with `K` layers and `T` times: `pn`, `pm` of
shape `(J, I)`; `u` of shape `(T, K, J, I-1)` (one column less: the faces between rho columns); `v` of shape
`(T, K, J-1, I)`; `z_w` of shape `(T, K+1, J, I)`; `z_r` of shape `(T, K, J, I)` -/
structure CwArgs (α : Type) where
  T : Nat
  K : Nat
  J : Nat
  I : Nat
  pn : Int → Int → α
  pm : Int → Int → α
  u : Nat → Nat → Int → Int → α
  v : Nat → Nat → Int → Int → α
  zw : Nat → Nat → Int → Int → α
  zr : Nat → Nat → Int → Int → α

def CwArgs.aPn (x : CwArgs α) : CwA2 α := ⟨true, x.J, x.I, x.pn⟩
def CwArgs.aPm (x : CwArgs α) : CwA2 α := ⟨true, x.J, x.I, x.pm⟩
def CwArgs.aU (x : CwArgs α) : CwA4 α := ⟨true, x.T, x.K, x.J, x.I - 1, x.u⟩
def CwArgs.aV (x : CwArgs α) : CwA4 α := ⟨true, x.T, x.K, x.J - 1, x.I, x.v⟩
def CwArgs.aZw (x : CwArgs α) : CwA4 α := ⟨true, x.T, x.K + 1, x.J, x.I, x.zw⟩
def CwArgs.aZr (x : CwArgs α) : CwA4 α := ⟨true, x.T, x.K, x.J, x.I, x.zr⟩

/-- the grid of the hand-written model at time index `t` -/
def CwArgs.grid (x : CwArgs α) (t : Nat) : ComputeW.Grid α := ⟨x.K, x.J, x.I, x.pm, x.pn, x.zw t, x.zr t⟩

def cwRunArgs (x : CwArgs α) (prog : List Stmt) : Option (Option (CwA4 α)) :=
  cwRun x.aPn x.aPm x.aU x.aV x.aZw x.aZr prog

end

/-! ## `Forcing.compute_w(self, u_in, v_in)`: the caller -/

/-- the local names of `Forcing.compute_w` -/
structure CwFwSt (α : Type) where
  good : Bool
  z_r : CwA4 α
  z_w : CwA4 α
  u : CwA4 α
  v : CwA4 α
  pm : CwA2 α
  pn : CwA2 α
  w : CwA4 α
  ret : Option (CwA3 α)

section
variable {α : Type} [Div α] [OfScientific α]

def CwFwSt.init : CwFwSt α :=
  ⟨true, .unbound, .unbound, .unbound, .unbound, .unbound, .unbound, .unbound, none⟩

def cwFwAtom (_ : CwFwSt α) : String → Option Bool
  | _ => none

/-- `gzr`, `gzw`, `dx`, `dy` = `self._grid.z_r`, `.z_w` (3-D: level, row, column), `.dx`, `.dy` (2-D); `uin`, `vin` = the
arguments (3-D); `callee` = the module-level `compute_w` (its interpretation: `none` = unknown statement, `some none` =
raises).  The ORDER of the arguments of the call is in the statement text: `pn` first. -/
def cwFwStep (gzr gzw : CwA3 α) (dx dy : CwA2 α) (uin vin : CwA3 α)
    (callee : CwA2 α → CwA2 α → CwA4 α → CwA4 α → CwA4 α → CwA4 α → Option (Option (CwA4 α))) (s : CwFwSt α) :
    String → String → Option (Option (CwFwSt α))
  | "assign", "z_r = self._grid.z_r[np.newaxis, :, :, :]" =>
    let r := gzr.newT
    some (some { s with z_r := r, good := s.good && r.ok })
  | "assign", "z_w = self._grid.z_w[np.newaxis, :, :, :]" =>
    let r := gzw.newT
    some (some { s with z_w := r, good := s.good && r.ok })
  | "assign", "u = u_in[np.newaxis, :, :, 1:-1]" =>
    let r := uin.newT.iMid 1 1
    some (some { s with u := r, good := s.good && r.ok })
  | "assign", "v = v_in[np.newaxis, :, 1:-1, :]" =>
    let r := vin.newT.jMid 1 1
    some (some { s with v := r, good := s.good && r.ok })
  | "assign", "pm = 1 / self._grid.dx" =>
    let r := dx.sdiv 1.0
    some (some { s with pm := r, good := s.good && r.ok })
  | "assign", "pn = 1 / self._grid.dy" =>
    let r := dy.sdiv 1.0
    some (some { s with pn := r, good := s.good && r.ok })
  | "assign", "w = compute_w(pn, pm, u, v, z_w, z_r)" =>
    match callee s.pn s.pm s.u s.v s.z_w s.z_r with
    | none => none
    | some none => some none
    | some (some r) => some (some { s with w := r, good := s.good && r.ok })
  | "return", "w[0]" =>
    let r := s.w.at0
    some (some { s with ret := some r, good := s.good && r.ok })
  | _, _ => none

def cwFwOutcome : Option (Option (CwFwSt α)) → Option (Option (CwA3 α))
  | none => none
  | some none => some none
  | some (some s) =>
    match s.ret with
    | none => none
    | some r => if s.good then some (some r) else some none

/-- interpretation of a statement sequence of `Forcing.compute_w` -/
def cwFwRun (gzr gzw : CwA3 α) (dx dy : CwA2 α) (uin vin : CwA3 α)
    (callee : CwA2 α → CwA2 α → CwA4 α → CwA4 α → CwA4 α → CwA4 α → Option (Option (CwA4 α))) (prog : List Stmt) :
    Option (Option (CwA3 α)) :=
  cwFwOutcome (runStrictRet cwFwAtom (cwFwStep gzr gzw dx dy uin vin callee) prog CwFwSt.init)

/-- the call `Forcing.compute_w(u_in, v_in)` on a subgrid of `J × I` rho cells with `K` layers: `self._grid.z_r` of shape
`(K, J, I)`, `z_w` of shape `(K+1, J, I)`, `dx`, `dy` of shape `(J, I)`; `u_in` of shape `(K, J, I+1)` (the slice `Iu`
has one column more than `I`), `v_in` of shape `(K, J+1, I)` -/
structure CwFwArgs (α : Type) where
  K : Nat
  J : Nat
  I : Nat
  zr : Nat → Int → Int → α
  zw : Nat → Int → Int → α
  dx : Int → Int → α
  dy : Int → Int → α
  uin : Nat → Int → Int → α
  vin : Nat → Int → Int → α

/-- what the caller hands to `compute_w`: one time; `pn = 1/dy` FIRST, `pm = 1/dx` second; the `u` faces without the
first and the last column of `u_in` (`u[j, i] = u_in[j, i+1]`), the `v` faces without the first and the last row -/
def CwFwArgs.toCw (y : CwFwArgs α) : CwArgs α :=
  { T := 1, K := y.K, J := y.J, I := y.I,
    pn := fun j i => 1.0 / y.dy j i, pm := fun j i => 1.0 / y.dx j i,
    u := fun _ k j i => y.uin k j (i + 1), v := fun _ k j i => y.vin k (j + 1) i,
    zw := fun _ => y.zw, zr := fun _ => y.zr }

def cwFwRunArgs (y : CwFwArgs α)
    (callee : CwA2 α → CwA2 α → CwA4 α → CwA4 α → CwA4 α → CwA4 α → Option (Option (CwA4 α))) (prog : List Stmt) :
    Option (Option (CwA3 α)) :=
  cwFwRun ⟨true, y.K, y.J, y.I, y.zr⟩ ⟨true, y.K + 1, y.J, y.I, y.zw⟩ ⟨true, y.J, y.I, y.dx⟩ ⟨true, y.J, y.I, y.dy⟩
    ⟨true, y.K, y.J, y.I + 1, y.uin⟩ ⟨true, y.K, y.J + 1, y.I, y.vin⟩ callee prog

end

/-! ## `s_stretch` and `sdepth` -/

/-- 1-D array -/
structure CwA1 (α : Type) where
  n : Nat
  f : Nat → α

/-- the value of `stagger` -/
inductive CwStagger where
  | rho
  | w
  | other
  deriving DecidableEq, Repr

section
variable {α : Type} [Add α] [Sub α] [Mul α] [Div α] [Neg α] [OfScientific α] [HasOfInt α]

def CwA1.map (g : α → α) (A : CwA1 α) : CwA1 α := ⟨A.n, fun k => g (A.f k)⟩
def CwA1.zip (g : α → α → α) (A B : CwA1 α) : CwA1 α := ⟨A.n, fun k => g (A.f k) (B.f k)⟩

/-- `-1.0 + (0.5 + np.arange(N)) / N`: the mid-points of `N` equal layers of `[-1, 0]` -/
def cwMidS (N : Nat) : CwA1 α := ⟨N, fun k => -1.0 + (0.5 + ofInt (k : Int)) / ofInt (N : Int)⟩

/-- `np.linspace(a, b, n)`: `arange(n) * ((b - a) / (n - 1)) + a`, the last element set to `b`; `[a]` for `n = 1` -/
def cwLinspace (a b : α) (n : Nat) : CwA1 α :=
  ⟨n, fun k => if n ≤ 1 then a else if k + 1 = n then b else ofInt (k : Int) * ((b - a) / ofInt ((n : Int) - 1)) + a⟩

/-- the local names of `s_stretch` (`mu`, `Csur`, `Cbot`, `C` start as empty arrays; every branch assigns the names it
reads) -/
structure CwSsSt (α : Type) where
  S : CwA1 α
  cff1 : α
  cff2 : α
  a : α
  b : α
  Csur : CwA1 α
  Cbot : CwA1 α
  mu : CwA1 α
  C : CwA1 α
  ret : Option (CwA1 α)

def CwSsSt.init : CwSsSt α := ⟨⟨0, fun _ => 0.0⟩, 0.0, 0.0, 0.0, 0.0, ⟨0, fun _ => 0.0⟩, ⟨0, fun _ => 0.0⟩, ⟨0, fun _ => 0.0⟩,
  ⟨0, fun _ => 0.0⟩, none⟩

def cwSsAtom (stagger : CwStagger) (vstretching : Nat) (_ : CwSsSt α) : String → Option Bool
  | "stagger == 'rho'" => some (stagger == .rho)
  | "stagger == 'w'" => some (stagger == .w)
  | "Vstretching == 1" => some (vstretching == 1)
  | "Vstretching == 2" => some (vstretching == 2)
  | "Vstretching == 4" => some (vstretching == 4)
  | _ => none

/-- `sinh`, `cosh`, `tanh` = `np.sinh`, `np.cosh`, `np.tanh`; `N`, `ths`, `thb` = the arguments `N`, `theta_s`,
`theta_b`.  Integer literals in float expressions (`1`) are the floats (`1.0`). -/
def cwSsStep [HasExp α] [HasRpow α] (sinh cosh tanh : α → α) (N : Nat) (ths thb : α) (s : CwSsSt α) :
    String → String → Option (Option (CwSsSt α))
  | "assign", "S = -1.0 + (0.5 + np.arange(N)) / N" => some (some { s with S := cwMidS N })
  | "assign", "S = np.linspace(-1.0, 0.0, N + 1)" => some (some { s with S := cwLinspace (-1.0) 0.0 (N + 1) })
  | "raise", "raise ValueError(\"stagger must be 'rho' or 'w'\")" => some none
  | "assign", "cff1 = 1.0 / np.sinh(theta_s)" => some (some { s with cff1 := 1.0 / sinh ths })
  | "assign", "cff2 = 0.5 / np.tanh(0.5 * theta_s)" => some (some { s with cff2 := 0.5 / tanh (0.5 * ths) })
  | "return", "(1.0 - theta_b) * cff1 * np.sinh(theta_s * S) + theta_b * (cff2 * np.tanh(theta_s * (S + 0.5)) - 0.5)" =>
    some (some { s with ret := some (s.S.map fun S =>
      (1.0 - thb) * s.cff1 * sinh (ths * S) + thb * (s.cff2 * tanh (ths * (S + 0.5)) - 0.5)) })
  | "assign", "a, b = (1.0, 1.0)" => some (some { s with a := 1.0, b := 1.0 })
  | "assign", "Csur = (1 - np.cosh(theta_s * S)) / (np.cosh(theta_s) - 1)" =>
    some (some { s with Csur := s.S.map fun S => (1.0 - cosh (ths * S)) / (cosh ths - 1.0) })
  | "assign", "Cbot = np.sinh(theta_b * (S + 1)) / np.sinh(theta_b) - 1" =>
    some (some { s with Cbot := s.S.map fun S => sinh (thb * (S + 1.0)) / sinh thb - 1.0 })
  | "assign", "mu = (S + 1) ** a * (1 + a / b * (1 - (S + 1) ** b))" =>
    some (some { s with mu := s.S.map fun S => rpow (S + 1.0) s.a * (1.0 + s.a / s.b * (1.0 - rpow (S + 1.0) s.b)) })
  | "return", "mu * Csur + (1 - mu) * Cbot" =>
    some (some { s with ret := some ⟨s.S.n, fun k => s.mu.f k * s.Csur.f k + (1.0 - s.mu.f k) * s.Cbot.f k⟩ })
  | "assign", "C = (1 - np.cosh(theta_s * S)) / (np.cosh(theta_s) - 1)" =>
    some (some { s with C := s.S.map fun S => (1.0 - cosh (ths * S)) / (cosh ths - 1.0) })
  | "assign", "C = (np.exp(theta_b * C) - 1) / (1 - np.exp(-theta_b))" =>
    some (some { s with C := s.C.map fun C => (exp (thb * C) - 1.0) / (1.0 - exp (-thb)) })
  | "return", "C" => some (some { s with ret := some s.C })
  | "raise", "raise ValueError('Unknown Vstretching')" => some none
  | _, _ => none

/-- interpretation of a statement sequence of `s_stretch(N, theta_s, theta_b, stagger, Vstretching)`: `some none` =
`ValueError` -/
def cwSsRun [HasExp α] [HasRpow α] (sinh cosh tanh : α → α) (N : Nat) (ths thb : α) (stagger : CwStagger)
    (vstretching : Nat) (prog : List Stmt) : Option (Option (CwA1 α)) :=
  returned CwSsSt.ret (runStrictRet (cwSsAtom stagger vstretching) (cwSsStep sinh cosh tanh N ths thb) prog CwSsSt.init)

/-- the local names of `sdepth`.  `H` is an array over an arbitrary index type `ι` (`np.asarray`, `.shape`, `.ravel()`,
`.reshape(outshape)` only flatten and restore that index: no-ops here); the result is indexed by level and `ι`.
The name `N` is first `len(C)` (`N`) and, under `Vtransform == 2`, re-used for the numerator array (`Narr`). -/
structure CwSdSt (α ι : Type) where
  H : ι → α
  C : CwA1 α
  N : Nat
  S : CwA1 α
  A : Nat → α
  B : Nat → ι → α
  Narr : Nat → ι → α
  D : ι → α
  ret : Option (Nat × (Nat → ι → α))

variable {ι : Type}

def CwSdSt.init (H : ι → α) (C : CwA1 α) : CwSdSt α ι :=
  ⟨H, C, 0, ⟨0, fun _ => 0.0⟩, fun _ => 0.0, fun _ _ => 0.0, fun _ _ => 0.0, fun _ => 0.0, none⟩

def cwSdAtom (stagger : CwStagger) (vtransform : Nat) (_ : CwSdSt α ι) : String → Option Bool
  | "stagger == 'rho'" => some (stagger == .rho)
  | "stagger == 'w'" => some (stagger == .w)
  | "Vtransform == 1" => some (vtransform == 1)
  | "Vtransform == 2" => some (vtransform == 2)
  | _ => none

/-- `hc` = the argument `Hc`.  `X[:, None]` against `np.outer(C, H)`: level `k` of the 1-D array for every point. -/
def cwSdStep (hc : α) (s : CwSdSt α ι) : String → String → Option (Option (CwSdSt α ι))
  | "assign", "H = np.asarray(H)" => some (some s)
  | "assign", "Hshape = H.shape" => some (some s)
  | "assign", "H = H.ravel()" => some (some s)
  | "assign", "C = np.asarray(C)" => some (some s)
  | "assign", "N = len(C)" => some (some { s with N := s.C.n })
  | "assign", "outshape = (N,) + Hshape" => some (some s)
  | "assign", "S = -1.0 + (0.5 + np.arange(N)) / N" => some (some { s with S := cwMidS s.N })
  | "assign", "S = np.linspace(-1.0, 0.0, N)" => some (some { s with S := cwLinspace (-1.0) 0.0 s.N })
  | "raise", "raise ValueError(\"stagger must be 'rho' or 'w'\")" => some none
  | "assign", "A = Hc * (S - C)[:, None]" => some (some { s with A := fun k => hc * (s.S.f k - s.C.f k) })
  | "assign", "B = np.outer(C, H)" => some (some { s with B := fun k p => s.C.f k * s.H p })
  | "return", "(A + B).reshape(outshape)" => some (some { s with ret := some (s.N, fun k p => s.A k + s.B k p) })
  | "assign", "N = Hc * S[:, None] + np.outer(C, H)" =>
    some (some { s with Narr := fun k p => hc * s.S.f k + s.C.f k * s.H p })
  | "assign", "D = 1.0 + Hc / H" => some (some { s with D := fun p => 1.0 + hc / s.H p })
  | "return", "(N / D).reshape(outshape)" => some (some { s with ret := some (s.N, fun k p => s.Narr k p / s.D p) })
  | "raise", "raise ValueError('Unknown Vtransform')" => some none
  | _, _ => none

/-- interpretation of a statement sequence of `sdepth(H, Hc, C, stagger, Vtransform)`: the number of levels and the
depth of level `k` at point `p`; `some none` = `ValueError` -/
def cwSdRun (H : ι → α) (hc : α) (C : CwA1 α) (stagger : CwStagger) (vtransform : Nat) (prog : List Stmt) :
    Option (Option (Nat × (Nat → ι → α))) :=
  returned CwSdSt.ret (runStrictRet (cwSdAtom stagger vtransform) (cwSdStep hc) prog (CwSdSt.init H C))

end

end Ladim.Seq
