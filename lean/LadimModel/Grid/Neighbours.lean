import LadimModel.Scalar
/-!
`chemicals/gridforce.py :: is_close_to_land / nearest_unmasked` and the directed-swimming guards of
`lunar_eel` and `saithe`.
-/
namespace Ladim.Nb

/-- a `rows × cols` boolean mask (`true` = masked / land, depending on the caller) -/
structure Mask where
  rows : Nat
  cols : Nat
  val : Int → Int → Bool

def clampI (n : Nat) (i : Int) : Int := min (max i 0) ((n : Int) - 1)

/-- `i_stencil, j_stencil` of `is_close_to_land`: the eight neighbours -/
def stencil8 : List (Int × Int) := [(-1, -1), (0, -1), (1, -1), (1, 0), (1, 1), (0, 1), (-1, 1), (-1, 0)]

/-- `is_close_to_land(mask, i, j)` with `ic, jc` the rounded cell indices; `land i j` = `~mask[j, i]` -/
def isCloseToLand (land : Mask) (ic jc : Int) : Bool :=
  stencil8.any (fun d => land.val (clampI land.rows (jc + d.2)) (clampI land.cols (ic + d.1)))

/-- neighbour offsets of `nearest_unmasked` in the order of the source (centre first) -/
def stencil9 : List (Int × Int) := [(0, 0), (1, 0), (1, 1), (0, 1), (-1, 1), (-1, 0), (-1, -1), (0, -1), (1, -1)]

section
variable {α : Type} [Add α] [Sub α] [Mul α] [LT α] [DecidableLT α] [HasOfInt α]

/-- squared distance from the particle `(x, y)` to the cell centre `(i, j)` -/
def dist2 (x y : α) (i j : Int) : α := (ofInt i - x) * (ofInt i - x) + (ofInt j - y) * (ofInt j - y)

/-- first candidate with the smallest distance (numpy `argmin` returns the first minimum) -/
def argminFirst (cands : List ((Int × Int) × α)) : Option ((Int × Int) × α) :=
  cands.foldl (fun best c => match best with
    | none => some c
    | some b => if c.2 < b.2 then some c else some b) none

/-- `nearest_unmasked(mask, x, y)` : the unmasked cell closest to the particle among the nine clamped
neighbours of its cell `(ic, jc)`; `none` when all nine are masked -/
def nearestUnmasked (masked : Mask) (x y : α) (ic jc : Int) : Option (Int × Int) :=
  let cells := stencil9.map (fun d => (clampI masked.cols (ic + d.1), clampI masked.rows (jc + d.2)))
  let open_ := cells.filter (fun c => !masked.val c.2 c.1)
  (argminFirst (open_.map (fun c => (c, dist2 x y c.1 c.2)))).map (·.1)

end

/-- directed swimming (`lunar_eel.horizontal_advect`, `saithe.spread`): the move is taken only when the
target is inside the grid and at sea -/
def guardedMove {π : Type} (ingrid atsea : π → Bool) (old new : π) : π :=
  if ingrid new && atsea new then new else old

end Ladim.Nb
