import LadimModel.Scalar
/-!
Grid sampling of `chemicals/gridforce.py` (and the `sedimentation` / `salmon_lice` subclasses):
cell indices, `z2s`, `sample3D`, `vertdiff`, bilinear bathymetry.
-/
namespace Ladim.GridSample

/-- `_clamp_index`: `minimum(maximum(i, 0), n - 1)` -/
def clampIdx (n : Nat) (i : Int) : Int := min (max i 0) ((n : Int) - 1)

/-- what plain numpy indexing does with an *unclamped* index: negative indices wrap around to the
opposite side, indices `≥ n` raise (`none`) -/
def rawIdx (n : Nat) (i : Int) : Option Int :=
  if 0 ≤ i ∧ i < n then some i else if -(n : Int) ≤ i ∧ i < 0 then some (n + i) else none

section
variable {α : Type} [Add α] [Sub α] [Mul α] [Div α] [Neg α] [LT α] [DecidableLT α]
  [LE α] [DecidableLE α] [OfScientific α] [HasRound α] [HasTrunc α] [HasOfInt α]

/-- cell index of a grid coordinate: `round(X).astype(int) - i0`, clamped to the array -/
def cellIndex (n : Nat) (i0 : Int) (x : α) : Int := clampIdx n (trunc (round x) - i0)

/-- `np.sum(z[:, J, I] < -Z)` : number of levels strictly below the particle -/
def countBelow (col : List α) (z : α) : Nat := (col.filter (fun c => decide (c < -z))).length

/-- `z2s`: level index `K` (clipped to `1 .. kmax-1`) and weight `A` (clipped to `[0,1]`) for a column
`col` (deepest level first, increasing upwards) and particle depth `z ≥ 0` -/
def z2sK (col : List α) (z : α) : Nat := min (max (countBelow col z) 1) (col.length - 1)

def z2sA (col : List α) (z : α) (zero : α) : α :=
  let K := z2sK col z
  let a := (col.getD K zero + z) / (col.getD K zero - col.getD (K - 1) zero)
  fmin (fmax a 0.0) 1.0

/-- trilinear weights of `sample3D(method='bilinear')`: value from the 8 surrounding grid values -/
def trilinear (P Q A : α) (f000 f010 f100 f110 f001 f011 f101 f111 : α) : α :=
  (1.0 - P) * (1.0 - Q) * (1.0 - A) * f000 + (1.0 - P) * Q * (1.0 - A) * f010 + P * (1.0 - Q) * (1.0 - A) * f100
    + P * Q * (1.0 - A) * f110 + (1.0 - P) * (1.0 - Q) * A * f001 + (1.0 - P) * Q * A * f011
    + P * (1.0 - Q) * A * f101 + P * Q * A * f111

/-- order-1 `map_coordinates` on four corner values: `(1-p)(1-q) h00 + …` as scipy evaluates it -/
def bilinear (p q h00 h01 h10 h11 : α) : α :=
  (1.0 - q) * ((1.0 - p) * h00 + p * h01) + q * ((1.0 - p) * h10 + p * h11)

/-- `vertdiff`: `K_nearest = clip(round(K - A), 1, len(Cs_w) - 2)` -/
def vertdiffLevel (nw : Nat) (K : Nat) (A : α) : Int :=
  max (min (trunc (round (ofInt (K : Int) - A))) ((nw : Int) - 2)) 1

/-- `vertdiff` value: `maximum(0, F[K_nearest, J, I])` -/
def vertdiffValue (f : α) : α := fmax 0.0 f

/-- `horzdiff`: `0.04 * dx * |dudy + dvdx|`, zero on land -/
def horzdiffValue (dx dudy dvdx : α) (atsea : Bool) : α :=
  if atsea then 0.04 * dx * fabs (dudy + dvdx) else 0.0

/-- `ingrid` -/
def ingrid (xmin xmax ymin ymax x y : α) : Bool :=
  decide (xmin - 0.5 < x) && decide (x < xmax + 0.5) && decide (ymin - 0.5 < y) && decide (y < ymax + 0.5)

end
end Ladim.GridSample
