import LadimModel.Scalar
/-!
`chemicals/gridforce.py :: compute_w(pn, pm, u, v, z_w, z_r)` written cell by cell (independent of
numpy's slicing, so an index shift shows up as a disagreement).

Indices: `k` vertical (rho layers `0..K-1`, w levels `0..K`), `j` row, `i` column of the rho grid
(`J × I`).  `u k j i` is the velocity on the face between rho cells `(j,i)` and `(j,i+1)`,
`v k j i` on the face between `(j,i)` and `(j+1,i)`.  The result is defined on interior rho cells
`1 ≤ j ≤ J-2`, `1 ≤ i ≤ I-2` and is zero on the lateral boundary (the `np.pad`).
-/
namespace Ladim.ComputeW

structure Grid (α : Type) where
  K : Nat
  J : Nat
  I : Nat
  pm : Int → Int → α
  pn : Int → Int → α
  zw : Nat → Int → Int → α
  zr : Nat → Int → Int → α

section
variable {α : Type} [Add α] [Sub α] [Mul α] [Div α] [Neg α] [OfScientific α]

def hzr (g : Grid α) (k : Nat) (j i : Int) : α := g.zw (k + 1) j i - g.zw k j i

/-- `Huon = Hz_u * u * on_u` on the face east of rho cell `(j,i)` -/
def huon (g : Grid α) (u : Nat → Int → Int → α) (k : Nat) (j i : Int) : α :=
  0.5 * (hzr g k j i + hzr g k j (i + 1)) * u k j i * (2.0 / (g.pn j i + g.pn j (i + 1)))

/-- `Hvom = Hz_v * v * om_v` on the face north of rho cell `(j,i)` -/
def hvom (g : Grid α) (v : Nat → Int → Int → α) (k : Nat) (j i : Int) : α :=
  0.5 * (hzr g k j i + hzr g k (j + 1) i) * v k j i * (2.0 / (g.pm j i + g.pm (j + 1) i))

/-- `dW`: net *inflow* of the layer-`k` transports into rho cell `(j,i)` -/
def dW (g : Grid α) (u v : Nat → Int → Int → α) (k : Nat) (j i : Int) : α :=
  huon g u k j (i - 1) - huon g u k j i + hvom g v k (j - 1) i - hvom g v k j i

/-- `W = concatenate((0*dW[0], dW.cumsum(axis=1)))` -/
def wcum (g : Grid α) (u v : Nat → Int → Int → α) : Nat → Int → Int → α
  | 0, j, i => 0.0 * dW g u v 0 j i
  | k + 1, j, i => (match k with
      | 0 => dW g u v 0 j i
      | k' + 1 => wcum g u v (k' + 1) j i + dW g u v (k' + 1) j i)

/-- the flux after removing the contribution of the moving surface and scaling by `pm*pn` -/
def wscl (g : Grid α) (u v : Nat → Int → Int → α) (k : Nat) (j i : Int) : α :=
  let wrk := wcum g u v g.K j i / (g.zw g.K j i - g.zw 0 j i)
  (wcum g u v k j i - wrk * (g.zw k j i - g.zw 0 j i)) * (g.pm j i * g.pn j i)

def wrkU (g : Grid α) (u : Nat → Int → Int → α) (k : Nat) (j i : Int) : α :=
  u k j i * (g.zr k j (i + 1) - g.zr k j i) * (g.pm j i + g.pm j (i + 1))
def wrkV (g : Grid α) (v : Nat → Int → Int → α) (k : Nat) (j i : Int) : α :=
  v k j i * (g.zr k (j + 1) i - g.zr k j i) * (g.pn j i + g.pn (j + 1) i)

/-- contribution of horizontal movement along sloping coordinate surfaces, at rho level `k` -/
def vert (g : Grid α) (u v : Nat → Int → Int → α) (k : Nat) (j i : Int) : α :=
  0.25 * (wrkU g u k j (i - 1) + wrkU g u k j i) + 0.25 * (wrkV g v k (j - 1) i + wrkV g v k j i)

/-- cubic interpolation of `vert` from rho levels to w level `k` (`K ≥ 3`) -/
def vertW (g : Grid α) (u v : Nat → Int → Int → α) (k : Nat) (j i : Int) : α :=
  let V := fun l => vert g u v l j i
  let K := g.K
  if k = 0 then
    let slope := (g.zr 0 j i - g.zw 0 j i) / (g.zr 1 j i - g.zr 0 j i)
    0.375 * (V 0 - slope * (V 1 - V 0)) + 0.75 * V 0 - 0.125 * V 1
  else if k = 1 then 0.375 * V 0 + 0.75 * V 1 - 0.125 * V 2
  else if k = K then
    let slope := (g.zw K j i - g.zr (K - 1) j i) / (g.zr (K - 1) j i - g.zr (K - 2) j i)
    0.375 * (V (K - 1) + slope * (V (K - 1) - V (K - 2))) + 0.75 * V (K - 1) - 0.125 * V (K - 2)
  else if k = K - 1 then 0.375 * V (K - 1) + 0.75 * V (K - 2) - 0.125 * V (K - 3)
  else 0.5625 * (V (k - 1) + V k) - 0.0625 * (V (k - 2) + V (k + 1))

/-- `compute_w` at w level `k` of rho cell `(j, i)`; zero on the lateral boundary -/
def computeW (g : Grid α) (u v : Nat → Int → Int → α) (k : Nat) (j i : Int) : α :=
  if 1 ≤ j ∧ j + 2 ≤ g.J ∧ 1 ≤ i ∧ i + 2 ≤ g.I then -(wscl g u v k j i + vertW g u v k j i)
  else -(0.0)

end
end Ladim.ComputeW
