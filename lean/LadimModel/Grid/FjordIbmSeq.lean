import LadimModel.Scalar
import LadimModel.Grid.Fjord
import LadimModel.Grid.FjordSeq
import LadimModel.IBM.Sequence
import LadimModel.Generated.Formulas
/-!
Interpretation of the generated statement sequences of `vps/ibm.py` — `_dilate_filter` (`Gen.vps_dilate_filter_seq`),
`dilate` (`Gen.vps_dilate_seq`), `distance` (`Gen.vps_distance_seq`), `fjord_index` (`Gen.vps_fjord_index_seq`),
`_descent_filter_type` (`Gen.vps_descent_filter_type_seq`), `descent` (`Gen.vps_descent_seq`), `IBM.__init__`
(`Gen.vps_ctor_seq`) — and of `vps/gridforce.py` — `Grid.__init__` (`Gen.vps_grid_ctor_seq`), `Forcing.__init__`
(`Gen.vps_forcing_ctor_seq`), the properties `fish_u` / `fish_v` (`Gen.vps_fish_u_seq`, `Gen.vps_fish_v_seq`) and
`Forcing.velocity` (`Gen.vps_velocity_seq`) — with the operations of the hand-written model
`LadimModel/Grid/Fjord.lean`.  `LadimProofs/Bridge/FjordIbmSeq.lean` proves that the interpretations are `dilateAt`,
`dilate`, `dilateIter` / `distance`, `fjordIndex`, `descentDir` with `uOf` / `vOf`, and closed forms for the rest.

Strict runner `fiRun`: every statement text, every condition text and every `return` expression — also in branches
not taken and after the statement that ends the run — must be one the interpreter knows (exact string match);
anything else makes the run fail with `none`.  Results: `none` = unknown text (the tie is broken); `some none` = the
code raises (a local variable read before it is assigned, unpacking a sequence of the wrong length, `min([])`,
`next` of an exhausted generator, a missing configuration key); `some (some r)` = the code returns `r`.
`fiRun` knows top-level `for` loops with `break` (`distance`).

Matrices are `Fjord.Mat` (integer valued; the values outside the `rows × cols` box are never read by any operation:
all reads go through `Mat.get`).  Boolean arrays are matrices with entries 0 / 1.  `scipy.ndimage.generic_filter` works
on a `float64` buffer and casts back to the dtype of the input: on the integers that occur this is the identity.

Parameters of the interpretation (environment queries, library calls; not interpreted further):
* `taxicab` = the value of the module constant `_TAXICAB_FOOTPRINT` (its definition is a module-level statement and
  is not part of any generated sequence; the theorems are stated for `fiTaxicab = [[0,1,0],[1,1,1],[0,1,0]]`);
* `gf` = `scipy.ndimage.generic_filter(input, function, footprint, mode='constant', cval)`; reference instance
  `fiGenericFilterRef`: apply `function` to the footprint neighbourhood (row-major order, `cval` outside the box) of
  every cell; it raises if `function` raises at a cell of the box;
* `bd` = `scipy.ndimage.binary_dilation(input, structure, iterations)` (`border_value = 0`); reference instance
  `fiBinaryDilationRef`;
* `np.all(a == b)` = `fiAllEq`, `min` = `fiPyMin`, `next(i for i, n in enumerate(xs) if n == s)` = `fiFirstIdx`,
  `values[idx]` = `fiIndex`: defined here;
* `IBM.__init__`: `cfgDt` = `config['dt']`, `cfgIbm` = `config['ibm']` with its optional entry `'max_depth'`
  (`none` = the key is missing: `KeyError`);
* `Forcing.__init__`: `cfgGridforce` = `config['gridforce']` with its optional entry `'ocean_distance'`; the
  constructors of the base classes (`super().__init__`) are no-ops here;
* `fish_u` / `fish_v`: the parameters of `Seq.computeFishVelocitySeq` (the call `self._compute_fish_velocity()` runs
  the interpretation of `Gen.vps_compute_fish_velocity_seq`) and the cache `(self._fish_u, self._fish_v)`;
* `velocity`: the parameters of `Seq.fishVelocitySeq` (the call `self.fish_velocity(X, Y)` runs the interpretation
  of `Gen.vps_fish_velocity_seq`), `useCurrents` = `self.use_currents`, `cur` = the value of
  `super().velocity(X, Y, Z, tstep, method)`.
-/
namespace Ladim.Seq
open Ladim.Fjord

/-! ### strict runner with `for … break` -/

/-- an interpretation of statement, condition and `return` texts on states `σ` with results `ρ`.
`atom s c`: `none` = unknown condition, `some none` = evaluating it raises;
`step s kind text`: `none` = unknown statement, `some none` = it raises;
`ret s text`: the value of a `return` expression; `isLoop c`: `c` is a `for` header the interpretation knows,
`trips s c` its number of iterations, evaluated on entry (`none` = evaluating the iterable raises; the loop variable is
not bound: no known body reads it); `fin s`: the outcome of falling off the end of the body. -/
structure FiInterp (σ ρ : Type) where
  atom : σ → String → Option (Option Bool)
  step : σ → String → String → Option (Option σ)
  ret : σ → String → Option (Option ρ)
  isLoop : String → Bool
  trips : σ → String → Option Nat
  fin : σ → Option (Option ρ)

inductive FiBlock where
  | plain (st : Stmt)
  | loop (header : String) (body : List Stmt)

/-- the guard begins with a known loop header (positive polarity: no `for … else`): the header and the rest -/
def fiLoopHead (isLoop : String → Bool) : List Cond → Option (String × List Cond)
  | (true, c) :: g => if isLoop c then some (c, g) else none
  | _ => none

/-- group the flat statement list: consecutive statements under the same top-level loop header are one loop; the
header is stripped from the guards of the body.  A loop header anywhere else in a guard is an unknown condition. -/
def fiBlocks (isLoop : String → Bool) : List Stmt → List FiBlock
  | [] => []
  | (g, k, t) :: rest =>
    match fiLoopHead isLoop g, fiBlocks isLoop rest with
    | none, bs => .plain (g, k, t) :: bs
    | some (c, g'), .loop c' body :: bs =>
      if c = c' then .loop c ((g', k, t) :: body) :: bs else .loop c [(g', k, t)] :: .loop c' body :: bs
    | some (c, g'), bs => .loop c [(g', k, t)] :: bs

variable {σ ρ : Type}

def fiCondsKnown (I : FiInterp σ ρ) (s : σ) (g : List Cond) : Bool :=
  g.all (fun c => (I.atom s c.2).isSome)

/-- all conditions of the guard and the statement are known texts: the expression of a `return` is looked up in
`ret`, `break` must stand in a loop, anything else is looked up in `step` -/
def fiStmtKnown (I : FiInterp σ ρ) (s : σ) (st : Stmt) : Bool :=
  (match fiLoopHead I.isLoop st.1 with
    | some (_, g') => fiCondsKnown I s g'
    | none => fiCondsKnown I s st.1)
  && (if st.2.1 = "return" then (I.ret s st.2.2).isSome
      else if st.2.1 = "break" then (fiLoopHead I.isLoop st.1).isSome && st.2.2 == ""
      else (I.step s st.2.1 st.2.2).isSome)

/-- value of a guard; `some none` = a condition raises -/
def fiGuard (I : FiInterp σ ρ) (s : σ) : List Cond → Option (Option Bool)
  | [] => some (some true)
  | (pos, c) :: rest =>
    match I.atom s c with
    | none => none
    | some none => some none
    | some (some b) => if b == pos then fiGuard I s rest else some (some false)

/-- one trip through a loop body; the flag says that the trip ended with `break`.  (`return` and `continue` inside a
loop are not modelled.) -/
def fiBody (I : FiInterp σ ρ) : List Stmt → σ → Option (Option (σ × Bool))
  | [], s => some (some (s, false))
  | (g, k, t) :: rest, s =>
    match fiGuard I s g with
    | none => none
    | some none => some none
    | some (some false) => fiBody I rest s
    | some (some true) =>
      if k = "break" then some (some (s, true))
      else if k = "return" then none
      else
        match I.step s k t with
        | none => none
        | some none => some none
        | some (some s') => fiBody I rest s'

/-- at most `n` trips; a trip that ends with `break` is the last one -/
def fiIter (body : σ → Option (Option (σ × Bool))) : Nat → σ → Option (Option σ)
  | 0, s => some (some s)
  | n + 1, s =>
    match body s with
    | none => none
    | some none => some none
    | some (some (s', true)) => some (some s')
    | some (some (s', false)) => fiIter body n s'

def fiRunBlocks (I : FiInterp σ ρ) : List FiBlock → σ → Option (Option ρ)
  | [], s => I.fin s
  | .plain (g, k, t) :: rest, s =>
    match fiGuard I s g with
    | none => none
    | some none => some none
    | some (some false) => fiRunBlocks I rest s
    | some (some true) =>
      if k = "return" then I.ret s t
      else
        match I.step s k t with
        | none => none
        | some none => some none
        | some (some s') => fiRunBlocks I rest s'
  | .loop c body :: rest, s =>
    match I.trips s c with
    | none => some none
    | some n =>
      match fiIter (fiBody I body) n s with
      | none => none
      | some none => some none
      | some (some s') => fiRunBlocks I rest s'

/-- run a function body: every statement must be a known one (checked on the whole list, in the entry state: in all
interpretations below, whether a text is known does not depend on the state), then the blocks are run in order -/
def fiRun (I : FiInterp σ ρ) (prog : List Stmt) (s : σ) : Option (Option ρ) :=
  if prog.all (fiStmtKnown I s) then fiRunBlocks I (fiBlocks I.isLoop prog) s else none

/-! ### library operations: reference instances -/

/-- `_TAXICAB_FOOTPRINT = np.array([[0, 1, 0], [1, 1, 1], [0, 1, 0]])` -/
def fiTaxicab : List (List Int) := [[0, 1, 0], [1, 1, 1], [0, 1, 0]]

/-- the selected entries of one footprint row: `k` = index of the first entry of `fs` in its row, `off` = index of
the centre -/
def fiRowNb (get : Int → Int) (sgn off : Int) : List Int → Int → List Int
  | [], _ => []
  | f :: fs, k =>
    if f ≠ 0 then get (sgn * (k - off)) :: fiRowNb get sgn off fs (k + 1) else fiRowNb get sgn off fs (k + 1)

def fiRowsNb (get : Int → Int → Int) (sgn off : Int) : List (List Int) → Int → List Int
  | [], _ => []
  | r :: rs, k =>
    fiRowNb (get (sgn * (k - off))) sgn ((r.length / 2 : Nat) : Int) r 0 ++ fiRowsNb get sgn off rs (k + 1)

/-- the neighbourhood of `(i, j)` selected by the footprint `fp` (centre = `size // 2`), in row-major order of the
footprint, read with `c` outside the box.  `sgn = 1`: the entry `(a, b)` of the footprint selects the cell
`(i + a - centre, j + b - centre)` (`generic_filter`); `sgn = -1`: the reflected footprint (`binary_dilation`). -/
def fiNbhd (sgn : Int) (fp : List (List Int)) (m : Mat) (c i j : Int) : List Int :=
  fiRowsNb (fun di dj => m.get c (i + di) (j + dj)) sgn ((fp.length / 2 : Nat) : Int) fp 0

/-- the cells of the box -/
def fiCells (m : Mat) : List (Int × Int) :=
  (List.range m.rows).flatMap fun (i : Nat) => (List.range m.cols).map fun (j : Nat) => ((i : Int), (j : Int))

/-- a filter function: `none` = unknown text, `some none` = it raises -/
abbrev FiFilterFn := List Int → Option (Option Int)

/-- `generic_filter(input=m, function=fn, footprint=fp, mode='constant', cval=c)` -/
abbrev FiGenericFilter := FiFilterFn → List (List Int) → Int → Mat → Option (Option Mat)

/-- reference instance: `fn` applied to the neighbourhood of every cell; raises if `fn` raises at a cell of the box -/
def fiGenericFilterRef : FiGenericFilter := fun fn fp c m =>
  if (fiCells m).all (fun p => (fn (fiNbhd 1 fp m c p.1 p.2)).isSome) then
    if (fiCells m).all (fun p => ((fn (fiNbhd 1 fp m c p.1 p.2)).bind id).isSome) then
      some (some { m with val := fun i j => ((fn (fiNbhd 1 fp m c i j)).bind id).getD c })
    else some none
  else none

/-- `binary_dilation(input=m, structure=fp, iterations=it)` -/
abbrev FiBinaryDilation := Mat → List (List Int) → Int → Mat

def fiBdilateAt (fp : List (List Int)) (m : Mat) (i j : Int) : Int :=
  if (fiNbhd (-1) fp m 0 i j).any (fun x => decide (x ≠ 0)) then 1 else 0

def fiBdilate (fp : List (List Int)) (m : Mat) : Mat := { m with val := fun i j => fiBdilateAt fp m i j }

def fiBdilateIter (fp : List (List Int)) (m : Mat) : Nat → Mat
  | 0 => m
  | k + 1 => fiBdilate fp (fiBdilateIter fp m k)

/-- reference instance: a cell is set iff the input is non-zero at a cell of the (reflected) structure around it,
`border_value = 0`; `iterations < 1` means "until no change" (as in `Fjord.binaryDilation`: `size` iterations) -/
def fiBinaryDilationRef : FiBinaryDilation := fun m fp it =>
  if it < 1 then fiBdilateIter fp m (m.rows * m.cols) else fiBdilateIter fp m it.toNat

/-- `np.all(a == b)` for arrays of the same shape -/
def fiAllEq (a b : Mat) : Bool := (fiCells a).all fun p => a.val p.1 p.2 == b.val p.1 p.2

/-- `.astype(bool).astype('int32')`, also `.astype(bool)` in the 0 / 1 representation of boolean arrays -/
def fiNorm (m : Mat) : Mat := { m with val := fun i j => if m.val i j ≠ 0 then 1 else 0 }

/-- `-np.asarray(a, dtype='int32') - b` for a boolean array `a` (0 / 1) and an integer array `b` of the same shape -/
def fiNegSub (a b : Mat) : Mat := { b with val := fun i j => -(a.get 0 i j) - b.get 0 i j }

/-- `[n for n in xs if n >= 0]` -/
def fiNonneg (xs : List Int) : List Int := xs.filter fun n => decide (n ≥ 0)

/-- Python's `min` over a sequence: left to right, the first smallest element is kept; `none` = empty (`ValueError`) -/
def fiMinFrom (a : Int) : List Int → Int
  | [] => a
  | b :: bs => fiMinFrom (if b < a then b else a) bs

def fiPyMin : List Int → Option Int
  | [] => none
  | x :: xs => some (fiMinFrom x xs)

/-- `next(i for i, n in enumerate(xs) if n == s)`; `none` = `StopIteration` -/
def fiFirstIdx (xs : List Int) (s : Int) : Option Int := (xs.findIdx? (fun n => n == s)).map Int.ofNat

/-- `values[idx]` for one entry of the index array (the indices that occur are within range: `Bridge.vps_descent_dir_lt`) -/
def fiIndex (values : List Int) (k : Int) : Int := values.getD k.toNat 0

/-! ### `_dilate_filter`, `_descent_filter_type` -/

/-- the local variables of the two filter functions; `none` = not assigned -/
structure FiFiltSt where
  up : Option Int
  left : Option Int
  center : Option Int
  right : Option Int
  down : Option Int
  nn : Option (List Int)
  smallest : Option Int
  idx : Option Int

def FiFiltSt.init : FiFiltSt := ⟨none, none, none, none, none, none, none, none⟩

/-- `up, left, center, right, down = items`; `none` = `ValueError` -/
def fiUnpack5 (s : FiFiltSt) : List Int → Option FiFiltSt
  | [a, b, c, d, e] => some { s with up := some a, left := some b, center := some c, right := some d, down := some e }
  | _ => none

def fiDfAtom (s : FiFiltSt) : String → Option (Option Bool)
  | "center != -1" => some (s.center.map fun c => decide (c ≠ -1))
  | "not nonnegative_neighbours" => some (s.nn.map List.isEmpty)
  | _ => none

def fiDfStep (items : List Int) (s : FiFiltSt) : String → String → Option (Option FiFiltSt)
  | "assign", "up, left, center, right, down = items" => some (fiUnpack5 s items)
  | "assign", "nonnegative_neighbours = [n for n in (up, left, right, down) if n >= 0]" =>
    some (match s.up, s.left, s.right, s.down with
      | some a, some b, some c, some d => some { s with nn := some (fiNonneg [a, b, c, d]) }
      | _, _, _, _ => none)
  | _, _ => none

def fiDfRet (s : FiFiltSt) : String → Option (Option Int)
  | "center" => some s.center
  | "min(nonnegative_neighbours) + 1" => some (s.nn.bind fun l => (fiPyMin l).map (· + 1))
  | _ => none

def fiDfInterp (items : List Int) : FiInterp FiFiltSt Int :=
  ⟨fiDfAtom, fiDfStep items, fiDfRet, fun _ => false, fun _ _ => none, fun _ => none⟩

/-- `_dilate_filter(items)` as the generated sequence says -/
def fiDilateFilterSeq : FiFilterFn := fun items => fiRun (fiDfInterp items) Gen.vps_dilate_filter_seq FiFiltSt.init

def fiDtAtom (s : FiFiltSt) : String → Option (Option Bool)
  | "center <= 0" => some (s.center.map fun c => decide (c ≤ 0))
  | _ => none

def fiDtStep (items : List Int) (s : FiFiltSt) : String → String → Option (Option FiFiltSt)
  | "assign", "up, left, center, right, down = items" => some (fiUnpack5 s items)
  | "assign", "nonnegative_neighbours = [n for n in items if n >= 0]" =>
    some (some { s with nn := some (fiNonneg items) })
  | "assign", "smallest_neighbour = min(nonnegative_neighbours)" =>
    some (s.nn.bind fun l => (fiPyMin l).map fun v => { s with smallest := some v })
  | "assign", "idx_smallest = next((i for i, n in enumerate((center, left, right, down, up)) if n == smallest_neighbour))" =>
    some (match s.center, s.left, s.right, s.down, s.up, s.smallest with
      | some c, some l, some r, some d, some u, some v =>
        (fiFirstIdx [c, l, r, d, u] v).map fun k => { s with idx := some k }
      | _, _, _, _, _, _ => none)
  | _, _ => none

def fiDtRet (s : FiFiltSt) : String → Option (Option Int)
  | "0" => some (some 0)
  | "idx_smallest" => some s.idx
  | _ => none

def fiDtInterp (items : List Int) : FiInterp FiFiltSt Int :=
  ⟨fiDtAtom, fiDtStep items, fiDtRet, fun _ => false, fun _ _ => none, fun _ => none⟩

/-- `_descent_filter_type(items)` as the generated sequence says -/
def fiDescentFilterTypeSeq : FiFilterFn := fun items =>
  fiRun (fiDtInterp items) Gen.vps_descent_filter_type_seq FiFiltSt.init

/-- `_dilate_filter` on the values: the rule of `Fjord.dilateAt` -/
def fiDilateRule (up left center right down : Int) : Int :=
  if center ≠ -1 then center
  else
    match minNonneg [up, left, right, down] with
    | none => center
    | some v => v + 1

/-- `_descent_filter_type` on the values: the rule of `Fjord.descentDir` -/
def fiDirRule (up left center right down : Int) : Nat :=
  if center ≤ 0 then 0
  else
    match minNonneg [up, left, center, right, down] with
    | none => 0
    | some s =>
      if center = s then 0 else if left = s then 1 else if right = s then 2 else if down = s then 3
      else if up = s then 4 else 0

/-! ### `dilate` -/

def fiDlAtom (_ : Mat) : String → Option (Option Bool)
  | _ => none

def fiDlStep (_ : Mat) : String → String → Option (Option Mat)
  | _, _ => none

def fiDlRet (gf : FiGenericFilter) (taxicab : List (List Int)) (m : Mat) : String → Option (Option Mat)
  | "generic_filter(input=matrix, function=_dilate_filter, footprint=_TAXICAB_FOOTPRINT, mode='constant', cval=-2)" =>
    gf fiDilateFilterSeq taxicab (-2) m
  | _ => none

def fiDlInterp (gf : FiGenericFilter) (taxicab : List (List Int)) : FiInterp Mat Mat :=
  ⟨fiDlAtom, fiDlStep, fiDlRet gf taxicab, fun _ => false, fun _ _ => none, fun _ => none⟩

/-- `dilate(matrix)` as the generated sequence says (`function=_dilate_filter` is the interpretation of
`Gen.vps_dilate_filter_seq`) -/
def fiDilateSeq (gf : FiGenericFilter) (taxicab : List (List Int)) (m : Mat) : Option (Option Mat) :=
  fiRun (fiDlInterp gf taxicab) Gen.vps_dilate_seq m

/-! ### `distance` -/

structure FiDistSt where
  matrix : Mat              -- the argument `matrix`
  maxDist : Option Int      -- the argument `max_dist`; `none` = `None`
  distmat : Option Mat
  old : Option Mat

def FiDistSt.init (m : Mat) (maxDist : Option Int) : FiDistSt := ⟨m, maxDist, none, none⟩

def fiDsAtom (s : FiDistSt) : String → Option (Option Bool)
  | "max_dist is None" => some (some s.maxDist.isNone)
  | "np.all(distmat == old_distmat)" =>
    some (match s.distmat, s.old with
      | some a, some b => some (fiAllEq a b)
      | _, _ => none)
  | _ => none

def fiDsStep (gf : FiGenericFilter) (taxicab : List (List Int)) (s : FiDistSt) :
    String → String → Option (Option FiDistSt)
  | "assign", "matrix = np.asarray(matrix)" => some (some s)
  | "assert", "len(matrix.shape) == 2" => some (some s)      -- a `Mat` has two dimensions
  | "assign", "distmat = matrix" => some (some { s with distmat := some s.matrix })
  | "assign", "max_dist = np.size(matrix)" => some (some { s with maxDist := some ((s.matrix.rows * s.matrix.cols : Nat) : Int) })
  | "assign", "old_distmat = distmat" => some (s.distmat.map fun w => { s with old := some w })
  | "assign", "distmat = dilate(distmat)" =>
    match s.distmat with
    | none => some none
    | some w =>
      match fiDilateSeq gf taxicab w with
      | none => none
      | some none => some none
      | some (some w') => some (some { s with distmat := some w' })
  | _, _ => none

def fiDsRet (s : FiDistSt) : String → Option (Option Mat)
  | "distmat" => some s.distmat
  | _ => none

def fiDsIsLoop : String → Bool
  | "for i in range(max_dist)" => true
  | _ => false

/-- `range(max_dist)`: `max(max_dist, 0)` trips; `range(None)` raises -/
def fiDsTrips (s : FiDistSt) : String → Option Nat
  | "for i in range(max_dist)" => s.maxDist.map Int.toNat
  | _ => none

def fiDsInterp (gf : FiGenericFilter) (taxicab : List (List Int)) : FiInterp FiDistSt Mat :=
  ⟨fiDsAtom, fiDsStep gf taxicab, fiDsRet, fiDsIsLoop, fiDsTrips, fun _ => none⟩

/-- `distance(matrix, max_dist)` as the generated sequences say (`dilate` is the interpretation of
`Gen.vps_dilate_seq`) -/
def fiDistanceSeq (gf : FiGenericFilter) (taxicab : List (List Int)) (m : Mat) (maxDist : Option Int) :
    Option (Option Mat) :=
  fiRun (fiDsInterp gf taxicab) Gen.vps_distance_seq (FiDistSt.init m maxDist)

/-! ### `fjord_index` -/

structure FiFjSt where
  land : Mat                -- the argument `land` (re-bound by the first statement)
  oceanDist : Int           -- the argument `ocean_dist`
  notOcean : Option Mat
  input : Option Mat

def FiFjSt.init (land : Mat) (d : Int) : FiFjSt := ⟨land, d, none, none⟩

def fiFjAtom (s : FiFjSt) : String → Option (Option Bool)
  | "ocean_dist > 1" => some (some (decide (s.oceanDist > 1)))
  | _ => none

def fiFjStep (bd : FiBinaryDilation) (taxicab : List (List Int)) (s : FiFjSt) :
    String → String → Option (Option FiFjSt)
  | "assign", "land = np.asarray(land).astype(bool).astype('int32')" => some (some { s with land := fiNorm s.land })
  | "assign", "is_not_ocean = binary_dilation(input=land, structure=_TAXICAB_FOOTPRINT, iterations=ocean_dist - 1)" =>
    some (some { s with notOcean := some (bd s.land taxicab (s.oceanDist - 1)) })
  | "assign", "is_not_ocean = land.astype(bool)" => some (some { s with notOcean := some (fiNorm s.land) })
  | "assign", "input_matrix = -np.asarray(is_not_ocean, dtype='int32') - land" =>
    some (s.notOcean.map fun no => { s with input := some (fiNegSub no s.land) })
  | _, _ => none

def fiFjRet (gf : FiGenericFilter) (taxicab : List (List Int)) (s : FiFjSt) : String → Option (Option Mat)
  | "distance(input_matrix)" =>
    match s.input with
    | none => some none
    | some w => fiDistanceSeq gf taxicab w none
  | _ => none

def fiFjInterp (gf : FiGenericFilter) (bd : FiBinaryDilation) (taxicab : List (List Int)) : FiInterp FiFjSt Mat :=
  ⟨fiFjAtom, fiFjStep bd taxicab, fiFjRet gf taxicab, fun _ => false, fun _ _ => none, fun _ => none⟩

/-- interpretation of a statement sequence of `fjord_index` -/
def fiRunFjordIndex (gf : FiGenericFilter) (bd : FiBinaryDilation) (taxicab : List (List Int)) (prog : List Stmt)
    (land : Mat) (d : Int) : Option (Option Mat) :=
  fiRun (fiFjInterp gf bd taxicab) prog (FiFjSt.init land d)

/-- `fjord_index(land, ocean_dist)` as the generated sequences say (`distance` is the interpretation of
`Gen.vps_distance_seq`) -/
def fiFjordIndexSeq (gf : FiGenericFilter) (bd : FiBinaryDilation) (taxicab : List (List Int)) (land : Mat) (d : Int) :
    Option (Option Mat) :=
  fiRunFjordIndex gf bd taxicab Gen.vps_fjord_index_seq land d

/-- the statement sequence of `fjord_index` before the `fix:` commit 8d30123 (no test of `ocean_dist`): the same
interpreter runs it (`Bridge.vps_fjord_index_old`: it gives `fjordInputOld`) -/
def fiFjordIndexOldSeq : List Stmt := [
  ([], "assign", "land = np.asarray(land).astype(bool).astype('int32')"),
  ([], "assign", "is_not_ocean = binary_dilation(input=land, structure=_TAXICAB_FOOTPRINT, iterations=ocean_dist - 1)"),
  ([], "assign", "input_matrix = -np.asarray(is_not_ocean, dtype='int32') - land"),
  ([], "return", "distance(input_matrix)")]

/-- which of the two versions a sequence is: `true` = the current one (with the test `ocean_dist > 1`) -/
def fiFjordGuardSeen (l : List Stmt) : Bool :=
  l.any fun st => st.1.any fun c => c.2 == "ocean_dist > 1"

/-! ### `descent` -/

structure FiDeSt where
  weights : Mat
  idx : Option Mat
  uValues : Option (List Int)
  vValues : Option (List Int)
  u : Option (Int → Int → Int)
  v : Option (Int → Int → Int)

def FiDeSt.init (w : Mat) : FiDeSt := ⟨w, none, none, none, none, none⟩

def fiDeAtom (s : FiDeSt) : String → Option (Option Bool)
  | "np.size(weights) == 0" => some (some (decide (s.weights.rows * s.weights.cols = 0)))
  | _ => none

def fiDeStep (gf : FiGenericFilter) (taxicab : List (List Int)) (s : FiDeSt) : String → String → Option (Option FiDeSt)
  | "assign", "idx_direction = generic_filter(input=weights, function=_descent_filter_type, footprint=_TAXICAB_FOOTPRINT, mode='constant', cval=-1)" =>
    match gf fiDescentFilterTypeSeq taxicab (-1) s.weights with
    | none => none
    | some none => some none
    | some (some m) => some (some { s with idx := some m })
  | "assign", "u_values = np.array([0, -1, 1, 0, 0])" => some (some { s with uValues := some [0, -1, 1, 0, 0] })
  | "assign", "v_values = np.array([0, 0, 0, -1, 1])" => some (some { s with vValues := some [0, 0, 0, -1, 1] })
  | "assign", "u = u_values[idx_direction]" =>
    some (match s.uValues, s.idx with
      | some l, some m => some { s with u := some fun i j => fiIndex l (m.val i j) }
      | _, _ => none)
  | "assign", "v = v_values[idx_direction]" =>
    some (match s.vValues, s.idx with
      | some l, some m => some { s with v := some fun i j => fiIndex l (m.val i j) }
      | _, _ => none)
  | _, _ => none

def fiDeRet (s : FiDeSt) : String → Option (Option ((Int → Int → Int) × (Int → Int → Int)))
  | "(np.zeros(np.shape(weights)),) * 2" => some (some (fun _ _ => 0, fun _ _ => 0))
  | "(u, v)" =>
    some (match s.u, s.v with
      | some u, some v => some (u, v)
      | _, _ => none)
  | _ => none

def fiDeInterp (gf : FiGenericFilter) (taxicab : List (List Int)) :
    FiInterp FiDeSt ((Int → Int → Int) × (Int → Int → Int)) :=
  ⟨fiDeAtom, fiDeStep gf taxicab, fiDeRet, fun _ => false, fun _ _ => none, fun _ => none⟩

/-- `descent(weights)` as the generated sequences say (`function=_descent_filter_type` is the interpretation of
`Gen.vps_descent_filter_type_seq`): the pair `(u, v)`, indexed `[row, column]` -/
def fiDescentSeq (gf : FiGenericFilter) (taxicab : List (List Int)) (w : Mat) :
    Option (Option ((Int → Int → Int) × (Int → Int → Int))) :=
  fiRun (fiDeInterp gf taxicab) Gen.vps_descent_seq (FiDeSt.init w)

/-! ### constructors -/

section
variable {α : Type} [OfScientific α]

/-- the attributes that `IBM.__init__` sets; `none` = not set; `grid` / `state` / `forcing`: `some none` = `None` -/
structure FiIbmSt (α : Type) where
  dt : Option α
  maxDepth : Option α
  maxAge : Option α
  grid : Option (Option Unit)
  state : Option (Option Unit)
  forcing : Option (Option Unit)

def FiIbmSt.init : FiIbmSt α := ⟨none, none, none, none, none, none⟩

/-- the object after `IBM.__init__` (`grid`, `state`, `forcing` are `None`) -/
structure FiIbmAttrs (α : Type) where
  dt : α
  maxDepth : α
  maxAge : α

def fiIcAtom (_ : FiIbmSt α) : String → Option (Option Bool)
  | _ => none

def fiIcStep (cfgDt : Option α) (cfgIbm : Option (Option α)) (s : FiIbmSt α) :
    String → String → Option (Option (FiIbmSt α))
  | "assign", "self.dt = config['dt']" => some (cfgDt.map fun v => { s with dt := some v })
  | "assign", "self.max_depth = config['ibm'].get('max_depth', 2)" =>
    some (cfgIbm.map fun e => { s with maxDepth := some (e.getD 2.0) })
  | "assign", "self.max_age = 2 ** 30" => some (some { s with maxAge := some 1073741824.0 })
  | "assign", "self.grid = None" => some (some { s with grid := some none })
  | "assign", "self.state = None" => some (some { s with state := some none })
  | "assign", "self.forcing = None" => some (some { s with forcing := some none })
  | _, _ => none

def fiIcRet (_ : FiIbmSt α) : String → Option (Option (FiIbmAttrs α))
  | _ => none

/-- falling off the end: the object; a body that ends without having set the six attributes (the last three to
`None`) is not the constructor that was modelled -/
def fiIcFin (s : FiIbmSt α) : Option (Option (FiIbmAttrs α)) :=
  match s.dt, s.maxDepth, s.maxAge, s.grid, s.state, s.forcing with
  | some a, some b, some c, some none, some none, some none => some (some ⟨a, b, c⟩)
  | _, _, _, _, _, _ => none

/-- `IBM(config)` as the generated sequence says -/
def fiIbmCtorSeq (cfgDt : Option α) (cfgIbm : Option (Option α)) : Option (Option (FiIbmAttrs α)) :=
  fiRun ⟨fiIcAtom, fiIcStep cfgDt cfgIbm, fiIcRet, fun _ => false, fun _ _ => none, fiIcFin⟩ Gen.vps_ctor_seq
    FiIbmSt.init

/-- `Grid.__init__`: the state is "the base constructor has run" -/
def fiGcStep (s : Bool) : String → String → Option (Option Bool)
  | "expr", "super().__init__(config)" => if s then some none else some (some true)
  | _, _ => none

/-- `Grid(config)` as the generated sequence says: `true` = the constructor of `ladim.gridforce.ROMS.Grid` has run
(once, with `config`) and nothing else was done -/
def fiGridCtorSeq : Option (Option Bool) :=
  fiRun ⟨fun _ _ => none, fiGcStep, fun _ _ => none, fun _ => false, fun _ _ => none, fun s => some (some s)⟩
    Gen.vps_grid_ctor_seq false

/-- the attributes that `Forcing.__init__` sets; `fishU` / `fishV`: `some none` = `None` -/
structure FiForcSt (α : Type) where
  base : Bool
  fishU : Option (Option (Int → Int → α))
  fishV : Option (Option (Int → Int → α))
  speed : Option α
  useCurrents : Option Bool
  oceanDistance : Option α

def FiForcSt.init : FiForcSt α := ⟨false, none, none, none, none, none⟩

/-- the cache `(self._fish_u, self._fish_v)`; `none` = `None` -/
structure FiCache (α : Type) where
  u : Option (Int → Int → α)
  v : Option (Int → Int → α)

/-- the object after `Forcing.__init__` -/
structure FiForcAttrs (α : Type) where
  cache : FiCache α
  speed : α
  useCurrents : Bool
  oceanDistance : α

def fiFcStep (cfgGridforce : Option (Option α)) (s : FiForcSt α) : String → String → Option (Option (FiForcSt α))
  | "expr", "super().__init__(config, grid)" => if s.base then some none else some (some { s with base := true })
  | "assign", "self._fish_u = None" => some (some { s with fishU := some none })
  | "assign", "self._fish_v = None" => some (some { s with fishV := some none })
  | "assign", "self.fish_swim_speed = 0.14" => some (some { s with speed := some 0.14 })
  | "assign", "self.use_currents = False" => some (some { s with useCurrents := some false })
  | "assign", "self.ocean_distance = config['gridforce'].get('ocean_distance', 10)" =>
    some (cfgGridforce.map fun e => { s with oceanDistance := some (e.getD 10.0) })
  | _, _ => none

def fiFcFin (s : FiForcSt α) : Option (Option (FiForcAttrs α)) :=
  match s.base, s.fishU, s.fishV, s.speed, s.useCurrents, s.oceanDistance with
  | true, some u, some v, some sp, some uc, some od => some (some ⟨⟨u, v⟩, sp, uc, od⟩)
  | _, _, _, _, _, _ => none

/-- `Forcing(config, grid)` as the generated sequence says -/
def fiForcingCtorSeq (cfgGridforce : Option (Option α)) : Option (Option (FiForcAttrs α)) :=
  fiRun ⟨fun _ _ => none, fiFcStep cfgGridforce, fun _ _ => none, fun _ => false, fun _ _ => none, fiFcFin⟩
    Gen.vps_forcing_ctor_seq FiForcSt.init

end

/-! ### `fish_u`, `fish_v`, `velocity` -/

section
variable {α : Type} [Add α] [Sub α] [Mul α] [Div α] [LT α] [DecidableLT α] [OfScientific α]
  [HasRound α] [HasTrunc α] [HasOfInt α]

def fiFuAtom (s : FiCache α) : String → Option (Option Bool)
  | "self._fish_u is None" => some (some s.u.isNone)
  | _ => none

def fiFvAtom (s : FiCache α) : String → Option (Option Bool)
  | "self._fish_v is None" => some (some s.v.isNone)
  | _ => none

/-- `self._compute_fish_velocity()`: the interpretation of `Gen.vps_compute_fish_velocity_seq` sets both attributes -/
def fiCacheStep (M : Mat) (oceanDistance dx00 speed : α) (_ : FiCache α) : String → String → Option (Option (FiCache α))
  | "call", "_compute_fish_velocity" =>
    match computeFishVelocitySeq M oceanDistance dx00 speed with
    | none => none
    | some none => some none
    | some (some f) => some (some ⟨some f.u, some f.v⟩)
  | _, _ => none

def fiFuRet (s : FiCache α) : String → Option (Option (Option (Int → Int → α) × FiCache α))
  | "self._fish_u" => some (some (s.u, s))
  | _ => none

def fiFvRet (s : FiCache α) : String → Option (Option (Option (Int → Int → α) × FiCache α))
  | "self._fish_v" => some (some (s.v, s))
  | _ => none

/-- the property `fish_u` as the generated sequence says: the value and the cache afterwards -/
def fiFishUSeq (M : Mat) (oceanDistance dx00 speed : α) (cache : FiCache α) :
    Option (Option (Option (Int → Int → α) × FiCache α)) :=
  fiRun ⟨fiFuAtom, fiCacheStep M oceanDistance dx00 speed, fiFuRet, fun _ => false, fun _ _ => none, fun _ => none⟩
    Gen.vps_fish_u_seq cache

/-- the property `fish_v` as the generated sequence says -/
def fiFishVSeq (M : Mat) (oceanDistance dx00 speed : α) (cache : FiCache α) :
    Option (Option (Option (Int → Int → α) × FiCache α)) :=
  fiRun ⟨fiFvAtom, fiCacheStep M oceanDistance dx00 speed, fiFvRet, fun _ => false, fun _ _ => none, fun _ => none⟩
    Gen.vps_fish_v_seq cache

/-- closed form of the property `fish_u`: the first read fills the cache (both components) with the field `f` -/
def fiFishUSpec (f : Field α) (cache : FiCache α) : Option (Int → Int → α) × FiCache α :=
  match cache.u with
  | some u => (some u, cache)
  | none => (some f.u, ⟨some f.u, some f.v⟩)

/-- closed form of the property `fish_v` -/
def fiFishVSpec (f : Field α) (cache : FiCache α) : Option (Int → Int → α) × FiCache α :=
  match cache.v with
  | some v => (some v, cache)
  | none => (some f.v, ⟨some f.u, some f.v⟩)

/-- closed form of `velocity`: the fish velocity, plus the current if `use_currents` -/
def fiVelocitySpec (fish : α × α) (useCurrents : Bool) (cur : α × α) : α × α :=
  if useCurrents then (cur.1 + fish.1, cur.2 + fish.2) else fish

structure FiVelSt (α : Type) where
  fish : Option (α × α)
  cur : Option (α × α)

def fiVlAtom (useCurrents : Bool) (_ : FiVelSt α) : String → Option (Option Bool)
  | "self.use_currents" => some (some useCurrents)
  | _ => none

def fiVlStep (i0 j0 : Int) (shape : Nat × Nat) (fishU fishV : Int → Int → α) (X Y : α) (cur : α × α) (s : FiVelSt α) :
    String → String → Option (Option (FiVelSt α))
  | "assign", "fish_u, fish_v = self.fish_velocity(X, Y)" =>
    match fishVelocitySeq i0 j0 shape fishU fishV X Y with
    | none => none
    | some none => some none
    | some (some f) => some (some { s with fish := some f })
  | "assign", "u, v = super().velocity(X, Y, Z, tstep, method)" => some (some { s with cur := some cur })
  | _, _ => none

def fiVlRet (s : FiVelSt α) : String → Option (Option (α × α))
  | "(u + fish_u, v + fish_v)" =>
    some (match s.cur, s.fish with
      | some c, some f => some (c.1 + f.1, c.2 + f.2)
      | _, _ => none)
  | "(fish_u, fish_v)" => some s.fish
  | _ => none

/-- `Forcing.velocity(X, Y, Z, tstep, method)` (one particle) as the generated sequence says -/
def fiVelocitySeq (i0 j0 : Int) (shape : Nat × Nat) (fishU fishV : Int → Int → α) (X Y : α) (useCurrents : Bool)
    (cur : α × α) : Option (Option (α × α)) :=
  fiRun ⟨fiVlAtom useCurrents, fiVlStep i0 j0 shape fishU fishV X Y cur, fiVlRet, fun _ => false, fun _ _ => none,
    fun _ => none⟩ Gen.vps_velocity_seq ⟨none, none⟩

end
end Ladim.Seq
