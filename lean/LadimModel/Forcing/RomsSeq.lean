import LadimModel.Forcing.Roms
import LadimModel.IBM.Sequence
import LadimModel.Generated.Formulas
/-!
Interpretation of the generated statement sequences of `chemicals/gridforce.py :: Forcing`
(`Gen.forcing_init_seq` = `_remaining_initialization`, `Gen.forcing_step_seq` = `_update_one_step`), one grid cell:
a velocity component `U` (the statements on `V` are the same statements on another component and are ignored), the
diagnosed vertical velocity `W` (`compute_w`, an arbitrary function `cw` of the horizontal velocity here), and one
scalar field `S`.  `LadimProofs/Bridge/Forcing.lean` proves that the interpretation, projected to the state of
`LadimModel/Forcing/Roms.lean`, is `Roms.init` / `Roms.updateOne`, and that `W` stays the image of `U` under `cw`
whenever `cw` is linear.
-/
namespace Ladim.Seq

structure FSt (α : Type) where
  U : α
  Unew : α
  dU : α
  W : α
  Wnew : α
  dW : α
  S : α
  Snew : α
  dS : α
  prestep : Int
  stepdiff : Int
  nextstep : Int
  interpVel : Bool
  interpScal : Bool
  initDone : Bool

section
variable {α : Type} [Add α] [Sub α] [Mul α] [Div α] [HasOfInt α]

def FSt.blank (z : α) : FSt α := ⟨z, z, z, z, z, z, z, z, z, 0, 0, 0, false, false, false⟩

/-- projection to the state of the C06 model (`last` is kept by `Forcing.update`, not by these two methods) -/
def FSt.roms (s : FSt α) (last : Int) : Roms.St α := ⟨s.U, s.Unew, s.dU, s.S, s.Snew, last⟩

/-- conditions of `_remaining_initialization` -/
def initAtom (fr : Roms.Frames α) (s : FSt α) : String → Option Bool
  | "self.initialization_finished" => some s.initDone
  | "V" => some (Roms.prestepOf fr.steps).isSome          -- truthiness of the list of frames before the start
  | "steps[0] == 0" => some (fr.steps.head? == some 0)
  | "for name in self.ibm_forcing" => some true            -- one scalar field
  | _ => none

def initStep (fr : Roms.Frames α) (cw : α → α) (s : FSt α) : String → String → Option (FSt α)
  | "assign", "steps = self.steps" => some s
  | "assign", "V = [step for step in steps if step < 0]" => some s
  | "assign", "prestep = max(V)" => (Roms.prestepOf fr.steps).map (fun p => { s with prestep := p })
  | "assign", "stepdiff = self.stepdiff[steps.index(prestep)]" =>
    (Roms.nextStep fr.steps s.prestep).map (fun nx => { s with stepdiff := nx - s.prestep })
  | "assign", "nextstep = prestep + stepdiff" => some { s with nextstep := s.prestep + s.stepdiff }
  | "assign", "self.U, self.V = self._read_velocity(prestep)" => some { s with U := fr.vel s.prestep }
  | "assign", "self[name] = self._read_field(name, prestep)" => some { s with S := fr.sc s.prestep }
  | "assign", "self.W = self.compute_w(self.U, self.V)" => some { s with W := cw s.U }
  | "assign", "self.Unew, self.Vnew = self._read_velocity(nextstep)" => some { s with Unew := fr.vel s.nextstep }
  | "assign", "self.Wnew = self.compute_w(self.Unew, self.Vnew)" => some { s with Wnew := cw s.Unew }
  | "assign", "self.dU = (self.Unew - self.U) / stepdiff" => some { s with dU := (s.Unew - s.U) / ofInt s.stepdiff }
  | "assign", "self.dV = (self.Vnew - self.V) / stepdiff" => some s
  | "assign", "self.dW = (self.Wnew - self.W) / stepdiff" => some { s with dW := (s.Wnew - s.W) / ofInt s.stepdiff }
  | "assign", "self.U = self.U - (prestep + 1) * self.dU" => some { s with U := s.U - ofInt (s.prestep + 1) * s.dU }
  | "assign", "self.V = self.V - (prestep + 1) * self.dV" => some s
  | "assign", "self.W = self.W - (prestep + 1) * self.dW" => some { s with W := s.W - ofInt (s.prestep + 1) * s.dW }
  | "assign", "self[name + 'new'] = self._read_field(name, nextstep)" => some { s with Snew := fr.sc s.nextstep }
  | "assign", "self['d' + name] = (self[name + 'new'] - self[name]) / stepdiff" =>
    some { s with dS := (s.Snew - s.S) / ofInt s.stepdiff }
  | "assign", "self[name] = self[name] - (prestep + 1) * self['d' + name]" =>
    some { s with S := s.S - ofInt (s.prestep + 1) * s.dS }
  -- start on the first frame
  | "assign", "self.U, self.V = self._read_velocity(0)" => some { s with U := fr.vel 0 }
  | "assign", "self.Unew, self.Vnew = self._read_velocity(steps[1])" =>
    (fr.steps[1]?).map (fun s1 => { s with Unew := fr.vel s1 })
  | "assign", "self.dU = (self.Unew - self.U) / steps[1]" =>
    (fr.steps[1]?).map (fun s1 => { s with dU := (s.Unew - s.U) / ofInt s1 })
  | "assign", "self.dV = (self.Vnew - self.V) / steps[1]" => some s
  | "assign", "self.dW = (self.Wnew - self.W) / steps[1]" =>
    (fr.steps[1]?).map (fun s1 => { s with dW := (s.Wnew - s.W) / ofInt s1 })
  | "assign", "self.Unew = self.U" => some { s with Unew := s.U }
  | "assign", "self.Vnew = self.V" => some s
  | "assign", "self.Wnew = self.W" => some { s with Wnew := s.W }
  | "assign", "self.U = self.U - self.dU" => some { s with U := s.U - s.dU }
  | "assign", "self.V = self.V - self.dV" => some s
  | "assign", "self.W = self.W - self.dW" => some { s with W := s.W - s.dW }
  | "assign", "self[name] = self._read_field(name, 0)" => some { s with S := fr.sc 0 }
  | "assign", "self[name + 'new'] = self._read_field(name, steps[1])" =>
    (fr.steps[1]?).map (fun s1 => { s with Snew := fr.sc s1 })
  | "assign", "self['d' + name] = (self[name + 'new'] - self[name]) / steps[1]" =>
    (fr.steps[1]?).map (fun s1 => { s with dS := (s.Snew - s.S) / ofInt s1 })
  | "assign", "self[name] = self[name] - self['d' + name]" => some { s with S := s.S - s.dS }
  | "assign", "self.initialization_finished = True" => some { s with initDone := true }
  | _, _ => none

/-- conditions of `_update_one_step` at model step `t` -/
def stepAtom (fr : Roms.Frames α) (t : Int) (s : FSt α) : String → Option Bool
  | "t - 1 in self.steps" => some (fr.steps.contains (t - 1))
  | "t in self.steps" => some (fr.steps.contains t)
  | "interpolate_velocity_in_time" => some s.interpVel
  | "interpolate_ibm_forcing_in_time" => some s.interpScal
  | "for name in self.ibm_forcing" => some true
  | _ => none

def stepStep (fr : Roms.Frames α) (cw : α → α) (t : Int) (s : FSt α) : String → String → Option (FSt α)
  | "assign", "interpolate_velocity_in_time = True" => some { s with interpVel := true }
  | "assign", "interpolate_ibm_forcing_in_time = False" => some { s with interpScal := false }
  | "expr", "logging.debug('Updating forcing, time step = {}'.format(t))" => some s
  | "assign", "stepdiff = self.stepdiff[self.steps.index(t - 1)]" =>
    (Roms.nextStep fr.steps (t - 1)).map (fun nx => { s with stepdiff := nx - (t - 1) })
  | "assign", "nextstep = t - 1 + stepdiff" => some { s with nextstep := t - 1 + s.stepdiff }
  | "assign", "self.Unew, self.Vnew = self._read_velocity(nextstep)" => some { s with Unew := fr.vel s.nextstep }
  | "assign", "self.Wnew = self.compute_w(self.Unew, self.Vnew)" => some { s with Wnew := cw s.Unew }
  | "assign", "self[name + 'new'] = self._read_field(name, nextstep)" => some { s with Snew := fr.sc s.nextstep }
  | "assign", "self.dU = (self.Unew - self.U) / stepdiff" => some { s with dU := (s.Unew - s.U) / ofInt s.stepdiff }
  | "assign", "self.dV = (self.Vnew - self.V) / stepdiff" => some s
  | "assign", "self.dW = (self.Wnew - self.W) / stepdiff" => some { s with dW := (s.Wnew - s.W) / ofInt s.stepdiff }
  | "assign", "self['d' + name] = (self[name + 'new'] - self[name]) / stepdiff" =>
    some { s with dS := (s.Snew - s.S) / ofInt s.stepdiff }
  | "assign", "self.U = self.Unew" => some { s with U := s.Unew }
  | "assign", "self.V = self.Vnew" => some s
  | "assign", "self.W = self.Wnew" => some { s with W := s.Wnew }
  | "assign", "self[name] = self[name + 'new']" => some { s with S := s.Snew }
  | "assign", "self.U += self.dU" => some { s with U := s.U + s.dU }
  | "assign", "self.V += self.dV" => some s
  | "assign", "self.W += self.dW" => some { s with W := s.W + s.dW }
  | "assign", "self[name] += self['d' + name]" => some { s with S := s.S + s.dS }
  | _, _ => none


/-- `_update_one_step` in closed form (what the interpretation of the generated sequence amounts to, see
`Bridge.forcing_step_explicit`) -/
def stepExplicit (fr : Roms.Frames α) (cw : α → α) (t : Int) (s : FSt α) : FSt α :=
  let s0 := { s with interpVel := true, interpScal := false }
  let s1 :=
    if fr.steps.contains (t - 1) then
      match Roms.nextStep fr.steps (t - 1) with
      | some nx =>
        { s0 with stepdiff := nx - (t - 1), nextstep := nx, Unew := fr.vel nx, Wnew := cw (fr.vel nx), Snew := fr.sc nx,
                  dU := (fr.vel nx - s.U) / ofInt (nx - (t - 1)), dW := (cw (fr.vel nx) - s.W) / ofInt (nx - (t - 1)) }
      | none => s0
    else s0
  if fr.steps.contains t then { s1 with U := s1.Unew, W := s1.Wnew, S := s1.Snew }
  else { s1 with U := s1.U + s1.dU, W := s1.W + s1.dW }

/-- `Forcing.update`'s loop: `_update_one_step` for the steps `start, start+1, …` (`n` of them) -/
def stepsExplicit (fr : Roms.Frames α) (cw : α → α) (s : FSt α) (start : Int) : Nat → FSt α
  | 0 => s
  | n + 1 => stepsExplicit fr cw (stepExplicit fr cw start s) (start + 1) n

end
end Ladim.Seq

namespace Ladim.Seq
section
variable {α : Type} [Add α] [Sub α] [Mul α] [Div α] [HasOfInt α]

/-- the loop of `Forcing.update` on the interpreted code: `_update_one_step(step)` for `step = start, start+1, …`
(`n` of them), each one the interpretation of the generated statement sequence -/
def codeSteps (fr : Roms.Frames α) (cw : α → α) : FSt α → Int → Nat → Option (FSt α)
  | s, _, 0 => some s
  | s, start, n + 1 =>
    (run (stepAtom fr start) (stepStep fr cw start) Gen.forcing_step_seq s).bind
      (fun s' => codeSteps fr cw s' (start + 1) n)

/-- state of the `Forcing` object between calls: the fields and `_last_update` -/
structure CodeSt (α : Type) where
  st : FSt α
  last : Int

/-- `Forcing.update(t)` after the initialisation: `for step in range(self._last_update + 1, t + 1)` -/
def codeUpdate (fr : Roms.Frames α) (cw : α → α) (c : CodeSt α) (t : Int) : Option (CodeSt α) :=
  if c.last < t then (codeSteps fr cw c.st (c.last + 1) (t - c.last).toNat).map (fun s => ⟨s, t⟩) else some c

/-- a whole run of the interpreted code: `_remaining_initialization`, then `update(t)` for every `t` of the schedule -/
def codeRun (fr : Roms.Frames α) (cw : α → α) (z : α) (sched : List Int) : Option (CodeSt α) :=
  (run (initAtom fr) (initStep fr cw) Gen.forcing_init_seq (FSt.blank z)).bind
    (fun s0 => sched.foldlM (codeUpdate fr cw) ⟨s0, -1⟩)

end
end Ladim.Seq
