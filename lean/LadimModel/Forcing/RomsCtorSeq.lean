import LadimModel.Forcing.RomsSeq
import LadimModel.Post.RasterSeq
/-!
Interpretation of the generated statement sequences of `chemicals/gridforce.py :: Forcing` that were not pinned yet
(property C06; the class is also served to `ladim_plugins.mine`):

* `Gen.forcing_steps_seq` (`forcing_steps`: frame times → `(steps, file_idx, frame_idx)`), `Gen.forcing_scan_file_times_seq`,
  `Gen.forcing_find_files_seq`, `Gen.forcing_open_dataset_seq`, `Gen.forcing_ctor_seq` (`__init__`);
* `Gen.forcing_update_seq` (`update`: the catch-up loop over the already bridged `_update_one_step`);
* `Gen.forcing_open_file_seq`, `Gen.forcing_read_velocity_seq`, `Gen.forcing_read_field_seq`, `Gen.forcing_close_seq`,
  `Gen.forcing_setitem_seq`, `Gen.forcing_getitem_seq`.

Runner (`Nest.run`): strict — every statement text, every condition text and the text of every `return` expression,
executed or not, must be one the interpretation knows (exact string match), otherwise the run is `none`; `for` loops
are really iterated, also nested ones: consecutive statements that share their outermost loop header are one loop
(`Loops.blocks`), the iterable of the header is evaluated *once* on entry (`iter`: one binder of the loop variable per
trip, as Python evaluates `range(…)` / a list once), the body — the statements with their guards cut behind the loop
header — is run once per trip by the same runner one level down.  Conditions may bind (`with E as x`).
Outcomes: `none` = a text the interpretation does not know (the tie with the code is broken); `some none` = the code
raises; `some (some s)` = the code finishes (returns) in state `s`.

Parameters of the interpretations (environment, file contents, library calls):
* `fs : String → NcFile α` — what `Dataset(fname)` shows of a file: `times` = `num2date(ocean_time[:], units)` as
  `np.datetime64`, in whole seconds (an `Int`; sub-second time stamps are outside the model); `var name frame` = the
  raw (`set_auto_maskandscale(False)`) values `variables[name][frame, :, J, I]` at one grid cell (`u`, `v` on their own
  subgrid slices `Ju, Iu` / `Jv, Iv`; every operation of the readers is element-wise); `scale name` =
  `(scale_factor, add_offset)` when the variable has the attribute `scale_factor`;
* `glob : String → List String` (`glob.glob`), the force configuration `ForceCfg` (`input_file`, `first_file`,
  `last_file`), `start`, `stop`, `dt` (`np.datetime64(config['start_time'])`, `config['stop_time']`, `config['dt']`,
  seconds), `config['ibm_forcing']`; the land masks `Mu`, `Mv` of the cell; `narrow` = `np.float32(·)`;
* for `update`: the step table `Roms.Frames` and `compute_w` (`cw`), as in `RomsSeq.lean`.
`LadimProofs/Bridge/RomsCtorSeq.lean` proves what the interpretations amount to.
-/
namespace Ladim.Seq
namespace RomsCtor

/-! ### a strict runner with nested loops -/
namespace Nest

/-- an interpretation of statement and condition texts on states `σ`.
`cond s c` = truth value of condition `c` and the state with whatever `c` binds; `none` = unknown text.
`step s kind text`: `none` = unknown text, `some none` = the statement raises.
`isLoop c`: `c` is a loop header the interpretation knows; `iter s c` = the iterable of the header in state `s`
(evaluated once, on entry of the loop): for every trip the binder of the loop variable. -/
structure Interp (σ : Type) where
  cond : σ → String → Option (Bool × σ)
  step : σ → String → String → Option (Option σ)
  isLoop : String → Bool
  iter : σ → String → List (σ → σ)

variable {σ : Type}

/-- a condition is a known one; a loop header must have positive polarity (no `for … else`) -/
def condKnown (I : Interp σ) (s : σ) (c : Cond) : Bool :=
  if I.isLoop c.2 then c.1 else (I.cond s c.2).isSome

/-- all conditions of the guard and the statement (a `return` included) are known texts; a `return` inside a loop
is not modelled -/
def stmtKnown (I : Interp σ) (s : σ) (st : Stmt) : Bool :=
  st.1.all (condKnown I s) && (I.step s st.2.1 st.2.2).isSome &&
    !(st.2.1 == "return" && (Loops.loopOf I.isLoop st.1).isSome)

/-- evaluate a guard, threading the bindings of its conditions.
`none` = unknown condition (or a loop header where none can be), `some none` = the guard is false,
`some (some s')` = true, with the bindings. -/
def guardEnter (I : Interp σ) : σ → List Cond → Option (Option σ)
  | s, [] => some (some s)
  | s, (pos, c) :: rest =>
    if I.isLoop c then none
    else
      match I.cond s c with
      | none => none
      | some (b, s') => if b == pos then guardEnter I s' rest else some none

/-- the guard of a statement of a loop body, seen from inside the loop: what follows the loop header -/
def stripLoop (isLoop : String → Bool) : List Cond → List Cond
  | [] => []
  | (_, c) :: rest => if isLoop c then rest else stripLoop isLoop rest

def stripBody (isLoop : String → Bool) (body : List Stmt) : List Stmt :=
  body.map (fun st => (stripLoop isLoop st.1, st.2))

/-- the trips of a loop: bind the loop variable, run the body -/
def loopOver (body : σ → Option (Option σ)) : List (σ → σ) → σ → Option (Option σ)
  | [], s => some (some s)
  | b :: bs, s =>
    match body (b s) with
    | none => none
    | some none => some none
    | some (some s') => loopOver body bs s'

/-- run the blocks in order; `sub` runs a loop body (the runner one level down) -/
def runBlocks (I : Interp σ) (sub : List Stmt → σ → Option (Option σ)) : List Loops.Block → σ → Option (Option σ)
  | [], s => some (some s)
  | .plain (g, k, t) :: rest, s =>
    match guardEnter I s g with
    | none => none
    | some none => runBlocks I sub rest s
    | some (some s1) =>
      match I.step s1 k t with
      | none => none
      | some none => some none
      | some (some s') => if k = "return" then some (some s') else runBlocks I sub rest s'
  | .loop c body :: rest, s =>
    match guardEnter I s (Loops.outerGuard I.isLoop body) with
    | none => none
    | some none => runBlocks I sub rest s
    | some (some s1) =>
      match loopOver (sub (stripBody I.isLoop body)) (I.iter s1 c) s1 with
      | none => none
      | some none => some none
      | some (some s') => runBlocks I sub rest s'

/-- `depth` levels of loops (`0`: nothing can be run) -/
def runDepth (I : Interp σ) : Nat → List Stmt → σ → Option (Option σ)
  | 0, _, _ => none
  | d + 1, prog, s => runBlocks I (runDepth I d) (Loops.blocks I.isLoop prog) s

/-- run a function body: every statement must be a known one, then the blocks are run in order (loops nested at
most two deep) -/
def run (I : Interp σ) (prog : List Stmt) (s : σ) : Option (Option σ) :=
  if prog.all (stmtKnown I s) then runDepth I 3 prog s else none

/-- outcome of a run whose state has a slot for the returned value; a run that ends without `return <value>` is not
the function that was modelled (`none`) -/
def retVal {ρ : Type} (ret : σ → Option ρ) : Option (Option σ) → Option (Option ρ)
  | none => none
  | some none => some none
  | some (some s) => (ret s).map some

/-- a nested call: unknown texts and exceptions of the callee are those of the caller -/
def lift {ρ : Type} (r : Option (Option ρ)) (k : ρ → σ) : Option (Option σ) :=
  match r with
  | none => none
  | some none => some none
  | some (some v) => some (some (k v))

/-- conditions that bind nothing -/
def ofAtom (atom : σ → String → Option Bool) (s : σ) (c : String) : Option (Bool × σ) :=
  (atom s c).map (fun b => (b, s))

end Nest

/-- Python `l[i]` for an integer `i` (negative: from the end); `none` = `IndexError` -/
def pyGet {β : Type} (l : List β) (i : Int) : Option β :=
  if 0 ≤ i then l[i.toNat]?
  else if 0 ≤ (l.length : Int) + i then l[((l.length : Int) + i).toNat]? else none

/-! ### the forcing files -/

/-- what `Dataset(fname)` shows of a forcing file (one grid cell) -/
structure NcFile (α : Type) where
  times : List Int
  var : String → Nat → α
  scale : String → Option (α × α)

/-! ### `find_files` -/

inductive InputFile where
  | pattern (p : String)
  | list (l : List String)

/-- `config['gridforce']`: `first_file` / `last_file` = `force_config.get(…, None)` -/
structure ForceCfg where
  inputFile : InputFile
  firstFile : Option String
  lastFile : Option String

/-- truthiness of `force_config.get(key, None)` -/
def truthy : Option String → Bool
  | some f => f != ""
  | none => false

structure FfSt where
  files : List String
  ret : Option (List String)

def ffAtom (c : ForceCfg) (_ : FfSt) : String → Option Bool
  | "isinstance(pat, list) or isinstance(pat, tuple)" => some (match c.inputFile with | .list _ => true | .pattern _ => false)
  | "force_config.get('first_file', None)" => some (truthy c.firstFile)
  | "force_config.get('last_file', None)" => some (truthy c.lastFile)
  | _ => none

def ffStep (glob : String → List String) (c : ForceCfg) (s : FfSt) : String → String → Option (Option FfSt)
  | "assign", "pat = force_config['input_file']" => some (some s)
  | "return", "list(pat)" =>
    some (some { s with ret := some (match c.inputFile with | .list l => l | .pattern _ => []) })
  | "assign", "files = glob.glob(force_config['input_file'])" =>
    some (some { s with files := match c.inputFile with | .pattern p => glob p | .list _ => [] })
  | "expr", "files.sort()" => some (some { s with files := s.files.mergeSort (fun a b => decide (a ≤ b)) })
  | "assign", "files = [f for f in files if f >= force_config['first_file']]" =>
    some (some { s with files := s.files.filter (fun f => decide (c.firstFile.getD "" ≤ f)) })
  | "assign", "files = [f for f in files if f <= force_config['last_file']]" =>
    some (some { s with files := s.files.filter (fun f => decide (f ≤ c.lastFile.getD "")) })
  | "return", "files" => some (some { s with ret := some s.files })
  | _, _ => none

def ffInterp (glob : String → List String) (c : ForceCfg) : Nest.Interp FfSt :=
  ⟨Nest.ofAtom (ffAtom c), ffStep glob c, fun _ => false, fun _ _ => []⟩

/-- `Forcing.find_files(force_config)` as the generated sequence says -/
def findFilesSeq (glob : String → List String) (c : ForceCfg) : Option (Option (List String)) :=
  Nest.retVal FfSt.ret (Nest.run (ffInterp glob c) Gen.forcing_find_files_seq ⟨[], none⟩)

/-! ### `open_dataset` -/

/-- the two ways a `Dataset` is opened -/
inductive DsOpen where
  | memory    -- `Dataset(uuid.uuid4(), memory=fname)`
  | path      -- `Dataset(fname)`
  deriving DecidableEq, Repr

def odAtom (isMem : Bool) (_ : Option DsOpen) : String → Option Bool
  | "isinstance(fname, memoryview)" => some isMem
  | _ => none

def odStep (_ : Option DsOpen) : String → String → Option (Option (Option DsOpen))
  | "import", "import uuid" => some (some none)
  | "return", "Dataset(uuid.uuid4(), memory=fname)" => some (some (some .memory))
  | "return", "Dataset(fname)" => some (some (some .path))
  | _, _ => none

/-- `Forcing.open_dataset(fname)` -/
def openDatasetSeq (isMem : Bool) : Option (Option DsOpen) :=
  Nest.retVal id (Nest.run ⟨Nest.ofAtom (odAtom isMem), odStep, fun _ => false, fun _ _ => []⟩
    Gen.forcing_open_dataset_seq none)

/-! ### `scan_file_times` -/

structure ScanSt where
  allFrames : List Int
  numFrames : List (String × Nat)
  fname : String
  nc : Option String
  newTimes : List Int
  newFrames : List Int
  outOfOrder : List Bool
  ret : Option (List Int × List (String × Nat))

def ScanSt.init : ScanSt := ⟨[], [], "", none, [], [], [], none⟩

/-- `all_frames[1:] <= all_frames[:-1]` -/
def notAfter (l : List Int) : List Bool := List.zipWith (fun a b => decide (a ≤ b)) (l.drop 1) l

def scanCond (s : ScanSt) : String → Option (Bool × ScanSt)
  | "with Forcing.open_dataset(fname) as nc" => some (true, { s with nc := some s.fname })
  | "np.any(I)" => some (s.outOfOrder.any id, s)
  | _ => none

def scanIsLoop : String → Bool
  | "for fname in files" => true
  | _ => false

def scanIter (files : List String) (_ : ScanSt) : String → List (ScanSt → ScanSt)
  | "for fname in files" => files.map (fun f s => { s with fname := f })
  | _ => []

def scanStep {α : Type} (fs : String → NcFile α) (s : ScanSt) : String → String → Option (Option ScanSt)
  | "assign", "all_frames = []" => some (some { s with allFrames := [] })
  | "assign", "num_frames = {}" => some (some { s with numFrames := [] })
  | "assign", "new_times = nc.variables['ocean_time'][:]" =>
    some (s.nc.map (fun f => { s with newTimes := (fs f).times }))
  | "assign", "num_frames[fname] = len(new_times)" =>
    some (some { s with numFrames := dictSet s.numFrames s.fname s.newTimes.length })
  | "assign", "units = nc.variables['ocean_time'].units" => some (some s)
  | "assign", "new_frames = num2date(new_times, units)" => some (some { s with newFrames := s.newTimes })
  | "expr", "all_frames.extend(new_frames)" => some (some { s with allFrames := s.allFrames ++ s.newFrames })
  | "assign", "all_frames = np.array([np.datetime64(tf) for tf in all_frames])" => some (some s)
  | "assign", "I = all_frames[1:] <= all_frames[:-1]" => some (some { s with outOfOrder := notAfter s.allFrames })
  | "expr", "logging.info(f\"Time frames out of order: {all_frames[1:][I]}\")" => some (some s)
  | "expr", "logging.critical('Time frames not strictly sorted')" => some (some s)
  | "raise", "raise SystemExit(4)" => some none
  | "expr", "logging.info(f\"Number of available forcing times = {len(all_frames)}\")" => some (some s)
  | "return", "(all_frames, num_frames)" => some (some { s with ret := some (s.allFrames, s.numFrames) })
  | _, _ => none

def scanInterp {α : Type} (fs : String → NcFile α) (files : List String) : Nest.Interp ScanSt :=
  ⟨scanCond, scanStep fs, scanIsLoop, scanIter files⟩

/-- `Forcing.scan_file_times(files)` -/
def scanSeq {α : Type} (fs : String → NcFile α) (files : List String) :
    Option (Option (List Int × List (String × Nat))) :=
  Nest.retVal ScanSt.ret (Nest.run (scanInterp fs files) Gen.forcing_scan_file_times_seq ScanSt.init)

/-! ### `forcing_steps` -/

/-- the arguments: `num_frames[fname]`, `np.datetime64(config['start_time'])`, `config['stop_time']`, `config['dt']` -/
structure StepsArgs where
  files : List String
  allFrames : List Int
  numFrames : String → Nat
  start : Int
  stop : Int
  dt : Int

/-- `(steps, file_idx, frame_idx)`, the two dicts in insertion order -/
abbrev StepTable := List Int × List (Int × String) × List (Int × Nat)

structure StepsSt where
  time0 : Int
  time1 : Int
  steps : List Int
  fileIdx : List (Int × String)
  frameIdx : List (Int × Nat)
  stepCounter : Int
  t : Int
  dtime : Int
  fname : String
  i : Nat
  step : Int
  ret : Option StepTable

def StepsSt.init : StepsSt := ⟨0, 0, [], [], [], 0, 0, 0, "", 0, 0, none⟩

def stepsAtom (A : StepsArgs) (s : StepsSt) : String → Option Bool
  | "time0 > start_time" => some (decide (A.start < s.time0))
  | "time1 < config['stop_time']" => some (decide (s.time1 < A.stop))
  | _ => none

def stepsIsLoop : String → Bool
  | "for t in all_frames" => true
  | "for fname in files" => true
  | "for i in range(num_frames[fname])" => true
  | _ => false

def stepsIter (A : StepsArgs) (s : StepsSt) : String → List (StepsSt → StepsSt)
  | "for t in all_frames" => A.allFrames.map (fun t s => { s with t := t })
  | "for fname in files" => A.files.map (fun f s => { s with fname := f })
  | "for i in range(num_frames[fname])" => (List.range (A.numFrames s.fname)).map (fun i s => { s with i := i })
  | _ => []

def stepsStep (A : StepsArgs) (s : StepsSt) : String → String → Option (Option StepsSt)
  | "assign", "time0 = all_frames[0]" => some (A.allFrames.head?.map (fun t => { s with time0 := t }))
  | "assign", "time1 = all_frames[-1]" => some (A.allFrames.getLast?.map (fun t => { s with time1 := t }))
  | "expr", "logging.info(f\"First forcing time = {time0}\")" => some (some s)
  | "expr", "logging.info(f\"Last forcing time = {time1}\")" => some (some s)
  | "assign", "start_time = np.datetime64(config['start_time'])" => some (some s)
  | "assign", "dt = np.timedelta64(int(config['dt']), 's')" => some (some s)
  | "expr", "logging.error('No forcing at start time')" => some (some s)
  | "expr", "logging.error('No forcing at stop time')" => some (some s)
  | "raise", "raise SystemExit(3)" => some none
  | "assign", "steps = []" => some (some { s with steps := [] })
  | "assign", "dtime = np.timedelta64(t - start_time, 's').astype(int)" => some (some { s with dtime := s.t - A.start })
  | "expr", "steps.append(int(dtime / config['dt']))" =>
    -- true division, then `int(…)`: truncation toward zero (`Roms.forcingStep`); `dt = 0`: `int(inf)` / `int(nan)` raise
    some (if A.dt = 0 then none else some { s with steps := s.steps ++ [Roms.forcingStep s.dtime A.dt] })
  | "assign", "file_idx = dict()" => some (some { s with fileIdx := [] })
  | "assign", "frame_idx = dict()" => some (some { s with frameIdx := [] })
  | "assign", "step_counter = -1" => some (some { s with stepCounter := -1 })
  | "assign", "step_counter += 1" => some (some { s with stepCounter := s.stepCounter + 1 })
  | "assign", "step = steps[step_counter]" => some ((pyGet s.steps s.stepCounter).map (fun st => { s with step := st }))
  | "assign", "file_idx[step] = fname" => some (some { s with fileIdx := dictSet s.fileIdx s.step s.fname })
  | "assign", "frame_idx[step] = i" => some (some { s with frameIdx := dictSet s.frameIdx s.step s.i })
  | "return", "(steps, file_idx, frame_idx)" => some (some { s with ret := some (s.steps, s.fileIdx, s.frameIdx) })
  | _, _ => none

def stepsInterp (A : StepsArgs) : Nest.Interp StepsSt :=
  ⟨Nest.ofAtom (stepsAtom A), stepsStep A, stepsIsLoop, stepsIter A⟩

/-- `Forcing.forcing_steps(config, files, all_frames, num_frames)` -/
def stepsSeq (A : StepsArgs) : Option (Option StepTable) :=
  Nest.retVal StepsSt.ret (Nest.run (stepsInterp A) Gen.forcing_steps_seq StepsSt.init)

/-! ### `update` -/

/-- the `Forcing` object as far as `update` is concerned: the fields (`FSt`), `_last_update`; `step` is the loop
variable -/
structure UpdSt (α : Type) where
  st : FSt α
  last : Int
  step : Int

section
variable {α : Type} [Add α] [Sub α] [Mul α] [Div α] [HasOfInt α]

def updIsLoop : String → Bool
  | "for step in range(self._last_update + 1, t + 1)" => true
  | _ => false

/-- `range(self._last_update + 1, t + 1)`, evaluated on entry -/
def updIter (t : Int) (s : UpdSt α) : String → List (UpdSt α → UpdSt α)
  | "for step in range(self._last_update + 1, t + 1)" =>
    (List.range (t - s.last).toNat).map (fun (i : Nat) s' => { s' with step := s.last + 1 + (i : Int) })
  | _ => []

/-- the two calls are the interpretations of `Gen.forcing_init_seq` / `Gen.forcing_step_seq` (`RomsSeq.lean`; a run
that fails there — `SystemExit(3)`, an `IndexError` behind the last frame, or an unknown text — counts as a raise) -/
def updStep (fr : Roms.Frames α) (cw : α → α) (s : UpdSt α) : String → String → Option (Option (UpdSt α))
  | "call", "_remaining_initialization" =>
    some ((run (initAtom fr) (initStep fr cw) Gen.forcing_init_seq s.st).map (fun st' => { s with st := st' }))
  | "expr", "self._update_one_step(step)" =>
    some ((run (stepAtom fr s.step) (stepStep fr cw s.step) Gen.forcing_step_seq s.st).map
      (fun st' => { s with st := st' }))
  | "assign", "self._last_update = step" => some (some { s with last := s.step })
  | _, _ => none

def updInterp (fr : Roms.Frames α) (cw : α → α) (t : Int) : Nest.Interp (UpdSt α) :=
  ⟨fun _ _ => none, updStep fr cw, updIsLoop, updIter t⟩

/-- `Forcing.update(t)` on the object state `c` (fields, `_last_update`) -/
def updateSeq (fr : Roms.Frames α) (cw : α → α) (c : CodeSt α) (t : Int) : Option (Option (CodeSt α)) :=
  Nest.lift (Nest.run (updInterp fr cw t) Gen.forcing_update_seq ⟨c.st, c.last, 0⟩) (fun s => ⟨s.st, s.last⟩)

/-- a whole run on the interpreted code: a freshly constructed object (`initialization_finished = False`,
`_last_update = -1`), then `update(t)` for every `t` of the schedule, each call the interpretation of
`Gen.forcing_update_seq` -/
def updateSeqRun (fr : Roms.Frames α) (cw : α → α) (z : α) : List Int → CodeSt α → Option (Option (CodeSt α))
  | [], c => some (some c)
  | t :: ts, c =>
    match updateSeq fr cw c t with
    | none => none
    | some none => some none
    | some (some c') => updateSeqRun fr cw z ts c'

end

/-! ### the readers: `open_forcing_file`, `_read_velocity`, `_read_field`, `close` -/

/-- the attributes of the `Forcing` object that the constructor and the readers use; `log` lists the attribute
assignments of `__init__` in order, `opened` / `closed` the `open_dataset` / `close` calls -/
structure FObj (α : Type) where
  ibm : List String
  files : List String
  steps : List Int
  stepdiff : List Int
  fileIdx : List (Int × String)
  frameIdx : List (Int × Nat)
  nc : Option String
  initDone : Bool
  lastUpdate : Int
  scaled : List (String × Bool)
  scaleFactor : List (String × α)
  addOffset : List (String × α)
  opened : List String
  closed : List String
  log : List String

def FObj.blank {α : Type} : FObj α := ⟨[], [], [], [], [], [], none, false, 0, [], [], [], [], [], []⟩

/-- object and local variables of the readers; `nc0` = `self._nc` at entry of the method -/
structure RdSt (α : Type) where
  o : FObj α
  nc0 : Option String
  ncLoc : Option String
  fvars : List String
  key : String
  frame : Nat
  U : α
  V : α
  F : α
  retUV : Option (α × α)
  retF : Option α

def RdSt.init {α : Type} (z : α) (o : FObj α) : RdSt α := ⟨o, o.nc, none, [], "", 0, z, z, z, none, none⟩

section
variable {α : Type} [Add α] [Mul α] [HasNarrow α]

/-! #### `open_forcing_file(n)` -/
def ofAtom (fs : String → NcFile α) (s : RdSt α) : String → Option Bool
  | "hasattr(nc.variables[key], 'scale_factor')" =>
    some (match s.ncLoc with | some f => ((fs f).scale s.key).isSome | none => false)
  | _ => none

def ofIsLoop : String → Bool
  | "for key in forcing_variables" => true
  | _ => false

def ofIter (s : RdSt α) : String → List (RdSt α → RdSt α)
  | "for key in forcing_variables" => s.fvars.map (fun k s' => { s' with key := k })
  | _ => []

def ofStep (fs : String → NcFile α) (n : Int) (s : RdSt α) : String → String → Option (Option (RdSt α))
  | "assign", "nc = self._nc" => some (some { s with ncLoc := s.o.nc })
  | "assign", "nc = self.open_dataset(self.file_idx[n])" =>
    some ((s.o.fileIdx.lookup n).map (fun f => { s with ncLoc := some f, o := { s.o with opened := s.o.opened ++ [f] } }))
  | "expr", "nc.set_auto_maskandscale(False)" => some (some s)
  | "assign", "self.scaled = dict()" => some (some { s with o := { s.o with scaled := [] } })
  | "assign", "self.scale_factor = dict()" => some (some { s with o := { s.o with scaleFactor := [] } })
  | "assign", "self.add_offset = dict()" => some (some { s with o := { s.o with addOffset := [] } })
  | "assign", "forcing_variables = ['u', 'v'] + self.ibm_forcing" => some (some { s with fvars := "u" :: "v" :: s.o.ibm })
  | "assign", "self.scaled[key] = True" => some (some { s with o := { s.o with scaled := dictSet s.o.scaled s.key true } })
  | "assign", "self.scale_factor[key] = np.float32(nc.variables[key].scale_factor)" =>
    some (match s.ncLoc.bind (fun f => (fs f).scale s.key) with
      | some sc => some { s with o := { s.o with scaleFactor := dictSet s.o.scaleFactor s.key (narrow sc.1) } }
      | none => none)
  | "assign", "self.add_offset[key] = np.float32(nc.variables[key].add_offset)" =>
    some (match s.ncLoc.bind (fun f => (fs f).scale s.key) with
      | some sc => some { s with o := { s.o with addOffset := dictSet s.o.addOffset s.key (narrow sc.2) } }
      | none => none)
  | "assign", "self.scaled[key] = False" => some (some { s with o := { s.o with scaled := dictSet s.o.scaled s.key false } })
  | "assign", "self._nc = nc" => some (some { s with o := { s.o with nc := s.ncLoc } })
  | _, _ => none

def ofInterp (fs : String → NcFile α) (n : Int) : Nest.Interp (RdSt α) :=
  ⟨Nest.ofAtom (ofAtom fs), ofStep fs n, ofIsLoop, ofIter⟩

/-- `open_forcing_file(n)`: the object afterwards -/
def openFileSeq (fs : String → NcFile α) (z : α) (o : FObj α) (n : Int) : Option (Option (FObj α)) :=
  Nest.lift (Nest.run (ofInterp fs n) Gen.forcing_open_file_seq (RdSt.init z o)) RdSt.o

/-! #### `_read_velocity(n)` -/
/-- Python evaluates the condition of `if not self._nc: … elif …` once, before the branch runs, and the branch
(`open_forcing_file`) changes `self._nc`; in the flat statement list the condition guards every statement of the
chain, so it is evaluated on the value of `self._nc` at entry of the method (`nc0`; nothing before the `if` changes
it). -/
def rvAtom (n : Int) (s : RdSt α) : String → Option Bool
  | "not self._nc" => some s.nc0.isNone
  | "self.frame_idx[n] == 0" => some (s.o.frameIdx.lookup n == some 0)   -- a missing key: `frame = …` below raises
  | "self.scaled['u']" => some (s.o.scaled.lookup "u" == some true)
  | _ => none

def rvStep (fs : String → NcFile α) (Mu Mv : α) (z : α) (n : Int) (s : RdSt α) :
    String → String → Option (Option (RdSt α))
  | "expr", "logging.info('Reading velocity for time step = {}'.format(n))" => some (some s)
  | "expr", "self.open_forcing_file(n)" => Nest.lift (openFileSeq fs z s.o n) (fun o' => { s with o := o' })
  | "expr", "self._nc.close()" =>
    some (s.o.nc.map (fun f => { s with o := { s.o with closed := s.o.closed ++ [f] } }))
  | "assign", "frame = self.frame_idx[n]" => some ((s.o.frameIdx.lookup n).map (fun k => { s with frame := k }))
  | "assign", "U = self._nc.variables['u'][frame, :, self._grid.Ju, self._grid.Iu]" =>
    some (s.o.nc.map (fun f => { s with U := (fs f).var "u" s.frame }))
  | "assign", "V = self._nc.variables['v'][frame, :, self._grid.Jv, self._grid.Iv]" =>
    some (s.o.nc.map (fun f => { s with V := (fs f).var "v" s.frame }))
  | "assign", "U = self.scale_factor['u'] * U" =>
    some ((s.o.scaleFactor.lookup "u").map (fun c => { s with U := c * s.U }))
  | "assign", "V = self.scale_factor['v'] * V" =>
    some ((s.o.scaleFactor.lookup "v").map (fun c => { s with V := c * s.V }))
  | "expr", "np.multiply(U, self._grid.Mu, out=U)" => some (some { s with U := s.U * Mu })
  | "expr", "np.multiply(V, self._grid.Mv, out=V)" => some (some { s with V := s.V * Mv })
  | "return", "(U, V)" => some (some { s with retUV := some (s.U, s.V) })
  | _, _ => none

def rvInterp (fs : String → NcFile α) (Mu Mv : α) (z : α) (n : Int) : Nest.Interp (RdSt α) :=
  ⟨Nest.ofAtom (rvAtom n), rvStep fs Mu Mv z n, fun _ => false, fun _ _ => []⟩

/-- `_read_velocity(n)`: the returned `(U, V)` and the object afterwards -/
def readVelocitySeq (fs : String → NcFile α) (Mu Mv : α) (z : α) (o : FObj α) (n : Int) :
    Option (Option ((α × α) × FObj α)) :=
  Nest.retVal (fun s => s.retUV.map (fun uv => (uv, s.o)))
    (Nest.run (rvInterp fs Mu Mv z n) Gen.forcing_read_velocity_seq (RdSt.init z o))

/-! #### `_read_field(name, n)` -/
/-- a condition cannot raise in the interpretation: a key missing from `self.scaled` (`KeyError` in Python) counts as
"not scaled".  `open_forcing_file` enters `u`, `v` and every name of `ibm_forcing`, and `_read_field` is only called
for those names (`Bridge.rc_openFileObj_lookup`), as `_read_velocity` reads `self.scaled['u']` only after a file has been
opened. -/
def rfAtom (name : String) (s : RdSt α) : String → Option Bool
  | "self.scaled[name]" => some (s.o.scaled.lookup name == some true)
  | _ => none

def rfStep (fs : String → NcFile α) (name : String) (n : Int) (s : RdSt α) : String → String → Option (Option (RdSt α))
  | "assign", "frame = self.frame_idx[n]" => some ((s.o.frameIdx.lookup n).map (fun k => { s with frame := k }))
  | "assign", "F = self._nc.variables[name][frame, :, self._grid.J, self._grid.I]" =>
    some (s.o.nc.map (fun f => { s with F := (fs f).var name s.frame }))
  | "assign", "F = self.add_offset[name] + self.scale_factor[name] * F" =>
    some (match s.o.addOffset.lookup name, s.o.scaleFactor.lookup name with
      | some a, some c => some { s with F := a + c * s.F }
      | _, _ => none)
  | "return", "F" => some (some { s with retF := some s.F })
  | _, _ => none

/-- `_read_field(name, n)`: the returned field (the object does not change) -/
def readFieldSeq (fs : String → NcFile α) (z : α) (o : FObj α) (name : String) (n : Int) : Option (Option α) :=
  Nest.retVal RdSt.retF
    (Nest.run ⟨Nest.ofAtom (rfAtom name), rfStep fs name n, fun _ => false, fun _ _ => []⟩
      Gen.forcing_read_field_seq (RdSt.init z o))

/-! #### `close` -/
def clStep (o : FObj α) : String → String → Option (Option (FObj α))
  | "expr", "self._nc.close()" => some (o.nc.map (fun f => { o with closed := o.closed ++ [f] }))
  | _, _ => none

/-- `close()`: the object afterwards -/
def closeSeq (o : FObj α) : Option (Option (FObj α)) :=
  Nest.run ⟨fun _ _ => none, clStep, fun _ => false, fun _ _ => []⟩ Gen.forcing_close_seq o

end

/-! ### `__setitem__`, `__getitem__` -/
section
variable {ν : Type}

/-- the instance attributes (`self.__dict__`) and the returned value -/
structure ItemSt (ν : Type) where
  attrs : List (String × ν)
  ret : Option ν

def itemStep (key : String) (value : ν) (s : ItemSt ν) : String → String → Option (Option (ItemSt ν))
  | "expr", "setattr(self, key, value)" => some (some { s with attrs := dictSet s.attrs key value })
  | "return", "getattr(self, key)" => some ((s.attrs.lookup key).map (fun v => { s with ret := some v }))
  | _, _ => none

def itemInterp (key : String) (value : ν) : Nest.Interp (ItemSt ν) :=
  ⟨fun _ _ => none, itemStep key value, fun _ => false, fun _ _ => []⟩

/-- `self[key] = value`: the attributes afterwards -/
def setitemSeq (attrs : List (String × ν)) (key : String) (value : ν) : Option (Option (List (String × ν))) :=
  Nest.lift (Nest.run (itemInterp key value) Gen.forcing_setitem_seq ⟨attrs, none⟩) ItemSt.attrs

/-- `self[key]` (`dflt` fills the unused `value` slot of the interpretation); `some none` = `AttributeError` -/
def getitemSeq (attrs : List (String × ν)) (key : String) (dflt : ν) : Option (Option ν) :=
  Nest.retVal ItemSt.ret (Nest.run (itemInterp key dflt) Gen.forcing_getitem_seq ⟨attrs, none⟩)

end

/-! ### `__init__` -/

/-- `config`: `ibm_forcing`, `gridforce`, `start_time`, `stop_time`, `dt` -/
structure Config where
  ibm : List String
  force : ForceCfg
  start : Int
  stop : Int
  dt : Int

structure CtorSt (α : Type) where
  o : FObj α
  files : List String
  numfiles : Nat
  allFrames : List Int
  numFrames : List (String × Nat)
  steps : List Int
  fileIdx : List (Int × String)
  frameIdx : List (Int × Nat)

def CtorSt.init {α : Type} : CtorSt α := ⟨FObj.blank, [], 0, [], [], [], [], []⟩

/-- `np.diff(steps)` -/
def npDiff (l : List Int) : List Int := List.zipWith (fun b a => b - a) (l.drop 1) l

section
variable {α : Type}

def ctorAtom (s : CtorSt α) : String → Option Bool
  | "numfiles == 0" => some (s.numfiles == 0)
  | _ => none

/-- `self.<name> = …`: the assignment is logged -/
def CtorSt.set (s : CtorSt α) (name : String) (f : FObj α → FObj α) : CtorSt α :=
  { s with o := { f s.o with log := s.o.log ++ [name] } }

def ctorStep (glob : String → List String) (fs : String → NcFile α) (cfg : Config) (s : CtorSt α) :
    String → String → Option (Option (CtorSt α))
  | "expr", "logging.info('Initiating forcing')" => some (some s)
  | "assign", "self._grid = grid" => some (some (s.set "_grid" id))
  | "assign", "self.ibm_forcing = config['ibm_forcing']" => some (some (s.set "ibm_forcing" (fun o => { o with ibm := cfg.ibm })))
  | "assign", "files = self.find_files(config['gridforce'])" =>
    Nest.lift (findFilesSeq glob cfg.force) (fun l => { s with files := l })
  | "assign", "numfiles = len(files)" => some (some { s with numfiles := s.files.length })
  | "expr", "logging.error('No input file: {}'.format(config['gridforce']['input_file']))" => some (some s)
  | "raise", "raise SystemExit(3)" => some none
  | "expr", "logging.info('Number of forcing files = {}'.format(numfiles))" => some (some s)
  | "assign", "all_frames, num_frames = self.scan_file_times(files)" =>
    Nest.lift (scanSeq fs s.files) (fun r => { s with allFrames := r.1, numFrames := r.2 })
  | "assign", "steps, file_idx, frame_idx = self.forcing_steps(config, files, all_frames, num_frames)" =>
    Nest.lift (stepsSeq ⟨s.files, s.allFrames, fun f => (s.numFrames.lookup f).getD 0, cfg.start, cfg.stop, cfg.dt⟩)
      (fun r => { s with steps := r.1, fileIdx := r.2.1, frameIdx := r.2.2 })
  | "assign", "self._files = files" => some (some (s.set "_files" (fun o => { o with files := s.files })))
  | "assign", "self.stepdiff = np.diff(steps)" => some (some (s.set "stepdiff" (fun o => { o with stepdiff := npDiff s.steps })))
  | "assign", "self.file_idx = file_idx" => some (some (s.set "file_idx" (fun o => { o with fileIdx := s.fileIdx })))
  | "assign", "self.frame_idx = frame_idx" => some (some (s.set "frame_idx" (fun o => { o with frameIdx := s.frameIdx })))
  | "assign", "self._nc = None" => some (some (s.set "_nc" (fun o => { o with nc := none })))
  | "assign", "self.steps = steps" => some (some (s.set "steps" (fun o => { o with steps := s.steps })))
  | "assign", "self.initialization_finished = False" =>
    some (some (s.set "initialization_finished" (fun o => { o with initDone := false })))
  | "assign", "self._last_update = -1" => some (some (s.set "_last_update" (fun o => { o with lastUpdate := -1 })))
  | _, _ => none

def ctorInterp (glob : String → List String) (fs : String → NcFile α) (cfg : Config) : Nest.Interp (CtorSt α) :=
  ⟨Nest.ofAtom ctorAtom, ctorStep glob fs cfg, fun _ => false, fun _ _ => []⟩

/-- `Forcing(config, grid)`: the object -/
def ctorSeq (glob : String → List String) (fs : String → NcFile α) (cfg : Config) : Option (Option (FObj α)) :=
  Nest.lift (Nest.run (ctorInterp glob fs cfg) Gen.forcing_ctor_seq CtorSt.init) CtorSt.o

end

end RomsCtor
end Ladim.Seq
