import LadimModel.Scalar
import LadimModel.Interp
/-!
`nk800met/gridforce.py`: the two-frame `Buffer`, `OnlineDatabase._get_var / get_var`, `interp`,
`Grid.sample_metric`, `z2k`, `Forcing.update`.
-/
namespace Ladim.Nk800

/-- `Buffer`: at most two live frame tags; entries whose tag is no longer live are pruned -/
structure Buffer (κ ν φ : Type) where
  fidxList : List (Option φ)
  buf : List (κ × ν)
  fidx : List (κ × φ)

section
variable {κ ν φ : Type} [DecidableEq κ] [DecidableEq φ]

def Buffer.empty : Buffer κ ν φ := ⟨[none, none], [], []⟩

def lookup {β : Type} (l : List (κ × β)) (k : κ) : Option β := (l.find? (fun p => p.1 == k)).map (·.2)

/-- python `d[k] = v` -/
def assign {β : Type} (l : List (κ × β)) (k : κ) (v : β) : List (κ × β) :=
  if l.any (fun p => p.1 == k) then l.map (fun p => if p.1 == k then (k, v) else p) else l ++ [(k, v)]

/-- `prune` -/
def Buffer.prune (b : Buffer κ ν φ) : Buffer κ ν φ :=
  { b with
    buf := b.buf.filter (fun kv => match lookup b.fidx kv.1 with
      | some f => b.fidxList.contains (some f)
      | none => false),
    fidx := b.fidx.filter (fun kf => b.fidxList.contains (some kf.2)) }

/-- `push(k, v, frame)` -/
def Buffer.push (b : Buffer κ ν φ) (k : κ) (v : ν) (frame : φ) : Buffer κ ν φ :=
  let b1 := if b.fidxList.contains (some frame) then b
            else ({ b with fidxList := b.fidxList.tail ++ [some frame] } : Buffer κ ν φ).prune
  { b1 with buf := assign b1.buf k v, fidx := assign b1.fidx k frame }

def Buffer.contains (b : Buffer κ ν φ) (k : κ) : Bool := b.buf.any (fun p => p.1 == k)
def Buffer.get? (b : Buffer κ ν φ) (k : κ) : Option ν := lookup b.buf k

/-- `_get_var`: load on a miss, then serve from the buffer. Returns the new buffer, the value, and
whether the backing file was read. -/
def getVar (load : κ → ν) (frameOf : κ → φ) (b : Buffer κ ν φ) (k : κ) : Buffer κ ν φ × Option ν × Bool :=
  if b.contains k then (b, b.get? k, false)
  else
    let b' := b.push k (load k) (frameOf k)
    (b', b'.get? k, true)

end

/-- argument order / formula of the time weights in `interp` -/
inductive Weights where
  | backward   -- `v1 * q + v2 * (1 - q)`   (the code as it is)
  | forward    -- `v1 * (1 - q) + v2 * q`
  deriving DecidableEq, Repr

section
variable {α : Type} [Add α] [Sub α] [Mul α] [Div α] [OfScientific α]

/-- time interpolation between the field of the hour (`v1`) and of the next hour (`v2`), `q` = fraction
of the hour elapsed -/
def interpW (w : Weights) (v1 v2 q : α) : α :=
  match w with
  | .backward => v1 * q + v2 * (1.0 - q)
  | .forward => v1 * (1.0 - q) + v2 * q

end

/-- `w = (time - time.astype('datetime64[h]')) / 1h` in seconds -/
def hourFraction (timeSec : Int) : Int × Int := (timeSec.emod 3600, 3600)
/-- hour tag of a time (seconds since epoch): `time.astype('datetime64[h]')` (floor) -/
def hourOf (timeSec : Int) : Int := timeSec.fdiv 3600
/-- `current_time = start + step * t` and the time used by `velocity(..., tstep)`:
`current_time + dt * tstep` with numpy's truncating multiplication of a timedelta by a float -/
def timeOfStep (start step t : Int) : Int := start + step * t

/-! ### sub-step times in microseconds (the code since the `fix:` commit 686084e) -/

/-- `int(round(a / b))` for `b > 0` (Python `round`: ties to even) -/
def roundDivHalfEven (a b : Int) : Int :=
  let q := a.fdiv b
  let r := a.fmod b
  if 2 * r < b then q else if b < 2 * r then q + 1 else (if q % 2 = 0 then q else q + 1)

/-- time of `velocity(…, tstep)` in microseconds: `current_time + int(round(step * tstep * 1e6)) µs`, the
sub-step fraction given as the rational `num / den` (`den > 0`; LADiM uses 0, 1/2, 1) -/
def subTimeUs (start step t num den : Int) : Int :=
  timeOfStep start step t * 1000000 + roundDivHalfEven (step * num * 1000000) den

/-- the code before the `fix:` commit: `timedelta64[s] * tstep` truncates to whole seconds -/
def subTimeOldUs (start step t num den : Int) : Int :=
  (timeOfStep start step t + (step * num).tdiv den) * 1000000

/-- hour tag and fraction of the hour of a time in microseconds -/
def hourOfUs (timeUs : Int) : Int := timeUs.fdiv 3600000000
def hourFractionUs (timeUs : Int) : Int × Int := (timeUs.emod 3600000000, 3600000000)

/-- index into `dx = diff(X)` (length `xmax - 1`) for a position: `clip(round(x), xmin, hi)` with
`hi = xmax` in the code before the `fix:` commit (index error on the outermost in-grid cells) and
`hi = xmax - 2` after it -/
def metricIndex (hi : Int) (r : Int) : Int := min (max r 0) hi

end Ladim.Nk800
