import LadimModel.Forcing.Nk800
import LadimModel.IBM.Sequence
import LadimModel.Release.AttrSeq
import LadimModel.Release.ReleaseSeq
import LadimModel.Generated.Formulas
/-!
Interpretation of the generated statement sequences of `nk800met/gridforce.py` (property C13):

* `Gen.nk_update_seq`        — `Forcing.update`
* `Gen.nk_velocity_seq`      — `Forcing.velocity`
* `Gen.nk_get_var_seq`       — `OnlineDatabase.get_var`
* `Gen.nk_get_var1_seq`      — `OnlineDatabase._get_var`
* `Gen.nk_sample_metric_seq` — `Grid.sample_metric`
* `Gen.nk_sample_depth_seq`  — `Grid.sample_depth`

with the operations of the hand-written model `LadimModel/Forcing/Nk800.lean`.  Every statement text, every condition
text and the text of every `return` expression must be one the interpreter knows (exact string match) — also in the
branch that is not taken and after the statement that ends the run: the functions that return a value are run by
`Seq.runRet` (`LadimModel/Release/AttrSeq.lean`), `update` (a procedure; it knows no `return` at all) by
`Seq.runStrictRet` (`LadimModel/Release/ReleaseSeq.lean`).  `LadimProofs/Bridge/NkSeq.lean` proves that the
interpretations are the functions of the hand-written model.

Results: `none` = a text the interpreter does not know (the tie is broken); `some none` = the code raises
(`NameError` on a local variable that is not yet assigned, `TypeError` on `current_time = None`, `KeyError` on the
buffer); `some (some r)` = the code returns `r`.

Conventions.  Times are integers: `current_time` (a `datetime64[s]`) in seconds, the request time of `velocity` /
`get_var` / `_get_var` (a `datetime64[us]`) in microseconds since the epoch.  One particle (the arrays `x, y, z` of
the code are treated elementwise).

Parameters of the interpretation (what is *not* read off the statement texts):

* `update`: `start`, `step` = `self.timeconfig['start' | 'step']`, `t` = the argument.
* `velocity`: `cfgStep` = `self.timeconfig['step']` (an integer; `int(·)` is the identity on it); `num / den` = the
  argument `tstep` as a rational, the float product `step * tstep * 1e6` taken as the exact rational
  `step * num * 1000000 / den` (exact for the `tstep` = 0, 1/2, 1 that LADiM uses) and Python's `round` as
  `Nk800.roundDivHalfEven`; `z2k` = the method `self.z2k`; `getVar` = the method `self.dbase.get_var` as a function of
  the state of the database (its buffer), the name and the time; `interp` = the module function `interp`.
* `get_var`: `gv1` = the method `self._get_var` as a function of the buffer, the name and the time.
* `_get_var`: `getDset` = `self.get_dset` (the open dataset of the day of `time`; its own buffer of open files is not
  modelled); `readVar d name tidx` = the array read `d[name][tidx, ...].filled(0)`; `hourStr` = `str` of a
  `datetime64[h]` given as its hour count since the epoch (`Nk800.hourOfUs`).
* `sample_metric` / `sample_depth`: `xmin, xmax, ymin, ymax` = the attributes of the grid; `dxArr`, `dyArr`, `hArr` =
  the array reads `self.dvars['dx'][i]`, `self.dvars['dy'][j]`, `self.dvars['h'][j, i]` (negative indices and index
  errors are theirs); `x.round()` is `HasRound.round`, `.astype(int)` is `HasTrunc.trunc`.

`interp` has no generated statement sequence; its time blend is the generated formula `Gen.nk_interp` (site of the
known finding F-C13a), `map_coordinates(arr, (k, j, i), order=1, prefilter=False)` is the parameter `sample`
(`interpArr` below).
-/
namespace Ladim.Seq
open Nk800

/-! ### `Forcing.update` -/

/-- the state is `self.current_time` (`None` after `__init__`) -/
def updAtom (_ : Option Int) : String → Option Bool
  | _ => none

def updStep (start step t : Int) (_ : Option Int) : String → String → Option (Option (Option Int))
  | "assign", "self.current_time = self.timeconfig['start'] + np.timedelta64(self.timeconfig['step'] * t, 's')" =>
    some (some (some (start + step * t)))
  | _, _ => none

/-- `update(t)` as the generated sequence says: the new value of `self.current_time` -/
def updateSeq (start step t : Int) (cur : Option Int) : Option (Option (Option Int)) :=
  runStrictRet updAtom (updStep start step t) Gen.nk_update_seq cur

/-! ### `OnlineDatabase._get_var` -/

/-- `time.astype(datetime.datetime).hour` of a time in microseconds -/
def hourOfDayUs (timeUs : Int) : Int := (hourOfUs timeUs).emod 24

/-- `self._vars_buf`, the local variables, and whether `dset[name][tidx, ...]` was read -/
structure Gv1St (ν φ D : Type) where
  buf : Buffer (String × φ) ν φ
  dset : Option D
  tidx : Option Int
  tstr : Option φ
  key : Option (String × φ)
  v : Option ν
  read : Bool

section
variable {ν φ D : Type} [DecidableEq φ]

def Gv1St.init (b : Buffer (String × φ) ν φ) : Gv1St ν φ D := ⟨b, none, none, none, none, none, false⟩

def gv1Atom (s : Gv1St ν φ D) : String → Option Bool
  | "key not in self._vars_buf" => s.key.map (fun k => !s.buf.contains k)
  | _ => none

def gv1Step (getDset : Int → D) (readVar : D → String → Int → ν) (hourStr : Int → φ) (name : String) (time : Int)
    (s : Gv1St ν φ D) : String → String → Option (Option (Gv1St ν φ D))
  | "assign", "dset = self.get_dset(time)" => some (some { s with dset := some (getDset time) })
  | "assign", "tidx = time.astype(datetime.datetime).hour" => some (some { s with tidx := some (hourOfDayUs time) })
  | "assign", "tstr = str(time.astype('datetime64[h]'))" => some (some { s with tstr := some (hourStr (hourOfUs time)) })
  | "assign", "key = (name, tstr)" => some (s.tstr.map (fun ts => { s with key := some (name, ts) }))
  | "assign", "v = dset[name][tidx, ...].filled(0)" =>
    some (s.dset.bind (fun d => s.tidx.map (fun i => { s with v := some (readVar d name i), read := true })))
  | "expr", "self._vars_buf.push(key, v, tstr)" =>
    some (s.key.bind (fun k => s.v.bind (fun v => s.tstr.map (fun ts => { s with buf := s.buf.push k v ts }))))
  | _, _ => none

/-- the returned triple is in the format of `Nk800.getVar`: the buffer afterwards, `self._vars_buf[key]` (`none` =
`KeyError`), and whether the backing file was read -/
def gv1Ret (s : Gv1St ν φ D) : String → Option (Option (Buffer (String × φ) ν φ × Option ν × Bool))
  | "self._vars_buf[key]" => some (s.key.map (fun k => (s.buf, s.buf.get? k, s.read)))
  | _ => none

/-- `_get_var(name, time)` on the buffer `b`, as the generated sequence says -/
def getVar1Seq (getDset : Int → D) (readVar : D → String → Int → ν) (hourStr : Int → φ)
    (b : Buffer (String × φ) ν φ) (name : String) (time : Int) :
    Option (Option (Buffer (String × φ) ν φ × Option ν × Bool)) :=
  runRet gv1Atom (gv1Step getDset readVar hourStr name time) gv1Ret Gen.nk_get_var1_seq (Gv1St.init b)

end

/-! ### `OnlineDatabase.get_var` -/

/-- one hour in microseconds: `np.timedelta64(1, 'h')` against a `datetime64[us]` -/
def hourUs : Int := 3600000000

/-- the state of the database, the local variables -/
structure GvSt (B V : Type) where
  db : B
  val1 : Option V
  val2 : Option V
  w : Option (Int × Int)

section
variable {B V : Type}

def gvAtom (_ : GvSt B V) : String → Option Bool
  | _ => none

/-- a call of a method that is itself an interpreted sequence: unknown text / raises / new state and value -/
def callInto {σ R : Type} (r : Option (Option (B × R))) (k : B → R → σ) : Option (Option σ) :=
  match r with
  | none => none
  | some none => some none
  | some (some (b, v)) => some (some (k b v))

def gvStep (gv1 : B → String → Int → Option (Option (B × V))) (name : String) (time : Int) (s : GvSt B V) :
    String → String → Option (Option (GvSt B V))
  | "assign", "val_1 = self._get_var(name, time)" =>
    callInto (gv1 s.db name time) (fun b v => { s with db := b, val1 := some v })
  | "assign", "val_2 = self._get_var(name, time + np.timedelta64(1, 'h'))" =>
    callInto (gv1 s.db name (time + hourUs)) (fun b v => { s with db := b, val2 := some v })
  | "assign", "w = (time - time.astype('datetime64[h]')) / np.timedelta64(1, 'h')" =>
    some (some { s with w := some (time - hourOfUs time * hourUs, hourUs) })      -- true division: the rational
  | _, _ => none

def gvRet (s : GvSt B V) : String → Option (Option (B × (V × V) × (Int × Int)))
  | "((val_1, val_2), w)" =>
    some (s.val1.bind (fun v1 => s.val2.bind (fun v2 => s.w.map (fun w => (s.db, (v1, v2), w)))))
  | _ => none

/-- `get_var(name, time)` as the generated sequence says: the state of the database afterwards and
`((val_1, val_2), w)`, the weight `w` as the rational `w.1 / w.2` -/
def getVarSeq (gv1 : B → String → Int → Option (Option (B × V))) (b : B) (name : String) (time : Int) :
    Option (Option (B × (V × V) × (Int × Int))) :=
  runRet gvAtom (gvStep gv1 name time) gvRet Gen.nk_get_var_seq ⟨b, none, none, none⟩

/-- closed form of `get_var` for a `_get_var` that is a known function (`g … = none`: it raises) -/
def getVarSpec (g : B → String → Int → Option (B × V)) (b : B) (name : String) (time : Int) :
    Option (B × (V × V) × (Int × Int)) :=
  (g b name time).bind (fun r1 =>
    (g r1.1 name (time + hourUs)).bind (fun r2 =>
      some (r2.1, (r1.2, r2.2), hourFractionUs time)))

end

/-! ### `Forcing.velocity` -/

/-- `self.current_time`, the state of `self.dbase`, the local variables -/
structure VelSt (B K R : Type) where
  cur : Option Int
  db : B
  step : Option Int
  time : Option Int
  k : Option K
  u : Option R
  v : Option R

section
variable {B G K R X Z : Type}

def velAtom (_ : VelSt B K R) : String → Option Bool
  | _ => none

def velStep (cfgStep num den : Int) (z2k : Z → K) (getVar : B → String → Int → Option (Option (B × G)))
    (interp : G → X → X → K → R) (x y : X) (z : Z) (s : VelSt B K R) :
    String → String → Option (Option (VelSt B K R))
  | "assign", "step = int(self.timeconfig['step'])" => some (some { s with step := some cfgStep })
  | "assign", "time = self.current_time + np.timedelta64(int(round(step * tstep * 1000000.0)), 'us')" =>
    -- `datetime64[s] + timedelta64[us]` is a `datetime64[us]`; `None + …` raises
    some (s.cur.bind (fun c => s.step.map (fun st =>
      { s with time := some (c * 1000000 + roundDivHalfEven (st * num * 1000000) den) })))
  | "assign", "k = self.z2k(z)" => some (some { s with k := some (z2k z) })
  | "assign", "u = interp(self.dbase.get_var('u', time), x, y, k)" =>
    match s.time, s.k with
    | some tm, some k => callInto (getVar s.db "u" tm) (fun b g => { s with db := b, u := some (interp g x y k) })
    | _, _ => some none
  | "assign", "v = interp(self.dbase.get_var('v', time), x, y, k)" =>
    match s.time, s.k with
    | some tm, some k => callInto (getVar s.db "v" tm) (fun b g => { s with db := b, v := some (interp g x y k) })
    | _, _ => some none
  | _, _ => none

def velRet (s : VelSt B K R) : String → Option (Option (B × R × R))
  | "(u, v)" => some (s.u.bind (fun u => s.v.map (fun v => (s.db, u, v))))
  | _ => none

/-- `velocity(x, y, z, tstep)` as the generated sequence says: the state of the database afterwards and `(u, v)` -/
def velocitySeq (cfgStep num den : Int) (z2k : Z → K) (getVar : B → String → Int → Option (Option (B × G)))
    (interp : G → X → X → K → R) (x y : X) (z : Z) (cur : Option Int) (db : B) : Option (Option (B × R × R)) :=
  runRet velAtom (velStep cfgStep num den z2k getVar interp x y z) velRet Gen.nk_velocity_seq
    ⟨cur, db, none, none, none, none, none⟩

/-- closed form of `velocity` at the request time `time` (microseconds) for a `get_var` that is a known function:
both components at the same time and the same `k = z2k(z)`, `'u'` first -/
def velocitySpec (z2k : Z → K) (gv : B → String → Int → Option (B × G)) (interp : G → X → X → K → R)
    (x y : X) (z : Z) (time : Int) (db : B) : Option (B × R × R) :=
  (gv db "u" time).bind (fun ru =>
    (gv ru.1 "v" time).bind (fun rv =>
      some (rv.1, interp ru.2 x y (z2k z), interp rv.2 x y (z2k z))))

end

/-! ### the call chain `velocity → get_var → _get_var` on the hand-written buffer -/

section
variable {ν φ D : Type} [DecidableEq φ]

/-- a result of `Nk800.getVar` as the outcome of the call: the `KeyError` of `self._vars_buf[key]` raises; the read
flag is dropped -/
def served {B V : Type} (r : B × Option V × Bool) : Option (B × V) := r.2.1.map (fun v => (r.1, v))

/-- `_get_var` on the hand-written buffer: key `(name, hour string)`, frame tag = the hour string -/
def fetch (load : String × φ → ν) (hourStr : Int → φ) (b : Buffer (String × φ) ν φ) (name : String) (time : Int) :
    Option (Buffer (String × φ) ν φ × ν) :=
  served (getVar load Prod.snd b (name, hourStr (hourOfUs time)))

/-- `get_var` with the interpreted `_get_var` as its callee -/
def getVarFull (getDset : Int → D) (readVar : D → String → Int → ν) (hourStr : Int → φ)
    (b : Buffer (String × φ) ν φ) (name : String) (time : Int) :
    Option (Option (Buffer (String × φ) ν φ × (ν × ν) × (Int × Int))) :=
  getVarSeq (fun b n t => (getVar1Seq getDset readVar hourStr b n t).map (fun r => r.bind served)) b name time

end

section
variable {α : Type} [Div α] [HasOfInt α]

/-- the module function `interp(arr, i, j, k)`: `sample a k j i` = `map_coordinates(a, (k, j, i), order=1,
prefilter=False)`, `blend v1 v2 q` = the returned expression (`Gen.nk_interp` for the code as generated) -/
def interpArr {ν K : Type} (blend : α → α → α → α) (sample : ν → K → α → α → α)
    (g : (ν × ν) × (Int × Int)) (i j : α) (k : K) : α :=
  blend (sample g.1.1 k j i) (sample g.1.2 k j i) (ofInt g.2.1 / ofInt g.2.2)

variable [Add α] [Sub α] [Mul α] [OfScientific α]
variable {ν φ D K Z : Type} [DecidableEq φ]

/-- `velocity` with the interpreted `get_var` (with the interpreted `_get_var`) as its callee and the generated
`Gen.nk_interp` as the time blend of `interp` -/
def velocityFull (cfgStep num den : Int) (z2k : Z → K) (getDset : Int → D) (readVar : D → String → Int → ν)
    (hourStr : Int → φ) (sample : ν → K → α → α → α) (x y : α) (z : Z) (cur : Option Int)
    (b : Buffer (String × φ) ν φ) : Option (Option (Buffer (String × φ) ν φ × α × α)) :=
  velocitySeq cfgStep num den z2k (getVarFull getDset readVar hourStr) (interpArr Gen.nk_interp sample) x y z cur b

/-- the hand-written model of the whole chain: four cached fetches (`'u'` at the hour and the next, then `'v'`), the
weight `hourFractionUs time`, the time blend `interpW w` -/
def velocityModel (w : Weights) (z2k : Z → K) (load : String × φ → ν) (hourStr : Int → φ)
    (sample : ν → K → α → α → α) (x y : α) (z : Z) (time : Int) (b : Buffer (String × φ) ν φ) :
    Option (Buffer (String × φ) ν φ × α × α) :=
  velocitySpec z2k (getVarSpec (fetch load hourStr)) (interpArr (interpW w) sample) x y z time b

end

/-! ### `Grid.sample_metric`, `Grid.sample_depth` -/

structure MetSt (β : Type) where
  i : Option Int
  j : Option Int
  dx : Option β
  dy : Option β

section
variable {α β : Type} [HasRound α] [HasTrunc α]

/-- `x.round().astype(int)` -/
def roundInt (x : α) : Int := trunc (round x)

/-- `np.clip(a, lo, hi) = minimum(maximum(a, lo), hi)` on integers -/
def clipInt (a lo hi : Int) : Int := min (max a lo) hi

def metAtom (_ : MetSt β) : String → Option Bool
  | _ => none

def metStep (xmin xmax ymin ymax : Int) (dxArr dyArr : Int → β) (x y : α) (s : MetSt β) :
    String → String → Option (Option (MetSt β))
  | "assign", "i = np.clip(x.round().astype(int), self.xmin, self.xmax - 2)" =>
    some (some { s with i := some (clipInt (roundInt x) xmin (xmax - 2)) })
  | "assign", "j = np.clip(y.round().astype(int), self.ymin, self.ymax - 2)" =>
    some (some { s with j := some (clipInt (roundInt y) ymin (ymax - 2)) })
  | "assign", "dx = self.dvars['dx'][i]" => some (s.i.map (fun i => { s with dx := some (dxArr i) }))
  | "assign", "dy = self.dvars['dy'][j]" => some (s.j.map (fun j => { s with dy := some (dyArr j) }))
  | _, _ => none

def metRet (s : MetSt β) : String → Option (Option (β × β))
  | "(dx, dy)" => some (s.dx.bind (fun dx => s.dy.map (fun dy => (dx, dy))))
  | _ => none

/-- `sample_metric(x, y)` as the generated sequence says -/
def sampleMetricSeq (xmin xmax ymin ymax : Int) (dxArr dyArr : Int → β) (x y : α) : Option (Option (β × β)) :=
  runRet metAtom (metStep xmin xmax ymin ymax dxArr dyArr x y) metRet Gen.nk_sample_metric_seq ⟨none, none, none, none⟩

/-- the local variables `i`, `j` -/
structure DepSt where
  i : Option Int
  j : Option Int

def depAtom (_ : DepSt) : String → Option Bool
  | _ => none

def depStep (x y : α) (s : DepSt) : String → String → Option (Option DepSt)
  | "assign", "i = x.round().astype(int)" => some (some { s with i := some (roundInt x) })
  | "assign", "j = y.round().astype(int)" => some (some { s with j := some (roundInt y) })
  | _, _ => none

def depRet (hArr : Int → Int → β) (s : DepSt) : String → Option (Option β)
  | "self.dvars['h'][j, i]" => some (s.j.bind (fun j => s.i.map (fun i => hArr j i)))
  | _ => none

/-- `sample_depth(x, y)` as the generated sequence says -/
def sampleDepthSeq (hArr : Int → Int → β) (x y : α) : Option (Option β) :=
  runRet depAtom (depStep x y) (depRet hArr) Gen.nk_sample_depth_seq ⟨none, none⟩

end
end Ladim.Seq
