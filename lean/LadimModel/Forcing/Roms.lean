import LadimModel.Scalar
/-!
`chemicals/gridforce.py :: Forcing` (also used by `mine`): time stepping of the forcing fields.
One grid cell suffices (every operation is element-wise): a velocity component `U` that is
interpolated linearly in time between forcing frames and a scalar field `S` that is held constant
between frames (`interpolate_ibm_forcing_in_time = False`).

`steps` are the model time steps of the forcing frames (`forcing_steps`: `int(dtime / dt)`), strictly
increasing; `vel n` / `sc n` are the frame values read at forcing step `n`.
-/
namespace Ladim.Roms

/-- `steps.append(int(dtime / config["dt"]))`: truncation toward zero -/
def forcingStep (dtimeSeconds dt : Int) : Int := dtimeSeconds.tdiv dt

/-- what `update(t)` does when LADiM has skipped steps since the previous call -/
inductive CatchUp where
  | none   -- process only step `t` (the code before the `fix:` commit)
  | loop   -- process every step since the previous call
  deriving DecidableEq, Repr

/-- the scalar fields right after initialisation when the simulation starts on a frame -/
inductive ScalarInit where
  | next      -- `self[name+'new']` keeps the *next* frame, copied into the field at t = 0 (code as it is)
  | current   -- synchronised with the start frame, like the velocity
  deriving DecidableEq, Repr

/-- divisor of the scalar increment when forcing exists before the start -/
inductive PrestepDiv where
  | prestep   -- `/ prestep`  (the code before the `fix:` commit)
  | stepdiff  -- `/ stepdiff`
  deriving DecidableEq, Repr

structure Frames (α : Type) where
  steps : List Int
  vel : Int → α
  sc : Int → α

structure St (α : Type) where
  U : α
  Unew : α
  dU : α
  S : α
  Snew : α
  last : Int          -- last step processed by `update` (−1 after initialisation)
  deriving Repr

/-- successor of forcing step `n` in `steps` (`n + stepdiff[index(n)]`) -/
def nextStep : List Int → Int → Option Int
  | a :: b :: rest, n => if a = n then some b else nextStep (b :: rest) n
  | _, _ => none

/-- `prestep = max(V)` with `V = [step for step in steps if step < 0]` -/
def prestepOf (steps : List Int) : Option Int :=
  steps.foldl (fun acc s => if s < 0 then (match acc with | none => some s | some a => some (max a s)) else acc) none

section
variable {α : Type} [Add α] [Sub α] [Mul α] [Div α] [HasOfInt α]

/-- `_remaining_initialization` -/
def init (pd : PrestepDiv) (si : ScalarInit) (fr : Frames α) : Option (St α) :=
  match prestepOf fr.steps with
  | some p =>
    match nextStep fr.steps p with
    | none => none
    | some nx =>
      let sd := nx - p
      let U0 := fr.vel p
      let Unew := fr.vel nx
      let dU := (Unew - U0) / ofInt sd
      let S0 := fr.sc p
      let Snew := fr.sc nx
      let dS := (Snew - S0) / ofInt (match pd with | .prestep => p | .stepdiff => sd)
      some ⟨U0 - ofInt (p + 1) * dU, Unew, dU, S0 - ofInt (p + 1) * dS, Snew, -1⟩
  | none =>
    match fr.steps with
    | 0 :: s1 :: _ =>
      let U0 := fr.vel 0
      let dU := (fr.vel s1 - U0) / ofInt s1
      let S0 := fr.sc 0
      let dS := (fr.sc s1 - S0) / ofInt s1
      some ⟨U0 - dU, U0, dU, S0 - dS, (match si with | .next => fr.sc s1 | .current => S0), -1⟩
    | _ => none

/-- one step of `update` (`_update_one_step`): when the previous step was a forcing step the next frame is
read and the velocity increment recomputed; then the fields are either *set* to the frame (step `t` is
a forcing step) or advanced by one increment.
```
if t - 1 in self.steps:      # Need new fields
    Unew = read(nextstep); new scalar = read(nextstep); dU = (Unew - U) / stepdiff
if t in self.steps:          # No time interpolation
    U = Unew; scalar = new scalar
else:
    U += dU
``` -/
def updateOne (fr : Frames α) (st : St α) (t : Int) : St α :=
  let st1 :=
    if fr.steps.contains (t - 1) then
      match nextStep fr.steps (t - 1) with
      | some nx =>
        let Unew := fr.vel nx
        { st with Unew := Unew, Snew := fr.sc nx, dU := (Unew - st.U) / ofInt (nx - (t - 1)) }
      | none => st
    else st
  if fr.steps.contains t then { st1 with U := st1.Unew, S := st1.Snew, last := t }
  else { st1 with U := st1.U + st1.dU, last := t }

/-- process the steps `from, from+1, …` (`n` of them) -/
def updateRange (fr : Frames α) (st : St α) (start : Int) : Nat → St α
  | 0 => st
  | n + 1 => updateRange fr (updateOne fr st start) (start + 1) n

/-- `update(t)` -/
def update (cu : CatchUp) (fr : Frames α) (st : St α) (t : Int) : St α :=
  match cu with
  | .none => updateOne fr st t
  | .loop => if st.last < t then updateRange fr st (st.last + 1) (t - st.last).toNat else st

/-- a whole run: `update` at each step of the schedule -/
def run (cu : CatchUp) (fr : Frames α) (st : St α) (sched : List Int) : St α :=
  sched.foldl (update cu fr) st

end
end Ladim.Roms
