import LadimModel.Forcing.Nk800
import LadimModel.Forcing.Nk800Seq
import LadimModel.Post.RasterSeq
import LadimModel.Interp
import LadimModel.Generated.Formulas
/-!
Interpretation of the generated statement sequences of the classes of `nk800met/gridforce.py` (property C13) that
`LadimModel/Forcing/Nk800Seq.lean` does not cover:

* `Buffer`: `Gen.nk_buffer_ctor_seq`, `nk_buffer_prune_seq`, `nk_buffer_push_seq`, `nk_buffer_getitem_seq`,
  `nk_buffer_contains_seq` — with the operations of the hand-written `Nk800.Buffer`;
* `OnlineDatabase`: `Gen.nk_db_ctor_seq`, `nk_get_dset_seq`, `nk_request_dset_seq`, `nk_db_close_seq`, `nk_db_del_seq`;
* `Grid`: `Gen.nk_init_gridlimits_seq`, `nk_ingrid_seq`, `nk_grid_z2k_seq`, `nk_ll2xy_seq`, `nk_atsea_seq`,
  `nk_init_proj_seq`, `nk_grid_ctor_seq`;
* `Forcing`: `Gen.nk_forcing_ctor_seq`, `nk_forcing_z2k_seq`, `nk_forcing_close_seq`.

`LadimProofs/Bridge/Nk800ClsSeq.lean` proves what the interpretations are.

**Runner** (`nkcRun`).  Strict: the statement that is reached must be a known one (every condition text of its guard,
its kind and text — for a `return` the text of the returned expression, which is handed to `step` with kind
`"return"`), executed or not; when the run ends (a `return`, or a statement / condition that raises) the rest of the
list is checked as well.  An `if` condition is evaluated *once*, when the first statement of its block is reached, and
its value is kept for the following statements that have the same condition text at the same guard position (both
polarities: the `else` branch) — `Buffer.push` changes `self.fidx_list` inside `if frame not in self.fidx_list:`, a
runner that re-evaluates the guard per statement would skip the `self.prune()` that follows.  (Two `if` blocks with
literally the same condition directly after one another cannot be told apart in the flat list.)  A condition may raise.
Outcomes: `none` = a text the interpretation does not know (the tie with the code is broken); `some none` = the code
raises; `some (some s)` = the code finishes / returns in state `s`.  `OnlineDatabase.close` has a `for` loop and is run
by `Loops.run` (`LadimModel/Post/RasterSeq.lean`).

**Parameters of the interpretations** (what is not read off the statement texts).
* `Buffer`: the arguments `k, v, frame, item`.  Keys `κ`, values `ν`, frame tags `φ`; `self.fidx_list` is a
  `List (Option φ)` (`None` = `none`; a frame argument is never `None`), the two dicts are insertion-ordered
  association lists, `d[k] = v` is `Nk800.assign`, `d[k]` is `Nk800.lookup` (`none` = `KeyError`).
* `get_dset`: `day` = `time.astype('datetime64[D]')` as a day number (`nkcDayOfUs` / `nkcDayOfSec` for a time in
  microseconds / seconds); `dayStr` = `str` of it; `fmt d` = `self.pattern.format(year=…, month=…, day=…)` for the
  calendar day `d` (calendar conversion and string formatting are library functions); `openDs` = `nc.Dataset` (file /
  network access).  The three `Buffer` methods are the interpreted ones.
* `request_dset`: `getDset` = the method `self.get_dset` at the argument `time` as a function of the state of the
  database; the callback `when_finished` shows as the list of the data sets it was called with.  **Threading**: the
  nested `request` runs in a worker thread; here it is run to completion at `th.start()` (the sequential effect "open
  the data set of that day, push it, hand it to the callback").  The interleaving with the caller is NOT modelled
  (`Buffer` has no lock; a `push` in the worker thread while the main thread reads the buffer is outside the model).  An
  exception in the worker thread does not reach the caller: the thread ends, the callback is not called.
* `OnlineDatabase.__init__`: the argument `pattern` (`none` = `None`), `dflt` = the class attribute
  `default_database`, the two `Buffer()` calls (interpreted constructor).  `close`: nothing.  `__del__`: `close` = the
  method.  `nkcDbGetDset` = `get_dset` on a database object (`fmt pattern d` = the formatted pattern).
* `Grid._init_gridlimits`: `dimX`, `dimY` = `dset.dimensions['X' | 'Y'].size`.  `ingrid`: the limits; `x`, `y` one
  particle.  `z2k`: `depth` = `self.dvars['depth']`; `np.interp` is `Ladim.interp`, `np.arange(n)` is `nkcArange n`.
  `ll2xy`: `transform` = `self.from_wgs84.transform` (projection library), `metric00` = the outcome of
  `self.sample_metric(np.array(0), np.array(0))` (`nkcMetric00`: the interpreted `sample_metric` on the integer
  arguments).  `atsea`: `depthAt` = the outcome of `self.sample_depth(x, y)`.
  `_init_proj`: `proj4Of` = the attribute read, `fromProj4`, `fromEpsg`, `mkTransformer` = the pyproj calls.
* constructors: `cfg` = the configuration (`NkcConfig`: is `gridforce` a key, its `input_file` if present,
  `start_time`, `dt`); `dbCtor`, `getDset`, `initProj`, `initLimits` = the callees as functions with outcomes;
  `readH`, `readDepth`, `readX`, `readY` = the array reads `dset.variables[…][:].filled(0)`; `np.diff` is `nkcDiff`.
-/
namespace Ladim.Seq
open Nk800

/-! ### the runner -/

section runner
variable {σ : Type}

/-- value of a guard.  `op` = the conditions of the previous statement's guard that were evaluated, with their values:
a condition with the same text at the same position is not evaluated again.  `none` = unknown condition text,
`some none` = the condition raises, `some (some (b, path))` = the value and the conditions evaluated on the way. -/
def nkcGuard (atom : σ → String → Option (Option Bool)) (s : σ) :
    List Cond → List (String × Bool) → Option (Option (Bool × List (String × Bool)))
  | [], _ => some (some (true, []))
  | (pos, c) :: rest, op =>
    let hit : Option (Bool × List (String × Bool)) :=
      match op with
      | (c', v) :: op' => if c = c' then some (v, op') else none
      | [] => none
    let ev : Option (Option (Bool × List (String × Bool))) :=
      match hit with
      | some r => some (some r)
      | none => (atom s c).map (fun o => o.map (fun v => (v, [])))
    match ev with
    | none => none
    | some none => some none
    | some (some (v, op')) =>
      if v == pos then
        match nkcGuard atom s rest op' with
        | none => none
        | some none => some none
        | some (some (b, path)) => some (some (b, (c, v) :: path))
      else some (some (false, [(c, v)]))

/-- every condition text of the guard and the statement (kind, text; a `return` with the text of its expression) are
known ones -/
def nkcKnown (atom : σ → String → Option (Option Bool)) (step : σ → String → String → Option (Option σ)) (s : σ)
    (st : Stmt) : Bool :=
  st.1.all (fun c => (atom s c.2).isSome) && (step s st.2.1 st.2.2).isSome

def nkcGo (atom : σ → String → Option (Option Bool)) (step : σ → String → String → Option (Option σ)) :
    List Stmt → List (String × Bool) → σ → Option (Option σ)
  | [], _, s => some (some s)
  | (g, k, t) :: rest, op, s =>
    if !nkcKnown atom step s (g, k, t) then none else
    match nkcGuard atom s g op with
    | none => none
    | some none => if rest.all (nkcKnown atom step s) then some none else none
    | some (some (false, op')) => nkcGo atom step rest op' s
    | some (some (true, op')) =>
      match step s k t with
      | none => none
      | some none => if rest.all (nkcKnown atom step s) then some none else none
      | some (some s') =>
        if k = "return" then (if rest.all (nkcKnown atom step s') then some (some s') else none)
        else nkcGo atom step rest op' s'

/-- run a function body -/
def nkcRun (atom : σ → String → Option (Option Bool)) (step : σ → String → String → Option (Option σ))
    (prog : List Stmt) (s : σ) : Option (Option σ) :=
  nkcGo atom step prog [] s

/-- an interpretation without conditions -/
def nkcNoAtom (_ : σ) : String → Option (Option Bool)
  | _ => none

/-- use of a local variable / attribute: `none` = not assigned yet (`NameError` / `AttributeError`) -/
def nkcNeed {β : Type} (o : Option β) (k : β → Option (Option σ)) : Option (Option σ) :=
  match o with
  | none => some none
  | some v => k v

/-- a call of a callee with an outcome: unknown text / raises / its value -/
def nkcCall {R : Type} (r : Option (Option R)) (k : R → σ) : Option (Option σ) :=
  match r with
  | none => none
  | some none => some none
  | some (some v) => some (some (k v))

/-- the statements of the nested function `name`: those whose guard starts with `def <name>`, without that condition -/
def nkcDefBody (name : String) (prog : List Stmt) : List Stmt :=
  prog.filterMap (fun st =>
    match st.1 with
    | (true, c) :: g => if c = "def " ++ name then some (g, st.2) else none
    | _ => none)

end runner

/-! ### class `Buffer` -/

section buffer
variable {κ ν φ : Type} [DecidableEq κ] [DecidableEq φ]

/-- the object under construction (an attribute that is not assigned yet is `none`) and the local variable -/
structure NkcBufCtorSt (κ ν φ : Type) where
  maxFrameIdx : Option Nat
  fidxList : Option (List (Option φ))
  buf : Option (List (κ × ν))
  fidx : Option (List (κ × φ))

def nkcBufCtorStep (s : NkcBufCtorSt κ ν φ) : String → String → Option (Option (NkcBufCtorSt κ ν φ))
  | "assign", "max_frame_idx = 2" => some (some { s with maxFrameIdx := some 2 })
  | "assign", "self.fidx_list = [None] * max_frame_idx" =>
    nkcNeed s.maxFrameIdx (fun n => some (some { s with fidxList := some (List.replicate n none) }))
  | "assign", "self.buf = dict()" => some (some { s with buf := some [] })
  | "assign", "self.fidx = dict()" => some (some { s with fidx := some [] })
  | _, _ => none

/-- the finished object: all three attributes are there -/
def NkcBufCtorSt.obj (s : NkcBufCtorSt κ ν φ) : Option (Buffer κ ν φ) :=
  match s.fidxList, s.buf, s.fidx with
  | some l, some b, some f => some ⟨l, b, f⟩
  | _, _, _ => none

/-- `Buffer()` as the generated sequence says -/
def nkcBufferCtorSeq : Option (Option (Buffer κ ν φ)) :=
  returned NkcBufCtorSt.obj (nkcRun nkcNoAtom nkcBufCtorStep Gen.nk_buffer_ctor_seq ⟨none, none, none, none⟩)

/-- a comprehension `[x for x in l if p(x)]` whose condition may raise (`p x = none`) -/
def nkcFilterRaise {β : Type} (p : β → Option Bool) : List β → Option (List β)
  | [] => some []
  | x :: xs =>
    match p x with
    | none => none
    | some c => (nkcFilterRaise p xs).map (fun r => if c then x :: r else r)

def nkcPruneStep (s : Buffer κ ν φ) : String → String → Option (Option (Buffer κ ν φ))
  | "assign", "self.buf = {k: v for k, v in self.buf.items() if self.fidx[k] in self.fidx_list}" =>
    -- `self.fidx[k]`: `KeyError` for a key of `buf` that `fidx` does not have
    some ((nkcFilterRaise (fun kv => (lookup s.fidx kv.1).map (fun f => s.fidxList.contains (some f))) s.buf).map
      (fun l => { s with buf := l }))
  | "assign", "self.fidx = {k: v for k, v in self.fidx.items() if v in self.fidx_list}" =>
    some (some { s with fidx := s.fidx.filter (fun kf => s.fidxList.contains (some kf.2)) })
  | _, _ => none

/-- `prune()` as the generated sequence says: the buffer afterwards -/
def nkcPruneSeq (b : Buffer κ ν φ) : Option (Option (Buffer κ ν φ)) :=
  nkcRun nkcNoAtom nkcPruneStep Gen.nk_buffer_prune_seq b

def nkcPushAtom (frame : φ) (s : Buffer κ ν φ) : String → Option (Option Bool)
  | "frame not in self.fidx_list" => some (some (!s.fidxList.contains (some frame)))
  | _ => none

/-- `prune` = the method `self.prune` -/
def nkcPushStep (prune : Buffer κ ν φ → Option (Option (Buffer κ ν φ))) (k : κ) (v : ν) (frame : φ)
    (s : Buffer κ ν φ) : String → String → Option (Option (Buffer κ ν φ))
  | "assign", "self.fidx_list = self.fidx_list[1:] + [frame]" =>
    some (some { s with fidxList := s.fidxList.tail ++ [some frame] })
  | "call", "prune" => prune s
  | "assign", "self.buf[k] = v" => some (some { s with buf := assign s.buf k v })
  | "assign", "self.fidx[k] = frame" => some (some { s with fidx := assign s.fidx k frame })
  | _, _ => none

def nkcPushWith (prune : Buffer κ ν φ → Option (Option (Buffer κ ν φ))) (b : Buffer κ ν φ) (k : κ) (v : ν)
    (frame : φ) : Option (Option (Buffer κ ν φ)) :=
  nkcRun (nkcPushAtom frame) (nkcPushStep prune k v frame) Gen.nk_buffer_push_seq b

/-- `push(k, v, frame)` as the generated sequence says, `self.prune()` being the interpreted `prune` -/
def nkcPushSeq (b : Buffer κ ν φ) (k : κ) (v : ν) (frame : φ) : Option (Option (Buffer κ ν φ)) :=
  nkcPushWith nkcPruneSeq b k v frame

/-- the (unchanged) buffer and the slot of the returned value -/
structure NkcBufRetSt (κ ν φ ρ : Type) where
  b : Buffer κ ν φ
  ret : Option ρ

def nkcGetitemStep (item : κ) (s : NkcBufRetSt κ ν φ ν) : String → String → Option (Option (NkcBufRetSt κ ν φ ν))
  | "return", "self.buf[item]" => some ((lookup s.b.buf item).map (fun v => { s with ret := some v }))   -- KeyError
  | _, _ => none

/-- `buffer[item]` as the generated sequence says; `some none` = `KeyError` -/
def nkcGetitemSeq (b : Buffer κ ν φ) (item : κ) : Option (Option ν) :=
  returned NkcBufRetSt.ret (nkcRun nkcNoAtom (nkcGetitemStep item) Gen.nk_buffer_getitem_seq ⟨b, none⟩)

def nkcContainsStep (item : κ) (s : NkcBufRetSt κ ν φ Bool) :
    String → String → Option (Option (NkcBufRetSt κ ν φ Bool))
  | "return", "item in self.buf" => some (some { s with ret := some (s.b.buf.any (fun p => p.1 == item)) })
  | _, _ => none

/-- `item in buffer` as the generated sequence says -/
def nkcContainsSeq (b : Buffer κ ν φ) (item : κ) : Option (Option Bool) :=
  returned NkcBufRetSt.ret (nkcRun nkcNoAtom (nkcContainsStep item) Gen.nk_buffer_contains_seq ⟨b, none⟩)

/-- every key of `buf` has a frame tag in `fidx` (what `prune` needs in order not to raise) -/
def nkcKeyed (b : Buffer κ ν φ) : Bool := b.buf.all (fun kv => (lookup b.fidx kv.1).isSome)

end buffer

/-! ### `OnlineDatabase.get_dset` -/

/-- `time.astype('datetime64[D]')` as a day number, for a time in microseconds / in seconds -/
def nkcDayOfUs (timeUs : Int) : Int := timeUs.fdiv 86400000000
def nkcDayOfSec (timeSec : Int) : Int := timeSec.fdiv 86400

section getdset
variable {κ D φ : Type} [DecidableEq κ] [DecidableEq φ]

/-- `self._dset_buf`, the local variables (`t`: only its calendar day is used), whether `nc.Dataset` was called -/
structure NkcDsSt (κ D φ : Type) where
  buf : Buffer κ D φ
  t : Option Int
  tstr : Option φ
  pat : Option κ
  opened : Bool
  ret : Option (Buffer κ D φ × Option D × Bool)

def nkcDsAtom (cont : Buffer κ D φ → κ → Option (Option Bool)) (s : NkcDsSt κ D φ) : String → Option (Option Bool)
  | "pat not in self._dset_buf" =>
    match s.pat with
    | none => some none
    | some p =>
      match cont s.buf p with
      | none => none
      | some r => some (r.map (fun c => !c))
  | _ => none

def nkcDsStep (push : Buffer κ D φ → κ → D → φ → Option (Option (Buffer κ D φ)))
    (getitem : Buffer κ D φ → κ → Option (Option D)) (fmt : Int → κ) (dayStr : Int → φ) (openDs : κ → D) (day : Int)
    (s : NkcDsSt κ D φ) : String → String → Option (Option (NkcDsSt κ D φ))
  | "assign", "t = time.astype(datetime.datetime)" => some (some { s with t := some day })
  | "assign", "tstr = str(time.astype('datetime64[D]'))" => some (some { s with tstr := some (dayStr day) })
  | "assign", "pat = self.pattern.format(year=t.year, month=t.month, day=t.day)" =>
    nkcNeed s.t (fun d => some (some { s with pat := some (fmt d) }))
  | "expr", "self._dset_buf.push(pat, nc.Dataset(pat), tstr)" =>
    match s.pat, s.tstr with
    | some p, some ts => nkcCall (push s.buf p (openDs p) ts) (fun b => { s with buf := b, opened := true })
    | _, _ => some none                                                                  -- `NameError`
  | "return", "self._dset_buf[pat]" =>
    match s.pat with
    | none => some none
    | some p =>
      -- a `KeyError` of `self._dset_buf[pat]` shows as the value `none` (the format of `Nk800.getVar`)
      match getitem s.buf p with
      | none => none
      | some r => some (some { s with ret := some (s.buf, r, s.opened) })
  | _, _ => none

def nkcGetDsetWith (cont : Buffer κ D φ → κ → Option (Option Bool))
    (push : Buffer κ D φ → κ → D → φ → Option (Option (Buffer κ D φ)))
    (getitem : Buffer κ D φ → κ → Option (Option D)) (fmt : Int → κ) (dayStr : Int → φ) (openDs : κ → D)
    (b : Buffer κ D φ) (day : Int) : Option (Option (Buffer κ D φ × Option D × Bool)) :=
  returned NkcDsSt.ret
    (nkcRun (nkcDsAtom cont) (nkcDsStep push getitem fmt dayStr openDs day) Gen.nk_get_dset_seq
      ⟨b, none, none, none, false, none⟩)

/-- `get_dset(time)` on the buffer `b` of open data sets, as the generated sequence says, the three `Buffer` methods
being the interpreted ones.  Returned, in the format of `Nk800.getVar`: the buffer afterwards, `self._dset_buf[pat]`
(`none` = `KeyError`), whether `nc.Dataset` was called. -/
def nkcGetDsetSeq (fmt : Int → κ) (dayStr : Int → φ) (openDs : κ → D) (b : Buffer κ D φ) (day : Int) :
    Option (Option (Buffer κ D φ × Option D × Bool)) :=
  nkcGetDsetWith nkcContainsSeq nkcPushSeq nkcGetitemSeq fmt dayStr openDs b day

end getdset

/-! ### `OnlineDatabase.request_dset` -/

section request
variable {B D : Type}

/-- the state of the database; is the name `request` bound; is `th` a thread with target `request`; was it started;
did the worker thread die of an exception; the data sets `when_finished` was called with; was `th` returned -/
structure NkcReqSt (B D : Type) where
  db : B
  requestDefined : Bool
  th : Bool
  started : Bool
  failed : Bool
  delivered : List D
  returned : Bool

/-- the body of the nested `request` -/
def nkcReqBodyStep (getDset : B → Option (Option (B × D))) (s : NkcReqSt B D) :
    String → String → Option (Option (NkcReqSt B D))
  | "return", "when_finished(self.get_dset(time))" =>
    nkcCall (getDset s.db) (fun r => { s with db := r.1, delivered := s.delivered ++ [r.2] })
  | _, _ => none

def nkcReqAtom (_ : NkcReqSt B D) : String → Option (Option Bool)
  | "def request" => some (some false)        -- the body of a function is not run when the function is defined
  | _ => none

/-- `body` = the statements of the nested function -/
def nkcReqStep (getDset : B → Option (Option (B × D))) (body : List Stmt) (s : NkcReqSt B D) :
    String → String → Option (Option (NkcReqSt B D))
  | "def", "request()" => some (some { s with requestDefined := true })
  | "return", "when_finished(self.get_dset(time))" => nkcReqBodyStep getDset s "return" "when_finished(self.get_dset(time))"
  | "assign", "th = threading.Thread(target=request)" =>
    if s.requestDefined then some (some { s with th := true }) else some none
  | "expr", "th.start()" =>
    if s.th then
      -- the worker thread, run to completion here; its return value is dropped, its exception ends only the thread
      match nkcRun nkcNoAtom (nkcReqBodyStep getDset) body { s with started := true } with
      | none => none
      | some none => some (some { s with started := true, failed := true })
      | some (some s') => some (some s')
    else some none
  | "return", "th" => if s.th then some (some { s with returned := true }) else some none
  | _, _ => none

/-- `request_dset(time, when_finished)` as the generated sequence says -/
def nkcRequestDsetSeq (getDset : B → Option (Option (B × D))) (db : B) : Option (Option (NkcReqSt B D)) :=
  nkcRun nkcReqAtom (nkcReqStep getDset (nkcDefBody "request" Gen.nk_request_dset_seq)) Gen.nk_request_dset_seq
    ⟨db, false, false, false, false, [], false⟩

end request

/-! ### `OnlineDatabase.__init__`, `close`, `__del__` -/

section database
variable {κ D φ V : Type}

/-- an `OnlineDatabase`: `_dset_buf` (`None` after `close`), `_vars_buf`, `pattern` -/
structure NkcDb (κ D φ V : Type) where
  dsetBuf : Option (Buffer κ D φ)
  varsBuf : V
  pattern : String

structure NkcDbCtorSt (κ D φ V : Type) where
  dsetBuf : Option (Buffer κ D φ)
  varsBuf : Option V
  pattern : Option String

/-- `mkDs`, `mkVars` = the two calls `Buffer()` -/
def nkcDbCtorStep (mkDs : Option (Option (Buffer κ D φ))) (mkVars : Option (Option V)) (pattern : Option String)
    (dflt : String) (s : NkcDbCtorSt κ D φ V) : String → String → Option (Option (NkcDbCtorSt κ D φ V))
  | "assign", "self._dset_buf = Buffer()" => nkcCall mkDs (fun b => { s with dsetBuf := some b })
  | "assign", "self._vars_buf = Buffer()" => nkcCall mkVars (fun b => { s with varsBuf := some b })
  | "assign", "self.pattern = pattern or self.default_database" =>
    -- `or`: `None` and the empty string are falsy
    some (some { s with pattern := some (match pattern with
                                         | none => dflt
                                         | some p => if p = "" then dflt else p) })
  | _, _ => none

def NkcDbCtorSt.obj (s : NkcDbCtorSt κ D φ V) : Option (NkcDb κ D φ V) :=
  match s.dsetBuf, s.varsBuf, s.pattern with
  | some a, some b, some p => some ⟨some a, b, p⟩
  | _, _, _ => none

def nkcDbCtorWith (mkDs : Option (Option (Buffer κ D φ))) (mkVars : Option (Option V)) (pattern : Option String)
    (dflt : String) : Option (Option (NkcDb κ D φ V)) :=
  returned NkcDbCtorSt.obj
    (nkcRun nkcNoAtom (nkcDbCtorStep mkDs mkVars pattern dflt) Gen.nk_db_ctor_seq ⟨none, none, none⟩)

/-- `OnlineDatabase(pattern)` as the generated sequence says, `Buffer()` being the interpreted constructor -/
def nkcDbCtorSeq {κ D φ κ' ν' φ' : Type} [DecidableEq κ] [DecidableEq φ] [DecidableEq κ'] [DecidableEq φ']
    (pattern : Option String) (dflt : String) : Option (Option (NkcDb κ D φ (Buffer κ' ν' φ'))) :=
  nkcDbCtorWith nkcBufferCtorSeq nkcBufferCtorSeq pattern dflt

/-- `db.get_dset(time)` on a database object, `get_dset` being the interpreted method: `fmt pattern d` =
`pattern.format(year=…, month=…, day=…)` for the calendar day `d`.  After `close` (`_dset_buf = None`) the condition
`pat not in None` raises `TypeError`; a `KeyError` of `self._dset_buf[pat]` raises. -/
def nkcDbGetDset [DecidableEq κ] [DecidableEq φ] (fmt : String → Int → κ) (dayStr : Int → φ) (openDs : κ → D)
    (db : NkcDb κ D φ V) (day : Int) : Option (Option (NkcDb κ D φ V × D)) :=
  match db.dsetBuf with
  | none => some none
  | some b =>
    match nkcGetDsetSeq (fmt db.pattern) dayStr openDs b day with
    | none => none
    | some none => some none
    | some (some (_, none, _)) => some none
    | some (some (b', some d, _)) => some (some ({ db with dsetBuf := some b' }, d))

/-- the database, the loop variable, the data sets that were closed (in order) -/
structure NkcCloseSt (κ D φ V : Type) where
  db : NkcDb κ D φ V
  dset : Option D
  closed : List D

/-- `self._dset_buf = None` after a first `close`: the loop header `None.buf` raises `AttributeError`; it shows as a
single trip without a bound `dset`, whose statement raises -/
def nkcCloseI : Loops.Interp (NkcCloseSt κ D φ V) where
  cond := fun _ _ => none
  step := fun s k t =>
    match k, t with
    | "expr", "dset.close()" => some (s.dset.map (fun d => { s with closed := s.closed ++ [d] }))
    | "assign", "self._dset_buf = None" => some (some { s with db := { s.db with dsetBuf := none } })
    | _, _ => none
  isLoop := fun c => c == "for dset in self._dset_buf.buf.values()"
  trips := fun s _ =>
    match s.db.dsetBuf with
    | none => 1
    | some b => b.buf.length
  bind := fun s _ i => { s with dset := s.db.dsetBuf.bind (fun b => b.buf[i]?.map (·.2)) }

/-- `close()` as the generated sequence says: the database afterwards and the data sets closed -/
def nkcDbCloseSeq (db : NkcDb κ D φ V) : Option (Option (NkcDb κ D φ V × List D)) :=
  (Loops.run nkcCloseI Gen.nk_db_close_seq ⟨db, none, []⟩).map (fun r => r.map (fun s => (s.db, s.closed)))

def nkcDelStep {S : Type} (close : S → Option (Option S)) (s : S) : String → String → Option (Option S)
  | "call", "close" => close s
  | _, _ => none

/-- `__del__()` as the generated sequence says; `close` = the method `self.close` -/
def nkcDbDelSeq {S : Type} (close : S → Option (Option S)) (s : S) : Option (Option S) :=
  nkcRun nkcNoAtom (nkcDelStep close) Gen.nk_db_del_seq s

end database

/-! ### `Grid._init_gridlimits`, `ingrid`, `z2k`, `ll2xy`, `atsea`, `_init_proj` -/

structure NkcLimits where
  xmin : Int
  xmax : Int
  ymin : Int
  ymax : Int
  deriving DecidableEq, Repr

structure NkcLimSt where
  xmin : Option Int
  xmax : Option Int
  ymin : Option Int
  ymax : Option Int

def nkcLimStep (dimX dimY : Int) (s : NkcLimSt) : String → String → Option (Option NkcLimSt)
  | "assign", "self.xmin = 0" => some (some { s with xmin := some 0 })
  | "assign", "self.ymin = 0" => some (some { s with ymin := some 0 })
  | "assign", "self.xmax = dset.dimensions['X'].size" => some (some { s with xmax := some dimX })
  | "assign", "self.ymax = dset.dimensions['Y'].size" => some (some { s with ymax := some dimY })
  | _, _ => none

def NkcLimSt.obj (s : NkcLimSt) : Option NkcLimits :=
  match s.xmin, s.xmax, s.ymin, s.ymax with
  | some a, some b, some c, some d => some ⟨a, b, c, d⟩
  | _, _, _, _ => none

/-- `_init_gridlimits(dset)` as the generated sequence says: the four attributes -/
def nkcInitGridlimitsSeq (dimX dimY : Int) : Option (Option NkcLimits) :=
  returned NkcLimSt.obj (nkcRun nkcNoAtom (nkcLimStep dimX dimY) Gen.nk_init_gridlimits_seq ⟨none, none, none, none⟩)

section grid
variable {α : Type}

section
variable [Add α] [Sub α] [LT α] [DecidableLT α] [OfScientific α] [HasOfInt α]

def nkcIngridStep (l : NkcLimits) (x y : α) (_ : Option Bool) : String → String → Option (Option (Option Bool))
  | "return", "(self.xmin + 0.5 < x) & (x < self.xmax - 0.5) & (self.ymin + 0.5 < y) & (y < self.ymax - 0.5)" =>
    some (some (some (((decide (ofInt l.xmin + 0.5 < x) && decide (x < ofInt l.xmax - 0.5))
      && decide (ofInt l.ymin + 0.5 < y)) && decide (y < ofInt l.ymax - 0.5))))
  | _, _ => none

/-- `ingrid(x, y)` (one particle) as the generated sequence says -/
def nkcIngridSeq (l : NkcLimits) (x y : α) : Option (Option Bool) :=
  returned id (nkcRun nkcNoAtom (nkcIngridStep l x y) Gen.nk_ingrid_seq none)

end

/-- `np.arange(n)` -/
def nkcArange [HasOfInt α] (n : Nat) : List α := (List.range n).map (fun i => ofInt (Int.ofNat i))

structure NkcZ2kSt (α : Type) where
  depth : Option (List α)
  ret : Option α

section
variable [Add α] [Sub α] [Mul α] [Div α] [LT α] [DecidableLT α] [HasOfInt α]

/-- `np.interp` on an empty table raises `ValueError` -/
def nkcZ2kStep (dvarsDepth : List α) (k : α) (s : NkcZ2kSt α) : String → String → Option (Option (NkcZ2kSt α))
  | "assign", "depth = self.dvars['depth']" => some (some { s with depth := some dvarsDepth })
  | "return", "np.interp(k, depth, np.arange(len(depth)))" =>
    nkcNeed s.depth (fun d => some ((interp d (nkcArange d.length) k).map (fun r => { s with ret := some r })))
  | _, _ => none

/-- `z2k(k)` (one particle; the argument is a depth, the result a fractional level index) as the generated sequence
`prog` (`Gen.nk_grid_z2k_seq` or `Gen.nk_forcing_z2k_seq`) says -/
def nkcZ2kSeq (prog : List Stmt) (dvarsDepth : List α) (k : α) : Option (Option α) :=
  returned NkcZ2kSt.ret (nkcRun nkcNoAtom (nkcZ2kStep dvarsDepth k) prog ⟨none, none⟩)

end

structure NkcLlSt (α : Type) where
  xy : Option (α × α)
  dxy : Option (α × α)
  ret : Option (α × α)

def nkcLlAtom (_ : NkcLlSt α) : String → Option (Option Bool)
  | "with warnings.catch_warnings()" => some (some true)
  | _ => none

def nkcLlStep [Div α] (transform : α → α → α × α) (metric00 : Option (Option (α × α))) (lon lat : α)
    (s : NkcLlSt α) : String → String → Option (Option (NkcLlSt α))
  | "import", "import warnings" => some (some s)
  | "expr", "warnings.filterwarnings('ignore')" => some (some s)
  | "assign", "x, y = self.from_wgs84.transform(np.array(lon), np.array(lat))" =>
    some (some { s with xy := some (transform lon lat) })
  | "assign", "dx, dy = self.sample_metric(np.array(0), np.array(0))" =>
    nkcCall metric00 (fun d => { s with dxy := some d })
  | "return", "(x / dx, y / dy)" =>
    match s.xy, s.dxy with
    | some xy, some d => some (some { s with ret := some (xy.1 / d.1, xy.2 / d.2) })
    | _, _ => some none
  | _, _ => none

/-- `ll2xy(lon, lat)` (one point) as the generated sequence says -/
def nkcLl2xySeq [Div α] (transform : α → α → α × α) (metric00 : Option (Option (α × α))) (lon lat : α) :
    Option (Option (α × α)) :=
  returned NkcLlSt.ret (nkcRun nkcLlAtom (nkcLlStep transform metric00 lon lat) Gen.nk_ll2xy_seq ⟨none, none, none⟩)

def nkcAtseaStep [LT α] [DecidableLT α] [HasOfInt α] (depthAt : Option (Option α)) (_ : Option Bool) :
    String → String → Option (Option (Option Bool))
  | "return", "self.sample_depth(x, y) > 5" => nkcCall depthAt (fun h => some (decide (ofInt 5 < h)))
  | _, _ => none

/-- `atsea(x, y)` (one particle) as the generated sequence says.  (`> 5`: a cell of depth exactly 5 is not sea.) -/
def nkcAtseaSeq [LT α] [DecidableLT α] [HasOfInt α] (depthAt : Option (Option α)) : Option (Option Bool) :=
  returned id (nkcRun nkcNoAtom (nkcAtseaStep depthAt) Gen.nk_atsea_seq none)

/-- `self.sample_metric(np.array(0), np.array(0))` with the interpreted `sample_metric`
(`LadimModel/Forcing/Nk800Seq.lean`): the arguments are integer arrays, `.round()` and `.astype(int)` are the identity -/
def nkcMetric00 {β : Type} (l : NkcLimits) (dxArr dyArr : Int → β) : Option (Option (β × β)) :=
  @sampleMetricSeq Int β ⟨id⟩ ⟨id⟩ l.xmin l.xmax l.ymin l.ymax dxArr dyArr 0 0

end grid

section proj
variable {D P C T : Type}

structure NkcProjSt (P C T : Type) where
  proj4str : Option P
  nk800 : Option C
  wgs84 : Option C
  toWgs84 : Option T
  fromWgs84 : Option T

/-- `mkTransformer a b` = `Transformer.from_crs(a, b, always_xy=True)` -/
def nkcProjStep (proj4Of : D → P) (fromProj4 : P → C) (fromEpsg : Int → C) (mkTransformer : C → C → T) (dset : D)
    (s : NkcProjSt P C T) : String → String → Option (Option (NkcProjSt P C T))
  | "assign", "nk800_proj4str = dset.variables['projection_stere'].proj4" =>
    some (some { s with proj4str := some (proj4Of dset) })
  | "assign", "nk800 = CRS.from_proj4(nk800_proj4str)" =>
    nkcNeed s.proj4str (fun p => some (some { s with nk800 := some (fromProj4 p) }))
  | "assign", "wgs84 = CRS.from_epsg(4326)" => some (some { s with wgs84 := some (fromEpsg 4326) })
  | "assign", "self.to_wgs84 = Transformer.from_crs(nk800, wgs84, always_xy=True)" =>
    match s.nk800, s.wgs84 with
    | some a, some b => some (some { s with toWgs84 := some (mkTransformer a b) })
    | _, _ => some none
  | "assign", "self.from_wgs84 = Transformer.from_crs(wgs84, nk800, always_xy=True)" =>
    match s.nk800, s.wgs84 with
    | some a, some b => some (some { s with fromWgs84 := some (mkTransformer b a) })
    | _, _ => some none
  | _, _ => none

def NkcProjSt.obj (s : NkcProjSt P C T) : Option (T × T) :=
  match s.toWgs84, s.fromWgs84 with
  | some a, some b => some (a, b)
  | _, _ => none

/-- `_init_proj(dset)` as the generated sequence says: `(self.to_wgs84, self.from_wgs84)` -/
def nkcInitProjSeq (proj4Of : D → P) (fromProj4 : P → C) (fromEpsg : Int → C) (mkTransformer : C → C → T) (dset : D) :
    Option (Option (T × T)) :=
  returned NkcProjSt.obj
    (nkcRun nkcNoAtom (nkcProjStep proj4Of fromProj4 fromEpsg mkTransformer dset) Gen.nk_init_proj_seq
      ⟨none, none, none, none, none⟩)

end proj

/-! ### the constructors of `Grid` and `Forcing` -/

/-- the configuration: `gridforce` = `none`: no key `'gridforce'`; `some none`: no `'input_file'` in it;
`startTime`, `dt` = `config['start_time']`, `config['dt']` if present -/
structure NkcConfig (τ : Type) where
  gridforce : Option (Option String)
  startTime : Option τ
  dt : Option Int

/-- `np.diff` -/
def nkcDiff {α : Type} [Sub α] : List α → List α
  | a :: b :: rest => (b - a) :: nkcDiff (b :: rest)
  | _ => []

/-- `self.dvars` -/
structure NkcDvars (H α : Type) where
  h : H
  depth : List α
  dx : List α
  dy : List α

section ctors
variable {τ Db D Pr H α G : Type} [Sub α]

def nkcDvarsOf (readH : D → H) (readDepth readX readY : D → List α) (d : D) : NkcDvars H α :=
  ⟨readH d, readDepth d, nkcDiff (readX d), nkcDiff (readY d)⟩

structure NkcGrid (Db Pr H α : Type) where
  dbase : Db
  proj : Pr
  limits : NkcLimits
  dvars : NkcDvars H α

structure NkcGridCtorSt (Db D Pr H α : Type) where
  server : Option (Option String)
  dbase : Option Db
  dset : Option D
  proj : Option Pr
  limits : Option NkcLimits
  dvars : Option (NkcDvars H α)

def nkcGridCtorStep (cfg : NkcConfig τ) (dbCtor : Option String → Option (Option Db))
    (getDset : Db → τ → Option (Option (Db × D))) (initProj : D → Option (Option Pr))
    (initLimits : D → Option (Option NkcLimits)) (readH : D → H) (readDepth readX readY : D → List α)
    (s : NkcGridCtorSt Db D Pr H α) : String → String → Option (Option (NkcGridCtorSt Db D Pr H α))
  | "assign", "server = config['gridforce'].get('input_file', None)" =>
    some (cfg.gridforce.map (fun f => { s with server := some f }))                       -- KeyError: no `gridforce`
  | "assign", "self.dbase = OnlineDatabase(server)" =>
    match s.server with
    | none => some none
    | some f => nkcCall (dbCtor f) (fun db => { s with dbase := some db })
  | "assign", "dset = self.dbase.get_dset(config['start_time'])" =>
    match s.dbase, cfg.startTime with
    | some db, some t0 => nkcCall (getDset db t0) (fun r => { s with dbase := some r.1, dset := some r.2 })
    | _, _ => some none                                                                  -- KeyError: no `start_time`
  | "expr", "self._init_proj(dset)" =>
    match s.dset with
    | none => some none
    | some d => nkcCall (initProj d) (fun p => { s with proj := some p })
  | "expr", "self._init_gridlimits(dset)" =>
    match s.dset with
    | none => some none
    | some d => nkcCall (initLimits d) (fun l => { s with limits := some l })
  | "assign", "self.dvars = dict(h=dset.variables['h'][:].filled(0), depth=dset.variables['depth'][:].filled(0), dx=np.diff(dset.variables['X'][:].filled(0)), dy=np.diff(dset.variables['Y'][:].filled(0)))" =>
    nkcNeed s.dset (fun d => some (some { s with dvars := some (nkcDvarsOf readH readDepth readX readY d) }))
  | _, _ => none

def NkcGridCtorSt.obj (s : NkcGridCtorSt Db D Pr H α) : Option (NkcGrid Db Pr H α) :=
  match s.dbase, s.proj, s.limits, s.dvars with
  | some a, some b, some c, some d => some ⟨a, b, c, d⟩
  | _, _, _, _ => none

/-- `Grid(config)` as the generated sequence says -/
def nkcGridCtorSeq (cfg : NkcConfig τ) (dbCtor : Option String → Option (Option Db))
    (getDset : Db → τ → Option (Option (Db × D))) (initProj : D → Option (Option Pr))
    (initLimits : D → Option (Option NkcLimits)) (readH : D → H) (readDepth readX readY : D → List α) :
    Option (Option (NkcGrid Db Pr H α)) :=
  returned NkcGridCtorSt.obj
    (nkcRun nkcNoAtom (nkcGridCtorStep cfg dbCtor getDset initProj initLimits readH readDepth readX readY)
      Gen.nk_grid_ctor_seq ⟨none, none, none, none, none, none⟩)

/-- a `Forcing`: `timeconfig['start' | 'step']`, `current_time` (`None` until `update`), `_grid`, `dbase`, `dvars` -/
structure NkcForcing (τ Db G H α : Type) where
  start : τ
  step : Int
  currentTime : Option τ
  grid : G
  dbase : Db
  dvars : NkcDvars H α

structure NkcForcingCtorSt (τ Db D G H α : Type) where
  timeconfig : Option (τ × Int)
  currentTime : Option (Option τ)
  grid : Option G
  server : Option (Option String)
  dbase : Option Db
  dset : Option D
  dvars : Option (NkcDvars H α)

def nkcForcingCtorStep (cfg : NkcConfig τ) (grid : G) (dbCtor : Option String → Option (Option Db))
    (getDset : Db → τ → Option (Option (Db × D))) (readH : D → H) (readDepth readX readY : D → List α)
    (s : NkcForcingCtorSt τ Db D G H α) : String → String → Option (Option (NkcForcingCtorSt τ Db D G H α))
  | "assign", "self.timeconfig = dict(start=config['start_time'], step=config['dt'])" =>
    match cfg.startTime, cfg.dt with
    | some t0, some dt => some (some { s with timeconfig := some (t0, dt) })
    | _, _ => some none                                                                  -- KeyError
  | "assign", "self.current_time = None" => some (some { s with currentTime := some none })
  | "assign", "self._grid = grid" => some (some { s with grid := some grid })
  | "assign", "server = config['gridforce'].get('input_file', None)" =>
    some (cfg.gridforce.map (fun f => { s with server := some f }))
  | "assign", "self.dbase = OnlineDatabase(server)" =>
    match s.server with
    | none => some none
    | some f => nkcCall (dbCtor f) (fun db => { s with dbase := some db })
  | "assign", "dset = self.dbase.get_dset(config['start_time'])" =>
    match s.dbase, cfg.startTime with
    | some db, some t0 => nkcCall (getDset db t0) (fun r => { s with dbase := some r.1, dset := some r.2 })
    | _, _ => some none
  | "assign", "self.dvars = dict(h=dset.variables['h'][:].filled(0), depth=dset.variables['depth'][:].filled(0), dx=np.diff(dset.variables['X'][:].filled(0)), dy=np.diff(dset.variables['Y'][:].filled(0)))" =>
    nkcNeed s.dset (fun d => some (some { s with dvars := some (nkcDvarsOf readH readDepth readX readY d) }))
  | _, _ => none

def NkcForcingCtorSt.obj (s : NkcForcingCtorSt τ Db D G H α) : Option (NkcForcing τ Db G H α) :=
  match s.timeconfig, s.currentTime, s.grid, s.dbase, s.dvars with
  | some tc, some c, some g, some db, some dv => some ⟨tc.1, tc.2, c, g, db, dv⟩
  | _, _, _, _, _ => none

/-- `Forcing(config, grid)` as the generated sequence says -/
def nkcForcingCtorSeq (cfg : NkcConfig τ) (grid : G) (dbCtor : Option String → Option (Option Db))
    (getDset : Db → τ → Option (Option (Db × D))) (readH : D → H) (readDepth readX readY : D → List α) :
    Option (Option (NkcForcing τ Db G H α)) :=
  returned NkcForcingCtorSt.obj
    (nkcRun nkcNoAtom (nkcForcingCtorStep cfg grid dbCtor getDset readH readDepth readX readY)
      Gen.nk_forcing_ctor_seq ⟨none, none, none, none, none, none, none⟩)

end ctors

/-! ### `Forcing.close` -/

/-- `pass`: no statement is a known one -/
def nkcForcingCloseStep {S : Type} (_ : S) : String → String → Option (Option S)
  | _, _ => none

/-- `Forcing.close()` as the generated sequence says: the state of the object afterwards -/
def nkcForcingCloseSeq {S : Type} (s : S) : Option (Option S) :=
  nkcRun nkcNoAtom nkcForcingCloseStep Gen.nk_forcing_close_seq s

end Ladim.Seq
